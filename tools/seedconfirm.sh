#!/bin/bash
# dev aid: seedconfirm.sh <dir-with-patch.diff> <status-dir>
# Confirms one seeded change in a scratch worktree of /repo's HEAD (applies, builds, pinned suite passes) and writes
# <status-dir>/<name>.<HEAD>.status (pass | FAIL | nobuild | noapply). Safe to run many at once (xargs -P).
set -u
dir=$(cd "$1" && pwd); sdir=$2; name=$(basename "$dir")
export GOFLAGS=-mod=mod GOPROXY=off
head=$(git -C /repo rev-parse --short HEAD)
mkdir -p "$sdir"
# (a status is reused for the same HEAD and the same patch text)
sum=$(cat "$dir/patch.diff" | sha1sum | cut -c1-12)
if [ -f "$sdir/$name.$head.status" ] && [ "$(cat "$sdir/$name.$head.sum" 2>/dev/null)" = "$sum" ]; then
  echo "$name: suite=$(cat "$sdir/$name.$head.status") (cached)"; exit 0
fi
wt=$(mktemp -d /tmp/seedconfirm.XXXX)
git -C /repo worktree add --detach "$wt" HEAD >/dev/null 2>&1
suite="?"
if git -C "$wt" apply "$dir/patch.diff" 2>/dev/null; then
  if (cd "$wt" && go build ./... 2>/dev/null); then
    if (cd "$wt" && go test -vet=off -count=1 ./... >"$sdir/$name.log" 2>&1); then suite=pass; else suite=FAIL; fi
  else suite=nobuild; fi
else suite=noapply; fi
git -C /repo worktree remove --force "$wt" >/dev/null 2>&1; rm -rf "$wt"
echo "$suite" > "$sdir/$name.$head.status"
echo "$sum" > "$sdir/$name.$head.sum"
echo "$name: suite=$suite"
