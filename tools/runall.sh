#!/bin/sh
# dev aid: run every check of a tier at one seed, print one line per property
tier=${1:-quick}; seed=${2:-1}
for id in C01 C02 C03 C04 C05 C06 C07 C08 C09 C10 C11 C12 C13 C14 C15 C16 C17 C18 C19 C20; do
  out=$(VERIF_SEED=$seed "$(dirname "$0")/../check.sh" $id $tier 2>&1)
  rc=$?
  echo "$id rc=$rc $(echo "$out" | grep -c '^VIOLATION') violations; $(echo "$out" | grep '^OK\|^INCONCLUSIVE\|^KNOWN' | head -3 | tr '\n' ' ' | cut -c1-200)"
  if [ $rc -ne 0 ]; then echo "$out" | grep -v '^$' | head -25 | cut -c1-400; fi
done
