#!/bin/bash
# dev aid: seedrun.sh <dir-with-patch.diff> <check-id> [tier]
# Confirms the change in a scratch worktree (builds, pinned suite passes), then applies it to /repo, runs the
# check, and restores /repo. Prints one summary line.
set -u
dir=$(cd "$1" && pwd); id=$2; tier=${3:-quick}
export GOFLAGS=-mod=mod GOPROXY=off
export VERIF_EVIDENCE_DIR=/tmp/seedrun-evidence
name=$(basename "$dir")
if ! git -C /repo diff --quiet; then echo "$name: /repo is not clean"; exit 2; fi
head=$(git -C /repo rev-parse --short HEAD)
suite="?"
if [ -n "${SEEDCONFIRM_DIR:-}" ] && [ -f "$SEEDCONFIRM_DIR/$name.$head.status" ]; then
  suite=$(cat "$SEEDCONFIRM_DIR/$name.$head.status") # confirmed beforehand, in parallel (tools/seedconfirm.sh)
else
  wt=$(mktemp -d /tmp/seedconfirm.XXXX)
  git -C /repo worktree add --detach "$wt" HEAD >/dev/null 2>&1
  if git -C "$wt" apply "$dir/patch.diff" 2>/dev/null; then
    if (cd "$wt" && go build ./... 2>/dev/null); then
      if (cd "$wt" && go test -vet=off -count=1 ./... >/tmp/seedsuite.log 2>&1); then suite=pass; else suite=FAIL; fi
    else suite=nobuild; fi
  else suite=noapply; fi
  git -C /repo worktree remove --force "$wt" >/dev/null 2>&1; rm -rf "$wt"
fi
if [ "$suite" != pass ]; then echo "$name: suite=$suite (not a valid seeded change)"; exit 0; fi
git -C /repo apply "$dir/patch.diff"
start=$(date +%s)
out=$(VERIF_SEED=${SEED:-1} /verif/check.sh "$id" "$tier" 2>&1); rc=$?
end=$(date +%s)
git -C /repo checkout -- . ; git -C /repo status --short | grep -v '^??' | head -2
echo "$name: suite=pass check=$id tier=$tier rc=$rc violations=$(echo "$out" | grep -c '^VIOLATION') wall=$((end-start))s"
if [ "${SHOW:-0}" = 1 ]; then echo "$out" | grep -v '^$' | head -30 | cut -c1-300; fi
