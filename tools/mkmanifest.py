#!/usr/bin/env python3
"""Writes /verif/MANIFEST.json from the table below (kept in one place so it stays valid)."""
import json, subprocess

BUILT = {
 "C13": dict(level="exploration",
   technique="grammar-based generation of macro templates, arguments and call sites with an independent tree substitution as reference model; oracle = expanded tree, its printed form and its evaluation equal those of the hand-substituted program, call sites independent",
   text="Templates with unquote holes (each parameter used 0..3 times, 0..4 parameters) are generated from an expression/statement grammar, and used 1..6 times per session at top level, in function bodies, counted loops, conditions and call arguments with arguments that have their own (looser-binding) operators, side effects through a printing function, conditionals and nested macro calls; definitions and uses are spread over several REPL inputs. The harness substitutes on its own tree and prints the macro-free program H. The tree returned by State.ExpandMacros must equal parse(H) on the canonical dump, print identically, evaluate to the same output / echo / errors as H on a twin session (which also shows arguments are evaluated exactly as often and where the template mentions them), and re-expanding any earlier input after later uses must give the same tree (no shared mutable nodes).",
   note="Trusted: the harness's substitution (30 lines) and printer. Only quote-bodied macros with bare-parameter unquotes, as the property states.",
   ref="DESIGN.md section 3, C13"),
 "C15": dict(level="exploration",
   technique="grammar-based generation with token/bracket bookkeeping: mode differential on complete programs, continuation oracle on generated cut points, and chunked-vs-batch evaluation of typed scripts",
   text="Programs are printed from harness-owned trees with random layout; the printer records for every token which constructs are open after it. (1) Complete programs must parse to the intended tree in line mode and in file mode. (2) Up to 25 cuts per program at token boundaries inside an open parenthesis, bracket, block or map, right after a binary operator, and inside string literals and block comments: line mode must ask for a continuation without error, and prefix + newline + rest must parse to the tree of the whole program (not compared where a call/index bracket must follow without whitespace). (3) Typed-grammar scripts with functions, closures, loops and macros defined before use are evaluated at once and in consecutive chunks at generated statement boundaries on one session: concatenated output and final globals must agree.",
   note="Cuts after prefix operators, dots and if/for/else are labelled but not asserted. Scripts that fail when run at once are skipped and counted. Also: the grol command on a pseudo terminal (script(1)), multi-line programs typed line by line against the same text run as a file; skipped where script(1) is missing, inconclusive when the session does not end.",
   ref="DESIGN.md section 3, C15"),
 "C14": dict(level="exploration",
   technique="round-trip testing of generated global environments (SaveGlobals -> AutoLoad line by line and load() whole file -> compare values, types, function text and behaviour; save fixpoint) plus stateful save/load/mutate cycles against a model",
   text="Generated environments hold integers (both extremes), floats (integral-valued, -0, subnormal, huge, infinities, NaN), strings over all bytes, nested arrays and maps with keys of every type and sizes around the thresholds, and named functions / func literals / lambdas whose bodies come from the full statement grammar with comments; they are saved with State.SaveGlobals and loaded into fresh states both ways. Checked: one line per binding with the right prefix, sorted; no load error; identical type and structure of every data value; identical printed form and identical output / result / error of every function on three generated argument tuples; saving the reloaded state gives identical bytes; with a length limit longer values are absent and all others present (values placed right at the limit). A stateful generator adds save / load / mutate cycles through the language's own save() and load() against a model.",
   note="Function bodies in the class of known finding K-C02-1 are excluded by construction (the compact printer changes such trees). Functions are compared on 3 argument tuples, not all. K-C14-1 (Inf / NaN rebound) and K-C14-2 (comments of a function body seen through first/rest) are listed findings, steered around and counted.",
   ref="DESIGN.md section 3, C14"),
 "C18": dict(level="fault_enumeration",
   technique="fault injection with exhaustive enumeration of crash points (SIGKILL at hook points in a child process) and byte-granular write failures (RLIMIT_FSIZE) over rapid-generated pairs of previous/new state; oracle = on-disk file is exactly the previous or the new file and the next session loads one of the two states",
   text="For rapid-generated pairs of a previous state A (or none) and a mutation giving state B (up to 60 bindings, values from a few bytes to tens of KB, growing / shrinking / same size / one huge value), every crash point of the auto-save of B is enumerated: before and after creating the temporary file, after each binding written by SaveGlobals, after the last write and after the rename; the child process kills itself with SIGKILL at the chosen hook point, and the parent reads ./.gr from the disk: it must be byte-identical to A's file (absent if A was absent) or B's file, A before the rename and B after it, and a fresh process must auto-load it without error into globals equal to A's or B's. Write failures are injected after 0, 1, size-1 bytes and around every line boundary; the previous file must survive.",
   note="Uses the verif build tag (verifhook.Point). Process death, not power loss (no fsync semantics). Left-over temporary files are allowed and counted. Also: a later complete save after an interrupted one equals the save in a clean directory; the session's own final globals equal what the next session restores; a system-call trace (strace, skipped where tracing is not possible) shows that ./.gr is only ever replaced by one rename, also when that rename is made to fail.",
   ref="DESIGN.md section 3, C18"),
 "C17": dict(level="exploration",
   technique="exhaustive enumeration of short file names over a hostile alphabet + rapid composed names, each evaluated in a child process per IO configuration against a reference name predicate and a scan of the real file system effects",
   text="Every name up to length 5 (quick) / 6 (thorough) over {a, Z, 0, _, '.', '/', '\\', NUL, space, '~', 0xff}, bare and with .gr appended, is passed to load() and save() through repl.EvalStringWithOption in a child process whose extensions were initialised restricted or empty-only (once per process), with a working directory inside a scratch tree of sentinel files that print LEAK <path> when evaluated. Acceptance must equal a predicate written from the property and be independent of earlier requests (second pass in reversed order in a fresh child); an accepted save may only create cwd/<stem>.gr; after a rejected request the whole tree (names, sizes, hashes) must be unchanged; no sentinel other than cwd/<stem>.gr may ever be evaluated; exec/run must not exist; image.save may only create cwd/grol.png. The disabled configuration and an unrestricted positive control (the detector must see the escape) run too; rapid composes longer names from path fragments.",
   note="Reads of non-sentinel files are not observable through output. No symlink is planted (a plain-named symlink is followed; that is about directory content, not names).",
   ref="DESIGN.md section 3, C17"),
 "C19": dict(level="exploration",
   technique="model-based testing of generated attack sequences (every syntactic mutation path x every value type and size) combined with a registers on/off differential; oracle = the constant keeps its bound value until an explicit del",
   text="A constant is bound to one of 26 values (every scalar type, arrays and maps of 0..20 elements on both sides of the thresholds, nested containers, functions) and attacked by 3-14 generated attempts drawn from 36 forms: =, :=, same-value re-assignment, ++ / -- in all four forms, index / field assignment, del of an element, self-append, loop variable of each of the five loop forms, parameter of functions and lambdas, assignment from nested functions, loops and closures, func NAME(){} redefinition, mutation through an alias or a mutating function, and del + re-binding (which resets the model). After every attempt the constant read at top level must equal the model's value, any value printed for it by a non-failing attempt must be the model's, and error/no-error and output must agree between a session with registers and one without.",
   note="The alias path on large containers belongs to known finding K-C06-1 and is excluded by construction while that is listed.",
   ref="DESIGN.md section 3, C19"),
 "C10": dict(level="exploration",
   technique="metamorphic / twin-session testing: a history of succeeding inputs with and without interleaved side-effect-free failing inputs; oracle = every succeeding input behaves identically in both sessions",
   text="Succeeding inputs (typed-grammar statements plus fixed inputs that print from inside a function, run counted loops and recurse) are fed to one persistent session, and to a twin in which 0..12 failing inputs of 25 kinds (language error at top level / in nested calls / in every loop form, type error deep in an expression, depth overflow, memory-guard refusal, deadline on a tight loop, parse error, incomplete input, wrong arity...) are inserted at every position; the session writer is set once, so output that goes astray shows up as a missing delta. Per succeeding input the output, echo, errors and panicked flag must match, and the final globals too. Every failure kind is also run 12 times in a row in a deterministic family.",
   note="Failing inputs are built to be side-effect free (IIFEs, own names, no prints). A failing input that does not fail as constructed (deadline not firing) makes the case inconclusive. Successes run with a 20 s safety deadline. A calibrated deepest-recursion probe and the same memoizable calls after a deadline make left-over depth / cache state visible; interpreter state only exec() would show (the piped value) is read directly.",
   ref="DESIGN.md section 3, C10"),
 "C04": dict(level="exploration",
   technique="differential testing (function-result cache on vs off through a build-tag hook) of stateful REPL histories and typed-grammar programs; oracle = identical per-input output, echo, error/no-error and final globals",
   text="A stateful generator builds REPL histories that define and redefine functions and lambdas from body templates (pure, global-reading, constant-reading, callee-calling, printing, failing, impure through a harness-registered DontCache extension, recursive, closure factories capturing numbers, strings, upper-case names and function values, counters with mutable captured state), call them with arguments from a small pool and repeat earlier calls verbatim, mutate globals, delete and re-create names; the same history runs on two fresh states with the cache enabled and with every lookup forced to miss, and every input's output, echo, error presence and the final globals must agree. The hook's hit counter measures that a history really had cache hits after a state change. Stale hits need a pair of calls separated by a particular state change (found: redefined callee, deleted constant, captured function value, -0.0 vs 0.0, cached closure result, cached caller of an impure callee, new global).",
   note="Uses the verif build tag (eval/verif_on.go). A defect present with and without the cache is invisible here. rand/time.now are represented by the harness's own impure extension.",
   ref="DESIGN.md section 3, C04"),
 "C06": dict(level="exploration",
   technique="stateful model-based testing (rapid): operation histories over 6 variables against a value-semantics model with a check of every live binding after every statement",
   text="Histories of 10-40 statements (bind literals of 0..20 elements, copy, store inside a container and read back, index / key / field assignment incl. negative index, append, concat, merge, two appends from one base, del, slice, rest, pass to a mutating function, mutate while iterating, ++ on an element copy) run on one session; the model deep-copies on every bind and after EVERY statement every live variable must evaluate to the model's value, so any operation that changes a binding it was not applied to is caught at the step where it happens. Sizes are drawn on both sides of the 8-element / 4-pair thresholds. In-place mutation of shared large containers and appends into shared spare capacity are genuine defects recorded as known findings; the machine tracks storage provenance only to exclude exactly those steps.",
   note="Trusted: the value model (harness/val) and the provenance tracking that decides which steps belong to the two known-finding classes (conservative: it may exclude a harmless step, never include a harmful one on the unchanged tree). Statements also run inside immediately called functions, so every variable is reached through a reference.",
   ref="DESIGN.md section 3, C06"),
 "C05": dict(level="exploration",
   technique="differential testing (registers on vs State.NoReg) of typed-grammar programs and multi-input sessions; oracle = identical per-input output, echo, error/no-error, panicked flag and final globals",
   text="Typed-grammar programs (functions of up to 12 parameters of mixed types, recursion, closures, variadics, parameter mutation with = ++ --, counted loops nested up to 10 deep, all loop forms and exits, error/catch, containers) are evaluated whole or statement by statement on two fresh states, with and without registers, and every input's output, echo, error presence and the final globals are compared; two focused generators add sessions of up to 40 top-level loops each left in a drawn way, and functions of 0..12 parameters called with every mix of integer / non-integer arguments whose bodies mutate, print, loop over and capture the parameters. Four classes where the optimisation is observable by design are excluded by construction and reported as known findings.",
   note="A defect present with and without registers is invisible here (C01 covers semantics). Inputs stopped by the 4 s safety deadline make the rest of the case inconclusive. Error wording is not compared. K-C05-2 is additionally recognised by its call site (the one error message) after comparing everything before it. Inputs that ran until their deadline are inconclusive whatever the error says.",
   ref="DESIGN.md section 3, C05"),
 "C07": dict(level="exploration",
   technique="exhaustive operator/builtin/extension x operand-kind tables + wild grammar-based generation + token-level mutation of shipped examples + native fuzzing; oracle = repl.EvalOne never reports a panic other than the two documented guards, process stays alive",
   text="Every infix operator on every ordered pair of a 42-value operand pool (all kinds, boundary integers, NaN, empty/huge containers, functions, quotes), every prefix/postfix operator, builtin and left-hand-side form on every value, index/slice with all pairs of 16 boundary bounds on 13 targets, every registered extension with 0, 1 and 2 arguments from the pool exhaustively and 3 from a sub-pool, functions of 0..12 integer parameters and loops nested to depth 12 are evaluated in a session holding one variable of every kind; rapid adds wild programs from the syntactic grammar and token-level mutations of the shipped examples; thorough adds coverage-guided fuzzing. Absence of panics is a statement over operand kinds x operators x node shapes, which the tables enumerate.",
   note="Process memory limit 256 MiB (so the allocation guard is live) with RLIMIT_AS as safety net; per-input deadline 300 ms and depth 300. read/exec/run/long sleeps are not called. A dying or hanging process is re-run on its in-flight case.",
   ref="DESIGN.md section 3, C07"),
 "C03": dict(level="exploration",
   technique="grammar-based generation with random layout and comment placement + exhaustive statement adjacencies + child-process differential + native fuzzing; oracle = format(format(t)) == format(t) byte for byte, single trailing newline, bytes independent of input order and process",
   text="Accepted texts (generated with comments in every statement position and random line layout so both same-line flags vary, every ordered pair of 35 statement shapes in two layouts, the shipped examples) are formatted twice per mode and must be byte-identical, with exactly one trailing newline in normal mode; batches are formatted in order, in a permuted order interleaved with parsing unrelated inputs (token interning), and in a child process with another map seed (map literals with 9-16 pairs included). Non-idempotence needs particular neighbouring nodes (found: comment at the end of one block followed by another block), which the adjacency and comment generators target.",
   note="Inputs whose first formatting does not re-parse are C02's subject and skipped; the class of known finding K-C02-2 is excluded by construction (its first formatting re-parses to a different tree).",
   ref="DESIGN.md section 3, C03"),
 "C01": dict(level="exploration",
   technique="differential testing against an independent reference evaluator: rapid-generated typed programs (own syntax tree and printer), oracle = printed text, final value (type, structure, float bits) and error/no error equal those of harness/ref",
   text="Programs are drawn from the harness's typed grammar of the core language (functions, lambdas, closures, recursion with a fuel parameter, variadics, if/else, every for form with break/continue/return, = and :=, ++/--, indexing with negative indices, slicing, every operator, && and ||, error()/catch(), containers on both sides of the small/large thresholds, boundary integers) and printed by the harness's own printer, so the intended tree is known without grol's parser. grol evaluates the text in a fresh default state; the reference evaluator (harness/ref: own scoping model with references and recursion parenting, Go int64 arithmetic, own value order and printed form) evaluates the tree. Interactions (precedence x associativity x unary operators, scoping x recursion x closures, slicing x negative indices x size, control flow x loops x return) are what the generator multiplies; each case is classified by the interactions it exercised.",
   note="As strong as the reference is faithful: it was written from the evaluator's documentation and code reading and shares no code with /repo. Error message wording is not compared. Programs touching a listed known finding (K-C06-1, K-C06-2, K-C05-1..3 by construction) are excluded and counted. K-C05-2 (non-integer assigned to an integer parameter) is steered around by the generator and additionally recognised by its call site (the one error message), after comparing everything printed before it.",
   ref="DESIGN.md section 3, C01"),
 "C02": dict(level="exploration",
   technique="grammar-based generation from harness-owned trees with an independent printer + exhaustive operator-position x construct pairs and statement adjacencies + native fuzzing; oracle = round trip on a canonical structural dump and equality with the intended tree",
   text="Program texts are printed from trees the harness owns (own precedence table, random layout, redundant parentheses, comments in statement positions, all literal forms), so the intended tree is known: the parser must build exactly it, and format(parse(t)) in normal and compact mode must be accepted and parse to the same canonical dump (comments dropped for compact); Function.Inspect output must parse back to the function literal. The quadratic family every-operand-position x every-construct (62x56) and every ordered pair of 35 statement shapes (top level and in a block) are enumerated completely; rapid generates nested programs; thorough adds coverage-guided fuzzing of examples/tests. Two classes are excluded by construction and reported as known findings (pinned by the repository's own tests).",
   note="Trusted: gen.Print and its precedence table (written from documentation and parser tests), the dump of package dump. Texts with comments in operand position are skipped and counted.",
   ref="DESIGN.md section 3, C02"),
 "C08": dict(level="exploration",
   technique="exhaustive enumeration of short token sequences + rapid token sequences / truncations / byte mutations of shipped examples + native fuzzing; oracle = no panic, complete tree (canonical dump has no nil child) and printable in 3 modes when accepted, error echo within input",
   text="All token sequences up to length 3 (quick) / 4 (thorough) over a 67-exemplar token alphabet (every keyword, builtin, operator, delimiter, literal kind, comments, newline, an illegal byte, unterminated string and comment), glued and spaced, are parsed in both lexer modes; every nil-returning parse path must be justified by an error or a continuation request, which is decided by a structural dump of accepted trees; printing in normal/compact/all-parens mode must not panic. rapid adds 40-token sequences, every truncation and random byte mutations (NUL, 0xff, quotes, brackets) of examples/ and tests/; thorough adds coverage-guided fuzzing.",
   note="Termination is observed via the driver's timeout with the in-flight case stored and re-run alone. The echo check only requires the echoed text to occur in the input.",
   ref="DESIGN.md section 3, C08"),
 "C09": dict(level="exploration",
   technique="rapid-generated programs x configurations, one child process per case under GOMEMLIMIT/RLIMIT_AS; oracle = child exits by itself, wall time <= deadline + 3 s, peak RSS <= 3 x limit + 128 MiB, unbounded recursion ends as 'max depth'",
   text="Each generated case is a program from the families the property names (non-terminating loops with and without allocation, direct / mutual / closure / self recursion, growth operators with huge and overflowing operands and doubling loops, source text nested 10^2 .. 2*10^6 deep in 12 syntactic ways, sleep, mixtures) together with a depth limit (10 .. default), a deadline (1 ms .. 1 s), a memory limit (64 .. 256 MiB) and the program format. It runs in its own child process through repl.EvalStringWithOption, because the failures in question (Go stack overflow, out of memory) kill the process and cannot be recovered in-process; exit status, signal, wall time and peak RSS are read from the child and a report says which guard fired.",
   note="Timing and memory are measured: tolerances are wide and a case over the time bound is re-run alone twice before it counts. Cancellation instants are sampled, not enumerated. Also deterministic parts: every nesting / chaining form and every growth program once per run (nesting family under a 32 MiB Go stack, see DESIGN.md), values referencing one container from many places, and the command line's limits in every input mode. The time bound is taken around the evaluation call inside the child.",
   ref="DESIGN.md section 3, C09"),
 "C11": dict(level="exploration",
   technique="model-based testing: exhaustive breadth-first exploration of reachable map states (contents x representation) for a 7-key universe + rapid stateful operation sequences through grol source, oracle = sorted association-list reference map",
   text="Every reachable (contents, internal representation) state of maps over 7 mixed-type keys (including the order-equivalent keys 2 and 2.0) and 2 values is reached breadth-first and every operation (Set, Delete, Rest, Range for all bounds, Append in both directions with 9 operands, Get, First, Len, Inspect, Equals/Cmp) is applied in it and compared with a sorted association-list model, so every position x representation x promotion/demotion boundary at the 4-pair threshold is hit; rapid then drives 10-60 step sequences of the same operations through grol source on a 45-key universe with a model check after every statement.",
   note="Trusted: the association-list model in harness/val. API handles are used linearly (aliasing is C06).",
   ref="DESIGN.md section 3, C11"),
 "C12": dict(level="exploration",
   technique="exhaustive pairs/triples of a curated value universe + rapid 'almost equal' nested triples; oracle = algebraic laws of a total preorder, operator cross-consistency, reference order",
   text="All ordered pairs and triples of an ~85-value universe (integers around 2^53/2^63 next to floats, -0, NaN, infinities, non-UTF-8 strings, small and large arrays and maps, nested containers, functions, extensions, quotes) are checked for the laws of a total preorder on object.Cmp/Equals and for consistency of <,<=,>,>=,==,!=,min,max, map literal order and map lookup through grol source; rapid adds nested values where one leaf differs and cross-checks the sign of Cmp against an independent exact reference order. Violations of transitivity need specific triples (found: 2^53+1 / 2^53.0 / 2^53), which the universe is built around.",
   note="Trusted: the reference order in harness/val (exact int/float comparison) for the random part; the laws themselves need no model.",
   ref="DESIGN.md section 3, C12"),
 "C16": dict(level="exploration",
   technique="exhaustive enumeration of short byte strings over the significant alphabet + rapid glued-fragment strings + native fuzzing, oracle = span tiling / literal==bytes / independent string decoder",
   text="Every byte string up to length 4 (quick) or 5 (thorough) over a 39-byte alphabet is lexed in both modes with Pos() observed around each token and checked for tiling, literal==span, string/comment spans, end-marker behaviour, interning and keyword typing; byte loss after special cases (malformed exponent, second dot) is a short-input defect that this finds completely within the bound. rapid adds 200-byte strings of glued token fragments; thorough adds coverage-guided fuzzing.",
   note="Trusted: the harness's own reading of the string-escape syntax and whitespace set. NUL inside the input is treated as the lexer's in-band end sentinel (see evidence assumptions).",
   ref="DESIGN.md section 3, C16"),
 "C20": dict(level="exploration",
   technique="small-scope exhaustive enumeration of insertion orders + rapid random sequences against a set-of-words model",
   text="Every insertion order of every subset of size<=4 of short words over two tiny alphabets (incl. bytes 0x00/0xff), all 2^14 subsets in three canonical orders, duplicates and the empty word are checked against a set model after every insertion (membership, prefix listing, common-prefix length); rapid adds long random words over arbitrary bytes and identifier sessions through State.RegisterTrie. Trie defects are order/prefix-shape defects, which are small-scope; beyond the bound only sampling speaks.",
   note="Trusted: the 40-line set model in props/c20. The unexported completion callback is not driven through a terminal; its pure core is recomputed from PrefixAll.",
   ref="DESIGN.md section 3, C20"),
}

PENDING_REASON = "check not built yet in this session (work in progress; see DESIGN.md section 3 for the planned generated check)"

def main():
    hooks_commits = []
    try:
        out = subprocess.run(["git","-C","/repo","log","--format=%H %s"],capture_output=True,text=True).stdout
        for line in out.splitlines():
            h, _, subj = line.partition(" ")
            if subj.startswith("verif hook"):
                hooks_commits.append(h)
    except Exception:
        pass
    checks = []
    na = []
    for i in range(1, 21):
        pid = "C%02d" % i
        if pid in BUILT:
            b = BUILT[pid]
            checks.append({
                "property_id": pid,
                "quick_cmd": "/verif/check.sh %s quick" % pid,
                "thorough_cmd": "/verif/check.sh %s thorough" % pid,
                "evidence_file": "/verif/evidence/%s.json" % pid,
                "replay_cmd_template": "/verif/check.sh %s replay {path}" % pid,
                "engine": "vcheck",
                "level_claimed": {"category": b["level"], "text": b["text"], "design_ref": b["ref"]},
                "level_note": b["note"],
                "technique": b["technique"],
            })
        else:
            na.append({"property_id": pid, "reason": PENDING_REASON})
    m = {
        "version": 1,
        "setup_cmd": "cd /verif/harness && GOFLAGS=-mod=mod GOPROXY=off go build -o /verif/bin/vcheck ./cmd/vcheck && GOFLAGS=-mod=mod GOPROXY=off go vet -tags verif ./... >/dev/null 2>&1; true",
        "hooks": {
            "guard": "verif",
            "enable": "go test -c -tags verif (done by /verif/bin/vcheck for every check; harness module replaces grol.io/grol with /repo)",
            "baseline_off_cmd": "cd /repo && GOPROXY=off go test -vet=off -count=1 ./...",
            "source_commits": hooks_commits,
            "add_only": True,
        },
        "engines": [{
            "name": "vcheck",
            "path": "/verif/harness/cmd/vcheck",
            "serves_properties": sorted(BUILT.keys()),
            "kind_free_text": "Go driver: builds props/<id> test binary against /repo's working tree, runs sharded rapid (pgregory.net/rapid v1.3.0) properties, exhaustive small-scope enumerations and (thorough) native go fuzz targets, merges statistics into evidence, reports shrunk replay files",
        }],
        "checks": checks,
        "notes": "All checks are property-based tests / fuzzers with explicit oracles; see DESIGN.md. KNOWN_FINDINGS.txt lists recorded findings and fixed defects.",
        "not_applicable": na,
    }
    json.dump(m, open("/verif/MANIFEST.json", "w"), indent=1)
    print("wrote MANIFEST.json with", len(checks), "checks")

if __name__ == "__main__":
    main()
