#!/usr/bin/env python3
"""Fills the generated tables of DESIGN.md (between BEGIN/END markers) from evidence/*.json and seeded/RESULTS.md."""
import json, glob, os, re, subprocess
root = os.path.dirname(os.path.dirname(os.path.abspath(__file__)))
rows = ['| id | tier | evaluations | non-trivial | exhaustive part | wall | excluded (open findings) |', '|---|---|---|---|---|---|---|']
for f in sorted(glob.glob(os.path.join(root, 'evidence', 'C*.json'))):
    d = json.load(open(f)); c = d['coverage']
    ex = ', '.join('%s %d' % (k, v) for k, v in sorted(c.get('excluded_known', {}).items())) or '-'
    bound = c.get('exhaustive_bound') or ('yes' if c.get('exhaustive') else '-')
    rows.append('| %s | %s | %d | %d | %s | %.0f s | %s |' % (os.path.basename(f)[:3], d.get('tier', '?'), c['evaluations'], c['distinct_nontrivial'], bound if len(str(bound)) < 140 else str(bound)[:137] + '...', d.get('wall_s', 0), ex))
cov = '\n'.join(rows)
seeded = subprocess.run([os.path.join(root, 'tools', 'mkseedtable.py')], capture_output=True, text=True).stdout.strip()
p = os.path.join(root, 'DESIGN.md')
s = open(p).read()
s = re.sub(r'<!-- BEGIN:coverage -->.*?<!-- END:coverage -->', lambda m: '<!-- BEGIN:coverage -->\n' + cov + '\n<!-- END:coverage -->', s, flags=re.S)
s = re.sub(r'<!-- BEGIN:seeded -->.*?<!-- END:seeded -->', lambda m: '<!-- BEGIN:seeded -->\n' + seeded + '\n<!-- END:seeded -->', s, flags=re.S)
open(p, 'w').write(s)
print('DESIGN.md tables updated')
