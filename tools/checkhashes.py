#!/usr/bin/env python3
"""Verifies that every 'fixed:' line of KNOWN_FINDINGS.txt names a commit that exists in /repo and starts with 'fix:'."""
import subprocess, sys
log = subprocess.run(["git", "-C", "/repo", "log", "--format=%h %s"], capture_output=True, text=True).stdout.splitlines()
subj = {l.split()[0]: l.split(" ", 1)[1] for l in log}
bad = 0
for line in open("/verif/KNOWN_FINDINGS.txt"):
    if line.startswith("fixed:"):
        h = line.split()[2]
        if h not in subj or not subj[h].startswith("fix:"):
            print("BAD", line.strip()[:100]); bad += 1
print("fixed-lines ok" if not bad else "%d bad" % bad)
sys.exit(1 if bad else 0)
