#!/bin/bash
# dev aid: run every seeded change against its property's quick check, write seeded/RESULTS.md
cd /verif
out=seeded/RESULTS.md
echo "# Seeded changes vs checks (quick tier, VERIF_SEED=1)" > $out
echo >> $out
echo "| change | check | pinned suite | violations reported | wall |" >> $out
echo "|---|---|---|---|---|" >> $out
for d in seeded/C*-m*; do
  id=$(basename $d | cut -d- -f1)
  line=$(tools/seedrun.sh $d $id quick | tail -1)
  echo "$line"
  suite=$(echo "$line" | sed -n 's/.*suite=\([a-zA-Z]*\).*/\1/p')
  viol=$(echo "$line" | sed -n 's/.*violations=\([0-9]*\).*/\1/p')
  wall=$(echo "$line" | sed -n 's/.*wall=\([0-9a-z]*\).*/\1/p')
  echo "| $(basename $d) | $id | $suite | ${viol:-n/a} | ${wall:-} |" >> $out
done
