#!/bin/bash
# dev aid: run every seeded change against its property's quick check, write seeded/RESULTS.md
cd /verif
# the pinned suite is run on every change first, eight at a time, in scratch worktrees
export SEEDCONFIRM_DIR=${SEEDCONFIRM_DIR:-/tmp/seedconfirm-status}
ls -d seeded/C*-m* | xargs -P 8 -I{} tools/seedconfirm.sh {} "$SEEDCONFIRM_DIR" > /tmp/seedconfirm.log 2>&1
out=seeded/RESULTS.md
echo "# Seeded changes vs checks (quick tier, VERIF_SEED=1)" > $out
echo >> $out
echo "| change | check | pinned suite | violations reported | wall |" >> $out
echo "|---|---|---|---|---|" >> $out
for d in seeded/C*-m*; do
  id=$(basename $d | cut -d- -f1)
  line=$(tools/seedrun.sh $d $id quick | tail -1)
  echo "$line"
  suite=$(echo "$line" | sed -n 's/.*suite=\([a-zA-Z]*\).*/\1/p')
  viol=$(echo "$line" | sed -n 's/.*violations=\([0-9]*\).*/\1/p')
  wall=$(echo "$line" | sed -n 's/.*wall=\([0-9a-z]*\).*/\1/p')
  echo "| $(basename $d) | $id | $suite | ${viol:-n/a} | ${wall:-} |" >> $out
done
# changes that belong to one property's text but are observed by another property's check
if [ -f seeded/ALSO.txt ]; then
  while read -r name id; do
    [ -z "$name" ] && continue
    line=$(tools/seedrun.sh seeded/$name $id quick | tail -1)
    echo "$line"
    suite=$(echo "$line" | sed -n 's/.*suite=\([a-zA-Z]*\).*/\1/p')
    viol=$(echo "$line" | sed -n 's/.*violations=\([0-9]*\).*/\1/p')
    wall=$(echo "$line" | sed -n 's/.*wall=\([0-9a-z]*\).*/\1/p')
    echo "| $name | $id | $suite | ${viol:-n/a} | ${wall:-} |" >> $out
  done < seeded/ALSO.txt
fi
