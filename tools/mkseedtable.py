#!/usr/bin/env python3
"""Writes the 'which check catches which seeded change' table (DESIGN.md section 8.5) from seeded/*/meta.json
and seeded/RESULTS.md. Usage: tools/mkseedtable.py > /tmp/table.md"""
import json, glob, os, re
root = os.path.dirname(os.path.dirname(os.path.abspath(__file__)))
res = {}
for line in open(os.path.join(root, 'seeded', 'RESULTS.md')):
    m = re.match(r'\| (C\d\d-m\d) \| (C\d\d) \| (\w+) \| ([^|]*) \| ([^|]*) \|', line)
    if m:
        row = (m.group(2), m.group(3), m.group(4).strip(), m.group(5).strip())
        prev = res.get(m.group(1))
        # a change may be run against a second check (seeded/ALSO.txt): the row that reports violations wins
        if prev is None or (prev[2] in ('', '0', 'n/a') and row[1] == 'pass'):
            res[m.group(1)] = row
print('| change | what it breaks (from its meta.json) | caught by | first miss -> what was strengthened |')
print('|---|---|---|---|')
notes = json.load(open(os.path.join(root, 'seeded', 'NOTES.json'))) if os.path.exists(os.path.join(root, 'seeded', 'NOTES.json')) else {}
for d in sorted(glob.glob(os.path.join(root, 'seeded', 'C*-m*'))):
    name = os.path.basename(d)
    try:
        meta = json.load(open(os.path.join(d, 'meta.json')))
    except Exception:
        meta = {}
    summ = (meta.get('summary') or '').replace('|', '/').replace('\n', ' ')
    if len(summ) > 230:
        summ = summ[:227] + '...'
    r = res.get(name)
    caught = 'not run'
    if r:
        if r[1] != 'pass':
            caught = 'n/a (%s)' % r[1]
        elif r[2] not in ('', '0', 'n/a'):
            caught = '%s quick (%s)' % (r[0], r[3])
        else:
            caught = 'MISSED by %s quick' % r[0]
    print('| %s | %s | %s | %s |' % (name, summ, caught, notes.get(name, '')))
