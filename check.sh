#!/bin/sh
# Entry point registered in MANIFEST.json: (re)builds the driver, which rebuilds the property's
# test binary from /repo's current working tree with -tags verif, then runs it.
# usage: check.sh <ID> quick|thorough      or      check.sh <ID> replay <file>
export GOFLAGS=-mod=mod GOPROXY=off
unset GOTOOLCHAIN GOSUMDB
ROOT=$(cd "$(dirname "$0")" && pwd)
replay="$3"
case "$replay" in ""|/*) ;; *) replay="$(pwd)/$replay" ;; esac
export VERIF_ROOT="$ROOT"
cd "$ROOT/harness" || exit 2
mkdir -p "$ROOT/bin"
go build -o "$ROOT/bin/vcheck" ./cmd/vcheck || { echo "cannot build the driver" >&2; exit 2; }
id="$1"; mode="${2:-quick}"
case "$mode" in
  replay) exec "$ROOT/bin/vcheck" -prop "$id" -replay "$replay" ;;
  *)      exec "$ROOT/bin/vcheck" -prop "$id" -tier "$mode" ;;
esac
