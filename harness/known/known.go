// Package known holds the class predicates of the findings listed as "known:" in
// /verif/KNOWN_FINDINGS.txt. Each predicate recognises a finding's class on a case BEFORE it is
// run, so generators can steer around it by construction (and count it) while everything else
// stays under test. A predicate is only active while its finding is listed (pbt.KnownOpen).
package known

import (
	"grol.io/grol/ast"
	"grol.io/grol/token"
	"strings"
	"verif/gen"
	"verif/pbt"
)

const (
	// The printer drops the parentheses of a right operand whose operator has the same precedence as its
	// parent (a-(b-c) -> a - b - c). Pinned by the repository's own Test_OperatorPrecedenceParsing
	// ("1 + (2 + 3) + 4" must print "1 + 2 + 3 + 4"), so it cannot be repaired without editing that suite.
	RightAssocParens = "K-C02-1"
	// In normal (long) form a statement that starts with a unary - + ^ ++ -- is printed bare on its own line
	// after another statement and is read back as a binary/postfix operator continuing it ("3 + 4\n-5 * 5").
	// Pinned by the same test ("3 + 4; -5 * 5" must print "3 + 4\n-5 * 5").
	SignStartStatement = "K-C02-2"
)

func signOp(op string) bool {
	switch op {
	case "-", "+", "^", "++", "--":
		return true
	}
	return false
}

// ---- on the harness's own trees --------------------------------------------------------------------

func rightSamePrec(n *gen.Node) bool {
	switch n.K {
	case gen.KInfix:
		r := n.Kids[1]
		return r.K == gen.KInfix && gen.Prec(r.S) == gen.Prec(n.S)
	case gen.KSlice:
		r := n.Kids[2]
		return r != nil && r.K == gen.KInfix && gen.Prec(r.S) == gen.Prec(":")
	}
	return false
}

func startsWithSign(n *gen.Node) bool {
	for {
		switch n.K {
		case gen.KPrefix:
			return signOp(n.S)
		case gen.KInt:
			return strings.HasPrefix(n.S, "-") // the smallest integer is written with its sign
		case gen.KInfix:
			l := n.Kids[0]
			if l.K == gen.KInfix && gen.Prec(l.S) < gen.Prec(n.S) {
				return false // printed inside parentheses
			}
			if l.K == gen.KLambda || l.K == gen.KIf || l.K == gen.KFor || l.K == gen.KFunc {
				return false
			}
			n = l
		case gen.KIndex, gen.KSlice, gen.KDot, gen.KCall:
			t := n.Kids[0]
			if t.K == gen.KInfix || t.K == gen.KPrefix {
				return false // parenthesised target
			}
			n = t
		default:
			return false
		}
	}
}

func signStartIn(stmts []*gen.Node) bool {
	for i, s := range stmts {
		if i > 0 && startsWithSign(s) {
			return true
		}
	}
	return false
}

// Classes returns the set of listed findings whose class the program belongs to.
func Classes(stmts []*gen.Node) map[string]bool {
	res := map[string]bool{}
	if pbt.KnownOpen(SignStartStatement) && signStartIn(stmts) {
		res[SignStartStatement] = true
	}
	gen.WalkAll(stmts, func(n *gen.Node) {
		if pbt.KnownOpen(RightAssocParens) && rightSamePrec(n) {
			res[RightAssocParens] = true
		}
		if pbt.KnownOpen(SignStartStatement) && (signStartIn(n.Body) || signStartIn(n.Else)) {
			res[SignStartStatement] = true
		}
	})
	return res
}

// Tree returns the id of one listed finding whose class the program belongs to, or "".
func Tree(stmts []*gen.Node) string {
	c := Classes(stmts)
	switch {
	case c[SignStartStatement]:
		return SignStartStatement
	case c[RightAssocParens]:
		return RightAssocParens
	}
	return ""
}

// Repair rewrites the tree so that it leaves every listed class: an offending right operand is turned
// into a call argument id(<operand>) and an offending statement into a one-element array [<statement>].
// (Only for syntactic checks: the rewrite does not preserve meaning.)
func Repair(stmts []*gen.Node) []*gen.Node {
	fixList := func(l []*gen.Node) {
		for i, s := range l {
			if i > 0 && pbt.KnownOpen(SignStartStatement) && startsWithSign(s) {
				l[i] = gen.Array(s)
			}
		}
	}
	fixList(stmts)
	gen.WalkAll(stmts, func(n *gen.Node) {
		fixList(n.Body)
		fixList(n.Else)
		if pbt.KnownOpen(RightAssocParens) && rightSamePrec(n) {
			if n.K == gen.KInfix {
				n.Kids[1] = gen.Call(gen.Id("id"), n.Kids[1])
			} else {
				n.Kids[2] = gen.Call(gen.Id("id"), n.Kids[2])
			}
		}
	})
	return stmts
}

// ---- on grol's trees (raw texts: examples, fuzz inputs) ------------------------------------------

func astPrec(n ast.Node) (int, bool) {
	if ie, ok := n.(*ast.InfixExpression); ok && ie != nil {
		p := gen.Prec(ie.Literal())
		return p, p > 0
	}
	return 0, false
}

func astStartsWithSign(n ast.Node) bool {
	for n != nil {
		switch x := n.(type) {
		case *ast.PrefixExpression:
			return signOp(x.Literal())
		case *ast.IntegerLiteral:
			return strings.HasPrefix(x.Literal(), "-")
		case *ast.InfixExpression:
			if lp, ok := astPrec(x.Left); ok {
				if p, _ := astPrec(x); lp < p {
					return false
				}
			}
			n = x.Left
		case *ast.IndexExpression:
			switch x.Left.(type) {
			case *ast.InfixExpression, *ast.PrefixExpression:
				return false
			}
			n = x.Left
		case *ast.CallExpression:
			switch x.Function.(type) {
			case *ast.InfixExpression, *ast.PrefixExpression:
				return false
			}
			n = x.Function
		default:
			return false
		}
	}
	return false
}

// AstClasses returns the set of listed findings whose class the parsed program belongs to.
func AstClasses(prog ast.Node) map[string]bool {
	res := map[string]bool{}
	checkList := func(l []ast.Node) {
		for i, s := range l {
			if i > 0 && pbt.KnownOpen(SignStartStatement) && astStartsWithSign(s) {
				res[SignStartStatement] = true
			}
		}
	}
	visit := func(n ast.Node) ast.Node {
		switch x := n.(type) {
		case *ast.Statements:
			if x != nil {
				checkList(x.Statements)
			}
		case *ast.InfixExpression:
			if p, ok := astPrec(x); ok && pbt.KnownOpen(RightAssocParens) {
				if rp, ok2 := astPrec(x.Right); ok2 && rp == p {
					res[RightAssocParens] = true
				}
			}
		case *ast.IndexExpression:
			// ast.Modify does not descend into what follows a dot (a field name), the printer does: "A.(for 0 {0+(0+0)})"
			if x.Token != nil && x.Type() == token.DOT && x.Index != nil {
				for k := range AstClasses(x.Index) {
					res[k] = true
				}
			}
		}
		return n
	}
	defer func() { _ = recover() }() // a malformed tree is not this package's business
	ast.ModifyNoOk(prog, visit)
	return res
}

// Ast returns the id of one listed finding whose class the parsed program belongs to, or "".
func Ast(prog ast.Node) string {
	c := AstClasses(prog)
	switch {
	case c[SignStartStatement]:
		return SignStartStatement
	case c[RightAssocParens]:
		return RightAssocParens
	}
	return ""
}
