package known

import (
	"testing"

	"verif/front"
)

// What follows a dot is printed (and so belongs to the class) although ast.Modify does not descend into it.
func TestDotIndexIsVisited(t *testing.T) {
	for _, src := range []string{"0A.for 0{0+(0+(0))", "a.(b - (c - d))", "a.(for 1 {x; -1})"} {
		p := front.Parse(src, false)
		if !p.Accepted() {
			t.Fatalf("%q not accepted", src)
		}
		if Ast(p.Prog) == "" {
			t.Errorf("%q: no class", src)
		}
	}
}
