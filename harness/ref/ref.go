// Package ref is the harness's reference evaluator for grol's core language, written over the harness's
// own syntax tree (package gen) and value model (package val). It shares no code with /repo: the tree
// comes from the generator (not from grol's parser), integers are Go int64 with wrap-around, the order
// is val.Cmp, the printed form is val.Inspect. It implements the documented semantics:
//
//   - only function calls open a scope; a name is looked up in the call's own bindings, then in the
//     scope the function was defined in (in the caller's when the same function calls itself), and so on;
//     once found through an outer scope the name stays bound to that outer variable for the rest of the call
//   - '=' updates the variable it finds that way and creates a local one otherwise, ':=' always creates
//   - all-upper-case names are constants: they can be bound once per scope chain, or again to an equal value
//   - blocks, if and for have values (last statement evaluated / last completed iteration), return leaves
//     the function, break and continue act on the innermost loop
//   - errors stop the evaluation up to the nearest catch()
//
// Constructs whose result is not defined by the documentation (or that the generators never build) make
// the evaluator panic with Unspecified; callers skip such programs and count them.
package ref

import (
	"fmt"
	"math"
	"strconv"
	"strings"
	"unicode/utf8"

	"verif/gen"
	"verif/val"
)

// Unspecified is the panic value for programs outside the modelled language.
type Unspecified struct{ Why string }

func unspecified(format string, a ...any) { panic(Unspecified{fmt.Sprintf(format, a...)}) }

// ErrMark stands for the text of an interpreter-made error message (not part of any property).
const ErrMark = "\x00ERRMSG\x00"

type Closure struct {
	Node *gen.Node
	Name string
	Env  *Env
	Key  string // two functions with the same key are "the same function" for recursion scoping
}

type slot struct {
	v       val.V
	refEnv  *Env
	refName string
}

type Env struct {
	store map[string]*slot
	outer *Env
	fn    *Closure
	key   string
}

func newEnv() *Env { return &Env{store: map[string]*slot{}} }

func (s *slot) value() val.V {
	if s.refEnv != nil {
		t, ok := s.refEnv.store[s.refName]
		if !ok {
			unspecified("dangling reference to %s", s.refName)
		}
		return t.v
	}
	return s.v
}

func fnVal(c *Closure) val.V { return val.V{K: val.Fn, S: c.Key, P: c} }

// makeRef binds name in e to the nearest outer variable of that name.
func (e *Env) makeRef(name string) (*slot, bool) {
	orig := e
	for e.outer != nil {
		s, ok := e.outer.store[name]
		if !ok {
			e = e.outer
			continue
		}
		r := &slot{refEnv: e.outer, refName: name}
		if s.refEnv != nil {
			r = &slot{refEnv: s.refEnv, refName: s.refName}
		}
		orig.store[name] = r
		return r, true
	}
	return nil, false
}

func (e *Env) get(name string) (val.V, bool) {
	if name == "self" {
		if e.fn != nil {
			return fnVal(e.fn), true
		}
		return val.V{}, false
	}
	if e.fn != nil && e.fn.Name != "" && name == e.fn.Name {
		return fnVal(e.fn), true
	}
	if s, ok := e.store[name]; ok {
		return s.value(), true
	}
	if e.outer == nil {
		return val.V{}, false
	}
	if r, ok := e.makeRef(name); ok {
		return r.value(), true
	}
	return val.V{}, false
}

// maxNodes bounds the values the reference keeps: its values are trees (a container referred to twice is two
// copies), so a program that nests a container into itself in a loop doubles the tree every round. Past the bound
// the program is outside what the reference can decide (the case is skipped as unspecified).
const maxNodes = 1 << 18

func nodes(v val.V, budget *int) {
	*budget--
	if *budget < 0 {
		return
	}
	for i := range v.A {
		nodes(v.A[i], budget)
		if *budget < 0 {
			return
		}
	}
	for i := range v.M {
		nodes(v.M[i].K, budget)
		nodes(v.M[i].V, budget)
		if *budget < 0 {
			return
		}
	}
}

func (e *Env) set(name string, v val.V, create bool) {
	if len(v.A) > 0 || len(v.M) > 0 {
		budget := maxNodes
		if nodes(v, &budget); budget < 0 {
			unspecified("a value of more than %d nodes is bound to %s (the reference holds trees)", maxNodes, name)
		}
	}
	if create {
		e.store[name] = &slot{v: v}
		return
	}
	if s, ok := e.store[name]; ok {
		if s.refEnv != nil {
			s.refEnv.store[s.refName] = &slot{v: v}
		} else {
			e.store[name] = &slot{v: v}
		}
		return
	}
	if r, ok := e.makeRef(name); ok {
		r.refEnv.store[r.refName] = &slot{v: v}
		return
	}
	e.store[name] = &slot{v: v}
}

// IsConstant: all upper case letters, digits and underscores allowed after the first character.
func IsConstant(name string) bool {
	for i, c := range name {
		if i != 0 && (c == '_' || (c >= '0' && c <= '9')) {
			continue
		}
		if c < 'A' || c > 'Z' {
			return false
		}
	}
	return true
}

type Err struct {
	Msg string
}

type ctl int

const (
	none ctl = iota
	ctlReturn
	ctlBreak
	ctlContinue
)

// res is what evaluating a node gives: a value, possibly wrapped as return/break/continue, or an error.
type res struct {
	v   val.V
	c   ctl
	err *Err
}

func ok(v val.V) res        { return res{v: v} }
func fail(msg string) res   { return res{err: &Err{Msg: ErrMark}} }
func userErr(m string) res  { return res{err: &Err{Msg: m}} }
func (r res) isErr() bool   { return r.err != nil }
func (r res) stops() bool   { return r.err != nil || r.c != none }
func nilV() val.V           { return val.N() }
func boolV(b bool) val.V    { return val.B(b) }
func isTrue(v val.V) bool   { return v.K == val.Bool && v.B }
func isFalse(v val.V) bool  { return v.K == val.Bool && !v.B }
func tainted(s string) bool { return strings.Contains(s, ErrMark) }

// Interp evaluates programs statement list by statement list in one persistent top-level scope.
type Interp struct {
	Out   strings.Builder
	env   *Env
	steps int
	Limit int // evaluation step budget
	// Facts about the run that callers use to classify or exclude it.
	BigContainer    bool // a container above the small-representation thresholds (arrays > 8, maps > 4) existed
	IndexAssign     bool // an index assignment was executed
	BigIndexAssign  bool // ... on an array of more than 8 elements or a map of more than 4 pairs
	BigAppends      int  // x + y with x an array of more than 8 elements
	CallDepthMax    int
	depth           int
	Calls           int
	SameFuncScoping bool // a call took the caller's scope as parent (recursion of the same function)
	OuterWrite      bool // an assignment updated a variable of an outer scope
	OuterRead       bool
	CaughtErrors    int
	LoopExits       int               // break / continue / return out of a loop
	keys            map[string]string // function key -> paren-free text (see AmbiguousFunctions)
	Ambiguous       bool              // two different functions whose texts differ only in parentheses were defined
}

func New() *Interp {
	return &Interp{env: newEnv(), Limit: 2_000_000, keys: map[string]string{}}
}

type Outcome struct {
	Value  val.V
	Failed bool   // the program ended in an error
	ErrMsg string // the reference's idea of the message (ErrMark for interpreter-made ones)
}

// Run evaluates top-level statements.
func (in *Interp) Run(stmts []*gen.Node) Outcome {
	r := in.unwrap(in.block(stmts))
	if r.err != nil {
		return Outcome{Failed: true, ErrMsg: r.err.Msg}
	}
	return Outcome{Value: r.v}
}

func (in *Interp) tick() {
	in.steps++
	if in.steps > in.Limit {
		unspecified("step budget exhausted")
	}
}

// unwrap is what an evaluation boundary does: return yields its value, break/continue there are errors.
func (in *Interp) unwrap(r res) res {
	if r.err != nil {
		return r
	}
	switch r.c {
	case ctlReturn:
		return ok(r.v)
	case ctlBreak, ctlContinue:
		return fail("unexpected control outside of for loops")
	}
	return r
}

// eval evaluates with the boundary (used for operands).
func (in *Interp) eval(n *gen.Node) res { return in.unwrap(in.evalInternal(n)) }

func (in *Interp) block(stmts []*gen.Node) res {
	r := ok(nilV())
	for _, s := range stmts {
		if s.K == gen.KComment {
			continue
		}
		r = in.evalInternal(s)
		if r.stops() {
			return r
		}
	}
	return r
}

func parseInt(text string) (int64, bool) {
	v, err := strconv.ParseInt(strings.ReplaceAll(text, "_", ""), 0, 64)
	return v, err == nil
}

func (in *Interp) note(v val.V) val.V {
	switch v.K {
	case val.Arr:
		if len(v.A) > 8 {
			in.BigContainer = true
		}
	case val.Map:
		if len(v.M) > 4 {
			in.BigContainer = true
		}
	}
	return v
}

func (in *Interp) evalInternal(n *gen.Node) res {
	in.tick()
	switch n.K {
	case gen.KInt:
		if i, isInt := parseInt(n.S); isInt {
			return ok(val.I(i))
		}
		f, err := strconv.ParseFloat(strings.ReplaceAll(n.S, "_", ""), 64)
		if err != nil && !math.IsInf(f, 0) {
			unspecified("integer literal %q", n.S)
		}
		return ok(val.F(f))
	case gen.KFloat:
		f, err := strconv.ParseFloat(strings.ReplaceAll(n.S, "_", ""), 64)
		if err != nil && !math.IsInf(f, 0) {
			unspecified("float literal %q", n.S)
		}
		return ok(val.F(f))
	case gen.KStr:
		return ok(val.S(n.S))
	case gen.KBool:
		return ok(val.B(n.S == "true"))
	case gen.KIdent:
		return in.ident(n.S)
	case gen.KPrefix:
		if n.S == "++" || n.S == "--" {
			return in.incrDecr(n.Kids[0], n.S, true)
		}
		r := in.eval(n.Kids[0])
		if r.isErr() {
			return r
		}
		return in.prefix(n.S, r.v)
	case gen.KPostfix:
		return in.incrDecr(n.Kids[0], n.S, false)
	case gen.KInfix:
		return in.infix(n)
	case gen.KIndex, gen.KDot, gen.KSlice:
		return in.index(n)
	case gen.KCall:
		return in.call(n)
	case gen.KBuiltin:
		return in.builtin(n)
	case gen.KArray:
		els := make([]val.V, 0, len(n.Kids))
		for _, k := range n.Kids {
			r := in.evalInternal(k)
			if r.isErr() {
				return r
			}
			if r.c != none {
				unspecified("control value as array element")
			}
			els = append(els, r.v)
		}
		return ok(in.note(val.V{K: val.Arr, A: els}))
	case gen.KMap:
		m := val.V{K: val.Map, M: []val.KV{}}
		for i := 0; i+1 < len(n.Kids); i += 2 {
			k := in.eval(n.Kids[i])
			if k.isErr() {
				return k
			}
			if k.v.K == val.Float && math.IsNaN(k.v.F) {
				return fail("key is not hashable")
			}
			v := in.eval(n.Kids[i+1])
			if v.isErr() {
				return v
			}
			m = m.Set(k.v, v.v)
		}
		return ok(in.note(m))
	case gen.KFunc, gen.KLambda:
		return in.funcLiteral(n)
	case gen.KIf:
		return in.ifExpr(n)
	case gen.KFor:
		return in.forExpr(n)
	case gen.KCtl:
		if n.S == "break" {
			return res{v: nilV(), c: ctlBreak}
		}
		return res{v: nilV(), c: ctlContinue}
	case gen.KReturn:
		if len(n.Kids) == 0 {
			return res{v: nilV(), c: ctlReturn}
		}
		r := in.evalInternal(n.Kids[0])
		if r.isErr() {
			unspecified("return of an error value") // an error wrapped in a return is not an error to the enclosing block
		}
		if r.c != none {
			unspecified("return of a control value")
		}
		return res{v: r.v, c: ctlReturn}
	case gen.KComment:
		return ok(nilV())
	}
	unspecified("node kind %d", n.K)
	return res{}
}

func (in *Interp) ident(name string) res {
	if name == "nil" {
		return ok(nilV())
	}
	if _, local := in.env.store[name]; !local && in.env.outer != nil {
		in.OuterRead = true
	}
	v, found := in.env.get(name)
	if !found {
		return fail("identifier not found")
	}
	return ok(v)
}

// assignName is CreateOrSet: constant check, then create or update.
func (in *Interp) assignName(name string, v val.V, create bool) res {
	if IsConstant(name) {
		if old, found := in.env.get(name); found && !sameConstant(old, v) {
			return fail("attempt to change constant")
		}
	}
	if !create {
		if s, local := in.env.store[name]; (local && s.refEnv != nil) || (!local && in.env.outer != nil) {
			in.OuterWrite = true
		}
	}
	in.env.set(name, v, create)
	return ok(v)
}

// sameConstant: binding a constant again is allowed when that leaves it what it was: an equal value that also
// prints the same (0.0 and -0.0 are equal), and for functions the same text from the same scope.
func sameConstant(old, v val.V) bool {
	if !val.Equal(old, v) {
		return false
	}
	if old.K == val.Fn {
		a, b := old.P.(*Closure), v.P.(*Closure)
		return a.Env == b.Env
	}
	return old.Inspect() == v.Inspect()
}

func (in *Interp) incrDecr(target *gen.Node, op string, prefix bool) res {
	if target.K != gen.KIdent {
		if prefix {
			return fail("can't prefix increment/decrement")
		}
		unspecified("postfix on non identifier")
	}
	old, found := in.env.get(target.S)
	if !found {
		return fail("identifier not found")
	}
	d := int64(1)
	if op == "--" {
		d = -1
	}
	var nv val.V
	switch old.K {
	case val.Int:
		nv = val.I(old.I + d)
	case val.Float:
		nv = val.F(old.F + float64(d))
	default:
		return fail("can't increment/decrement")
	}
	r := in.assignName(target.S, nv, false)
	if r.isErr() {
		return r
	}
	if prefix {
		return ok(nv)
	}
	return ok(old)
}

func (in *Interp) prefix(op string, v val.V) res {
	switch op {
	case "!":
		switch {
		case isTrue(v):
			return ok(boolV(false))
		case isFalse(v), v.K == val.Nil:
			return ok(boolV(true))
		}
		return fail("not of")
	case "-":
		switch v.K {
		case val.Int:
			return ok(val.I(-v.I))
		case val.Float:
			return ok(val.F(-v.F))
		}
		return fail("minus of")
	case "~", "^":
		if v.K == val.Int {
			return ok(val.I(^v.I))
		}
		return fail("bitwise not of")
	case "+":
		return ok(v)
	}
	unspecified("prefix operator %q", op)
	return res{}
}

func (in *Interp) infix(n *gen.Node) res {
	op := n.S
	if op == "=" || op == ":=" {
		r := in.eval(n.Kids[1])
		if r.isErr() {
			return r
		}
		return in.assign(n.Kids[0], r.v, op == ":=")
	}
	if op == "=>" {
		unspecified("lambda as infix node")
	}
	l := in.eval(n.Kids[0])
	if l.isErr() {
		return l
	}
	if op == "&&" && isFalse(l.v) {
		return ok(boolV(false))
	}
	if op == "||" && isTrue(l.v) {
		return ok(boolV(true))
	}
	if op == "|" && l.v.K == val.Str && (n.Kids[1].K == gen.KCall || n.Kids[1].K == gen.KBuiltin) {
		unspecified("pipe operator")
	}
	r := in.eval(n.Kids[1])
	if r.isErr() {
		return r
	}
	return in.binary(op, l.v, r.v)
}

func (in *Interp) binary(op string, l, r val.V) res {
	if (l.K == val.Fn && r.K == val.Fn) && op != "==" && op != "!=" && op != "&&" && op != "||" {
		unspecified("order of two functions")
	}
	if (l.K == val.Str && tainted(l.S)) || (r.K == val.Str && tainted(r.S)) {
		unspecified("operation on an error message")
	}
	switch op {
	case "==":
		return ok(boolV(val.Equal(l, r)))
	case "!=":
		return ok(boolV(!val.Equal(l, r)))
	case ">":
		return ok(boolV(val.Cmp(l, r) == 1))
	case "<":
		return ok(boolV(val.Cmp(l, r) == -1))
	case ">=":
		return ok(boolV(val.Cmp(l, r) >= 0))
	case "<=":
		return ok(boolV(val.Cmp(l, r) <= 0))
	case "&&":
		return ok(boolV(isTrue(l) && isTrue(r)))
	case "||":
		return ok(boolV(isTrue(l) || isTrue(r)))
	}
	switch {
	case l.K == val.Int && r.K == val.Int:
		return in.intOp(op, l.I, r.I)
	case l.K == val.Float || r.K == val.Float:
		return in.floatOp(op, l, r)
	case l.K == val.Str:
		if tainted(l.S) || (r.K == val.Str && tainted(r.S)) {
			unspecified("operation on an error message")
		}
		switch {
		case op == "+" && r.K == val.Str:
			if len(l.S)+len(r.S) > 1<<20 {
				unspecified("huge string")
			}
			return ok(val.S(l.S + r.S))
		case op == "*" && r.K == val.Int:
			if r.I < 0 {
				return fail("right operand of * on strings must be positive")
			}
			if len(l.S) == 0 || r.I == 0 {
				return ok(val.S(""))
			}
			if r.I > 1<<20 || int64(len(l.S))*r.I > 1<<20 {
				unspecified("huge string")
			}
			return ok(val.S(strings.Repeat(l.S, int(r.I))))
		}
		return fail("unknown operator on string")
	case l.K == val.Arr:
		switch op {
		case "*":
			if r.K != val.Int {
				return fail("right operand of * on arrays must be an integer")
			}
			if r.I < 0 {
				return fail("right operand of * on arrays must be positive")
			}
			if len(l.A) == 0 || r.I == 0 {
				return ok(val.V{K: val.Arr, A: []val.V{}})
			}
			if r.I > 1<<16 || int64(len(l.A))*r.I > 1<<16 {
				unspecified("huge array")
			}
			out := val.V{K: val.Arr, A: []val.V{}}
			for i := int64(0); i < r.I; i++ {
				out.A = append(out.A, l.A...)
			}
			return ok(in.note(out))
		case "+":
			if len(l.A) > 8 {
				in.BigAppends++
			}
			if len(l.A)+len(r.A) > 1<<16 {
				unspecified("huge array")
			}
			out := val.V{K: val.Arr, A: append([]val.V{}, l.A...)}
			if r.K == val.Arr {
				out.A = append(out.A, r.A...)
			} else {
				out.A = append(out.A, r)
			}
			return ok(in.note(out))
		}
		return fail("unknown operator on array")
	case l.K == val.Map && r.K == val.Map:
		if op == "+" {
			return ok(in.note(l.Merge(r)))
		}
		return fail("unknown operator on maps")
	}
	return fail("no such operator on these operands")
}

func (in *Interp) intOp(op string, a, b int64) res {
	switch op {
	case "+":
		return ok(val.I(a + b))
	case "-":
		return ok(val.I(a - b))
	case "*":
		return ok(val.I(a * b))
	case "/":
		if b == 0 {
			return fail("division by zero")
		}
		if a == math.MinInt64 && b == -1 {
			return ok(val.I(math.MinInt64)) // two's complement wrap-around
		}
		return ok(val.I(a / b))
	case "%":
		if b == 0 {
			return fail("division by zero")
		}
		if b == -1 {
			return ok(val.I(0))
		}
		return ok(val.I(a % b))
	case "<<":
		if b < 0 {
			return fail("negative shift count")
		}
		if b >= 64 {
			return ok(val.I(0))
		}
		return ok(val.I(a << uint(b)))
	case ">>": // logical shift: the sign bit moves too
		if b < 0 {
			return fail("negative shift count")
		}
		if b >= 64 {
			return ok(val.I(0))
		}
		return ok(val.I(int64(uint64(a) >> uint(b))))
	case "&":
		return ok(val.I(a & b))
	case "|":
		return ok(val.I(a | b))
	case "^":
		return ok(val.I(a ^ b))
	case ":":
		if b < a {
			return fail("range index invalid: left greater than right")
		}
		if uint64(b-a) > 1<<16 {
			unspecified("huge range")
		}
		out := val.V{K: val.Arr, A: []val.V{}}
		for i := a; i < b; i++ {
			out.A = append(out.A, val.I(i))
		}
		return ok(in.note(out))
	}
	return fail("unknown integer operator")
}

func num(v val.V) (float64, bool) {
	switch v.K {
	case val.Int:
		return float64(v.I), true
	case val.Float:
		return v.F, true
	}
	return 0, false
}

func (in *Interp) floatOp(op string, l, r val.V) res {
	a, okA := num(l)
	b, okB := num(r)
	if !okA || !okB {
		return fail("not converting to float")
	}
	switch op {
	case "+":
		return ok(val.F(a + b))
	case "-":
		return ok(val.F(a - b))
	case "*":
		return ok(val.F(a * b))
	case "/":
		return ok(val.F(a / b))
	case "%":
		return ok(val.F(math.Mod(a, b)))
	}
	return fail("unknown float operator")
}

func (in *Interp) assign(target *gen.Node, v val.V, define bool) res {
	switch target.K {
	case gen.KIdent:
		return in.assignName(target.S, v, define)
	case gen.KDot:
		return in.indexAssign(target.Kids[0], val.S(target.S), v)
	case gen.KIndex:
		// the index is evaluated after the right hand side
		i := in.eval(target.Kids[1])
		return in.indexAssign(target.Kids[0], i.v, v, i)
	case gen.KSlice:
		unspecified("assignment to a slice")
	}
	return fail("assignment to non identifier")
}

func (in *Interp) indexAssign(which *gen.Node, idx val.V, v val.V, idxRes ...res) res {
	if which.K != gen.KIdent {
		return fail("index assignment to non identifier")
	}
	name := which.S
	cur, found := in.env.get(name)
	if !found {
		return fail("identifier not found")
	}
	if IsConstant(name) {
		return fail("attempt to change constant")
	}
	if len(idxRes) > 0 && idxRes[0].isErr() {
		unspecified("error value as index of an assignment")
	}
	in.IndexAssign = true
	if (cur.K == val.Arr && len(cur.A) > 8) || (cur.K == val.Map && len(cur.M) > 4) {
		in.BigIndexAssign = true
	}
	switch cur.K {
	case val.Arr:
		if idx.K != val.Int {
			return fail("index assignment to array with non integer index")
		}
		i := idx.I
		if i < 0 {
			i += int64(len(cur.A))
		}
		if i < 0 || i >= int64(len(cur.A)) {
			return fail("index assignment out of bounds")
		}
		out := val.V{K: val.Arr, A: append([]val.V{}, cur.A...)}
		out.A[i] = v
		in.env.set(name, out, false)
		return ok(v)
	case val.Map:
		if idx.K == val.Float && math.IsNaN(idx.F) {
			unspecified("NaN as map key")
		}
		in.env.set(name, in.note(cur.Set(idx, v)), false)
		return ok(v)
	}
	return fail("index assignment to unexpected type")
}

func (in *Interp) index(n *gen.Node) res {
	l := in.eval(n.Kids[0])
	if l.isErr() {
		return l
	}
	switch n.K {
	case gen.KDot:
		return in.indexWith(l.v, val.S(n.S))
	case gen.KSlice:
		return in.slice(l.v, n.Kids[1], n.Kids[2])
	}
	if c := n.Kids[1]; c.K == gen.KInfix && c.S == ":" { // a[(l:r)] is a[l:r]
		return in.slice(l.v, c.Kids[0], c.Kids[1])
	}
	i := in.eval(n.Kids[1])
	if i.isErr() {
		return i
	}
	return in.indexWith(l.v, i.v)
}

func (in *Interp) indexWith(l, idx val.V) res {
	var i int64
	isInt := false
	switch idx.K {
	case val.Nil:
		isInt = true
	case val.Int:
		i, isInt = idx.I, true
	}
	switch {
	case l.K == val.Str && isInt:
		if tainted(l.S) {
			unspecified("indexing an error message")
		}
		if i < 0 {
			i += int64(len(l.S))
		}
		if i < 0 || i >= int64(len(l.S)) {
			return ok(nilV())
		}
		return ok(val.I(int64(l.S[i])))
	case l.K == val.Arr && isInt:
		if i < 0 {
			i += int64(len(l.A))
		}
		if i < 0 || i >= int64(len(l.A)) {
			return ok(nilV())
		}
		return ok(l.A[i])
	case l.K == val.Map:
		v, found := l.Get(idx)
		if !found {
			return ok(nilV())
		}
		return ok(v)
	case l.K == val.Nil:
		return ok(nilV())
	}
	return fail("index operator not supported")
}

func (in *Interp) slice(l val.V, lo, hi *gen.Node) res {
	lr := in.eval(lo)
	var rr res
	if hi != nil {
		rr = in.eval(hi)
	}
	if lr.isErr() || lr.v.K != val.Int || (hi != nil && (rr.isErr() || rr.v.K != val.Int)) {
		return fail("range index not integer")
	}
	var num int64
	switch l.K {
	case val.Str:
		num = int64(len(l.S))
	case val.Arr:
		num = int64(len(l.A))
	case val.Map:
		num = int64(len(l.M))
	case val.Nil:
		num = 0
	default:
		return fail("range index operator not supported")
	}
	a := lr.v.I
	if a < 0 {
		a += num
	}
	b := num
	if hi != nil {
		b = rr.v.I
		if b < 0 {
			b += num
		}
	}
	if a < 0 {
		a = 0
	}
	if a > b {
		return fail("range index invalid: left greater than right")
	}
	if a > num {
		a = num
	}
	if b > num {
		b = num
	}
	switch l.K {
	case val.Str:
		if tainted(l.S) {
			unspecified("slicing an error message")
		}
		return ok(val.S(l.S[a:b]))
	case val.Arr:
		return ok(val.V{K: val.Arr, A: append([]val.V{}, l.A[a:b]...)})
	case val.Map:
		return ok(l.MapRange(int(a), int(b)))
	}
	return ok(nilV())
}

// Show is the text print/println write for a value.
func Show(v val.V) string {
	if v.K == val.Str {
		return v.S
	}
	return v.Inspect()
}

func (in *Interp) builtin(n *gen.Node) res {
	switch n.S {
	case "println", "print", "error":
		if n.S != "println" && len(n.Kids) == 0 {
			return fail("wrong number of arguments")
		}
		var sb strings.Builder
		for i, k := range n.Kids {
			if i > 0 {
				sb.WriteByte(' ')
			}
			r := in.evalInternal(k)
			if r.isErr() {
				return r
			}
			if r.c != none {
				unspecified("control value as print argument")
			}
			if r.v.K == val.Fn || containsFn(r.v) {
				unspecified("printing a function")
			}
			sb.WriteString(Show(r.v))
		}
		if n.S == "error" {
			return userErr(sb.String())
		}
		if n.S == "println" {
			sb.WriteByte('\n')
		}
		if in.Out.Len()+sb.Len() > 8<<20 {
			unspecified("huge output")
		}
		in.Out.WriteString(sb.String())
		return ok(nilV())
	case "len", "catch":
		if len(n.Kids) != 1 {
			return fail("wrong number of arguments")
		}
		r := in.evalInternal(n.Kids[0])
		if r.c != none {
			unspecified("control value as builtin argument")
		}
		if n.S == "catch" {
			in.CaughtErrors++
			if r.isErr() {
				return ok(val.M(val.KV{K: val.S("err"), V: val.B(true)}, val.KV{K: val.S("value"), V: val.S(r.err.Msg)}))
			}
			return ok(val.M(val.KV{K: val.S("err"), V: val.B(false)}, val.KV{K: val.S("value"), V: r.v}))
		}
		if r.isErr() {
			return r
		}
		switch r.v.K {
		case val.Arr, val.Map, val.Nil:
			return ok(val.I(int64(r.v.Len())))
		case val.Str:
			if tainted(r.v.S) {
				unspecified("length of an error message")
			}
			return ok(val.I(int64(len(r.v.S))))
		}
		return fail("len: not supported")
	}
	unspecified("builtin %s", n.S)
	return res{}
}

func containsFn(v val.V) bool {
	switch v.K {
	case val.Fn:
		return true
	case val.Arr:
		for _, e := range v.A {
			if containsFn(e) {
				return true
			}
		}
	case val.Map:
		for _, p := range v.M {
			if containsFn(p.K) || containsFn(p.V) {
				return true
			}
		}
	}
	return false
}

func (in *Interp) funcLiteral(n *gen.Node) res {
	named := n.K == gen.KFunc && n.S != ""
	// the key: parameters and body; whether it is a named function is part of it, the name is not
	body := gen.Print(n.Body, gen.PrintOptions{})
	key := fmt.Sprintf("named=%v(%s){%s}", named, strings.Join(n.Params, ","), body)
	flat := strings.NewReplacer("(", "", ")", "", " ", "").Replace(key)
	if prev, seen := in.keys[flat]; seen && prev != key {
		in.Ambiguous = true
	}
	in.keys[flat] = key
	c := &Closure{Node: n, Env: in.env, Key: key}
	if named {
		c.Name = n.S
	}
	v := fnVal(c)
	if named {
		if r := in.assignName(n.S, v, false); r.isErr() {
			return r
		}
	}
	return ok(v)
}

func (in *Interp) call(n *gen.Node) res {
	f := in.eval(n.Kids[0])
	if f.isErr() {
		return f
	}
	args := make([]val.V, 0, len(n.Kids)-1)
	for _, k := range n.Kids[1:] {
		r := in.evalInternal(k)
		if r.isErr() {
			return r
		}
		if r.c != none {
			unspecified("control value as argument")
		}
		args = append(args, r.v)
	}
	if f.v.K != val.Fn {
		return fail("not a function")
	}
	return in.apply(f.v.P.(*Closure), args)
}

func (in *Interp) apply(c *Closure, args []val.V) res {
	in.Calls++
	parent := c.Env
	if in.env.key == c.Key && in.env.key != "" {
		parent = in.env
		in.SameFuncScoping = true
	}
	env := &Env{store: map[string]*slot{}, outer: parent, fn: c, key: c.Key}
	params := c.Node.Params
	var extra []val.V
	if c.Node.Variadic {
		if len(params) == 0 || params[len(params)-1] != ".." {
			unspecified("variadic function without .. parameter")
		}
		params = params[:len(params)-1]
		if len(args) > 0 && args[len(args)-1].K == val.Arr {
			last := args[len(args)-1]
			args = append(append([]val.V{}, args[:len(args)-1]...), last.A...)
		}
		if len(args) >= len(params) {
			extra = args[len(params):]
			args = args[:len(params)]
		}
	}
	if len(args) != len(params) {
		return fail("wrong number of arguments")
	}
	saved := in.env
	in.env = env
	defer func() { in.env = saved }()
	for i, p := range params {
		if r := in.assignName(p, args[i], true); r.isErr() {
			return r
		}
	}
	if c.Node.Variadic {
		env.set("..", in.note(val.V{K: val.Arr, A: append([]val.V{}, extra...)}), true)
	}
	in.depth++
	if in.depth > in.CallDepthMax {
		in.CallDepthMax = in.depth
	}
	if in.depth > 1500 {
		unspecified("call depth")
	}
	r := in.unwrap(in.block(c.Node.Body))
	in.depth--
	return r
}

func (in *Interp) ifExpr(n *gen.Node) res {
	c := in.evalInternal(n.Kids[0])
	if c.isErr() {
		return fail("condition is not a boolean") // an error value is not a boolean either: a new error
	}
	if c.c != none {
		unspecified("control value as condition")
	}
	switch {
	case isTrue(c.v):
		return in.block(n.Body)
	case isFalse(c.v):
		switch {
		case n.ElseIf != nil:
			return in.evalInternal(n.ElseIf)
		case n.HasElse:
			return in.block(n.Else)
		}
		return ok(nilV())
	}
	return fail("condition is not a boolean")
}

// loopBody runs one iteration; done tells the loop to stop with result out.
func (in *Interp) loopBody(body []*gen.Node, last *val.V) (out res, done bool) {
	r := in.block(body)
	switch {
	case r.isErr():
		return r, true
	case r.c == ctlBreak:
		in.LoopExits++
		return ok(*last), true
	case r.c == ctlContinue:
		in.LoopExits++
		return res{}, false
	case r.c == ctlReturn:
		in.LoopExits++
		return r, true
	}
	*last = r.v
	return res{}, false
}

func (in *Interp) forCount(n *gen.Node, from, to int64, name string) res {
	last := nilV()
	if to-from < 0 {
		return fail("for loop with negative count")
	}
	for i := from; i < to; i++ {
		in.tick()
		if name != "" {
			in.assignName(name, val.I(i), false) // a failure to bind (constant name) is ignored
		}
		if out, done := in.loopBody(n.Body, &last); done {
			return out
		}
	}
	return ok(last)
}

func (in *Interp) forList(n *gen.Node, list val.V, name string) res {
	last := nilV()
	var items []val.V
	switch list.K {
	case val.Arr:
		items = list.A
	case val.Str:
		if tainted(list.S) {
			unspecified("iterating an error message")
		}
		if !utf8.ValidString(list.S) {
			unspecified("iterating a string that is not UTF-8")
		}
		for _, r := range list.S {
			items = append(items, val.S(string(r)))
		}
	case val.Map:
		for _, p := range list.M {
			items = append(items, val.M(val.KV{K: val.S("key"), V: p.K}, val.KV{K: val.S("value"), V: p.V}))
		}
	}
	for _, it := range items {
		in.tick()
		in.assignName(name, it, false)
		if out, done := in.loopBody(n.Body, &last); done {
			return out
		}
	}
	return ok(last)
}

func (in *Interp) forExpr(n *gen.Node) res {
	cond := n.Kids[0]
	if cond.K == gen.KInfix && (cond.S == "=" || cond.S == ":=") {
		if cond.Kids[0].K != gen.KIdent {
			return fail("for var = ... not a var")
		}
		name := cond.Kids[0].S
		right := cond.Kids[1]
		if right.K == gen.KInfix && right.S == ":" {
			a := in.evalInternal(right.Kids[0])
			if a.isErr() || a.c != none || a.v.K != val.Int {
				return fail("for var = n:m n not an integer")
			}
			b := in.evalInternal(right.Kids[1])
			if b.isErr() || b.c != none || b.v.K != val.Int {
				return fail("for var = n:m m not an integer")
			}
			return in.forCount(n, a.v.I, b.v.I, name)
		}
		v := in.evalInternal(right)
		if v.isErr() {
			return v
		}
		if v.c != none {
			unspecified("control value as loop source")
		}
		switch v.v.K {
		case val.Int:
			return in.forCount(n, 0, v.v.I, name)
		case val.Arr, val.Map, val.Str:
			return in.forList(n, v.v, name)
		}
		unspecified("for var = <value that is neither a count nor iterable>")
	}
	last := nilV()
	for {
		in.tick()
		c := in.evalInternal(cond)
		if c.isErr() {
			return c
		}
		if c.c != none {
			unspecified("control value as loop condition")
		}
		switch {
		case isTrue(c.v):
			if out, done := in.loopBody(n.Body, &last); done {
				return out
			}
		case isFalse(c.v), c.v.K == val.Nil:
			return ok(last)
		case c.v.K == val.Int:
			if last.K != val.Nil {
				unspecified("loop condition turning into a count")
			}
			return in.forCount(n, 0, c.v.I, "")
		default:
			return fail("for condition is not a boolean nor integer nor assignment")
		}
	}
}
