// Package pbt is the small runtime shared by all property packages: it reads the tier / seed /
// shard the driver (cmd/vcheck) chose, configures rapid from them, counts what the generators
// produced (evaluations, labels, distinct non-trivial cases, samples, exclusions) and writes that
// to the statistics file the driver merges into /verif/evidence/<id>.json. It also writes the
// replay file of a failing case and runs the committed regression cases (fixed defects and known
// findings) before any generated search.
package pbt

import (
	"encoding/binary"
	"encoding/json"
	"flag"
	"fmt"
	"hash/fnv"
	"os"
	"path/filepath"
	"runtime/debug"
	"sort"
	"strconv"
	"strings"
	"sync"
	"syscall"
	"testing"

	"pgregory.net/rapid"
)

// ---- configuration coming from the driver -------------------------------------------------

func Tier() string {
	if os.Getenv("VERIF_TIER") == "thorough" {
		return "thorough"
	}
	return "quick"
}

func Thorough() bool { return Tier() == "thorough" }

// BaseSeed is the VERIF_SEED value (default 1).
func BaseSeed() int64 {
	v, err := strconv.ParseInt(os.Getenv("VERIF_SEED"), 10, 64)
	if err != nil {
		return 1
	}
	return v
}

// Shard returns (index, count); (0,1) when not sharded.
func Shard() (int, int) {
	parts := strings.Split(os.Getenv("VERIF_SHARD"), "/")
	if len(parts) != 2 {
		return 0, 1
	}
	i, e1 := strconv.Atoi(parts[0])
	n, e2 := strconv.Atoi(parts[1])
	if e1 != nil || e2 != nil || n <= 0 || i < 0 || i >= n {
		return 0, 1
	}
	return i, n
}

// RapidSeed derives the PRNG seed of this shard; never 0 (which rapid treats as "random").
func RapidSeed() uint64 {
	i, _ := Shard()
	s := (uint64(BaseSeed())*1000003 + uint64(i)*7919) % 2147483646 //nolint:gosec // wrap is fine
	return s + 1
}

// N picks the case count for the tier.
func N(quick, thorough int) int {
	if Thorough() {
		return thorough
	}
	return quick
}

// Root is /verif (overridable for tests of the harness itself).
func Root() string {
	if r := os.Getenv("VERIF_ROOT"); r != "" {
		return r
	}
	return "/verif"
}

// ---- recorder ----------------------------------------------------------------------------

type Meta struct {
	Property    string   `json:"property"`
	Level       string   `json:"level"`
	Rule        string   `json:"rule"`
	Assumptions []string `json:"assumptions"`
	// Exhaustive is true when this run enumerated the finite space named in ExhaustiveBound completely.
	Exhaustive      bool   `json:"exhaustive"`
	ExhaustiveBound string `json:"exhaustive_bound,omitempty"`
}

type statsFile struct {
	Meta          Meta             `json:"meta"`
	Evaluations   int64            `json:"evaluations"`
	ExactDistinct int64            `json:"exact_distinct"` // distinct non-trivial cases counted by construction (enumerations)
	Labels        map[string]int64 `json:"labels"`
	Excluded      map[string]int64 `json:"excluded"`
	Samples       []any            `json:"samples"`
	Extra         map[string]any   `json:"extra"`
	HashFile      string           `json:"hash_file"`
	Known         []string         `json:"known_findings_reproduced"`
}

type recorder struct {
	mu       sync.Mutex
	st       statsFile
	hashes   map[uint64]struct{}
	nsamples int
}

var rec = &recorder{
	st:     statsFile{Labels: map[string]int64{}, Excluded: map[string]int64{}, Extra: map[string]any{}},
	hashes: map[uint64]struct{}{},
}

const maxSamples = 8

// SetMeta records the property's description; call it once per test binary (TestMain or first test).
func SetMeta(m Meta) {
	rec.mu.Lock()
	defer rec.mu.Unlock()
	rec.st.Meta = m
}

func hash64(s string) uint64 {
	h := fnv.New64a()
	_, _ = h.Write([]byte(s))
	return h.Sum64()
}

// Case counts one executed case. key identifies the case (its canonical text); it is hashed and
// only counted towards distinct_nontrivial when nontrivial is true.
func Case(nontrivial bool, key string, labels ...string) {
	rec.mu.Lock()
	defer rec.mu.Unlock()
	rec.st.Evaluations++
	if nontrivial {
		rec.hashes[hash64(key)] = struct{}{}
	}
	for _, l := range labels {
		rec.st.Labels[l]++
	}
}

// CaseExact counts one case of an enumeration whose cases are distinct by construction.
func CaseExact(nontrivial bool, labels ...string) {
	rec.mu.Lock()
	defer rec.mu.Unlock()
	rec.st.Evaluations++
	if nontrivial {
		rec.st.ExactDistinct++
	}
	for _, l := range labels {
		rec.st.Labels[l]++
	}
}

// AddExact adds n evaluated cases of which d are distinct non-trivial (bulk form of CaseExact).
func AddExact(n, d int64, label string) {
	rec.mu.Lock()
	defer rec.mu.Unlock()
	rec.st.Evaluations += n
	rec.st.ExactDistinct += d
	if label != "" {
		rec.st.Labels[label] += n
	}
}

func Label(labels ...string) {
	rec.mu.Lock()
	defer rec.mu.Unlock()
	for _, l := range labels {
		rec.st.Labels[l]++
	}
}

func LabelN(label string, n int64) {
	rec.mu.Lock()
	defer rec.mu.Unlock()
	rec.st.Labels[label] += n
}

// Excluded counts a generated case (or draw) that was steered away from a listed known finding.
func Excluded(finding string) {
	rec.mu.Lock()
	defer rec.mu.Unlock()
	rec.st.Excluded[finding]++
}

// Sample keeps a few cases written out in full: the first ones of each kind, up to maxSamples.
func Sample(kind string, v any) {
	rec.mu.Lock()
	defer rec.mu.Unlock()
	k := "samples:" + kind
	n, _ := rec.st.Extra[k].(int)
	if n >= 2 || rec.nsamples >= maxSamples {
		return
	}
	rec.st.Extra[k] = n + 1
	rec.nsamples++
	rec.st.Samples = append(rec.st.Samples, map[string]any{"kind": kind, "case": v})
}

// SampleEvery keeps the i-th case when i hits a sparse schedule, so samples are not only the first.
func SampleEvery(kind string, i int, v func() any) {
	if i == 0 || i == 17 || i == 301 || i == 2503 {
		Sample(kind, v())
	}
}

func Extra(key string, v any) {
	rec.mu.Lock()
	defer rec.mu.Unlock()
	rec.st.Extra[key] = v
}

func ExtraMax(key string, v float64) {
	rec.mu.Lock()
	defer rec.mu.Unlock()
	if old, ok := rec.st.Extra[key].(float64); !ok || v > old {
		rec.st.Extra[key] = v
	}
}

// Flush writes the statistics where the driver expects them. Without VERIF_STATS it is a no-op.
func Flush() {
	path := os.Getenv("VERIF_STATS")
	if path == "" {
		return
	}
	rec.mu.Lock()
	defer rec.mu.Unlock()
	for k := range rec.st.Extra {
		if strings.HasPrefix(k, "samples:") {
			delete(rec.st.Extra, k)
		}
	}
	hs := make([]uint64, 0, len(rec.hashes))
	for h := range rec.hashes {
		hs = append(hs, h)
	}
	sort.Slice(hs, func(i, j int) bool { return hs[i] < hs[j] })
	buf := make([]byte, 8*len(hs))
	for i, h := range hs {
		binary.LittleEndian.PutUint64(buf[8*i:], h)
	}
	rec.st.HashFile = path + ".hashes"
	_ = os.WriteFile(rec.st.HashFile, buf, 0o644)
	b, err := json.MarshalIndent(rec.st, "", " ")
	if err != nil {
		fmt.Fprintln(os.Stderr, "pbt: cannot encode stats:", err)
		return
	}
	_ = os.WriteFile(path, b, 0o644)
}

// Main is used as TestMain body: runs the tests, flushes the statistics.
func Main(m *testing.M, meta Meta) {
	SetMeta(meta)
	SafetyNets()
	code := m.Run()
	Flush()
	os.Exit(code)
}

// SafetyNets is for the test binaries that have a TestMain of their own.
func SafetyNets() {
	// Safety net: a generated program (or the harness itself) that grows without bound must kill this one
	// process, not the machine. Only the soft limit is set, child processes choose their own.
	// ... and a memory limit for the Go runtime, which is what grol's own allocation guard measures against: generated
	// programs that double a string in a loop are refused by it instead of filling the address space.
	if os.Getenv("GOMEMLIMIT") == "" {
		debug.SetMemoryLimit(256 << 20)
	}
	var rl syscall.Rlimit
	if syscall.Getrlimit(syscall.RLIMIT_AS, &rl) == nil && (rl.Cur == ^uint64(0) || rl.Cur > 10<<30) {
		rl.Cur = 10 << 30
		_ = syscall.Setrlimit(syscall.RLIMIT_AS, &rl)
	}
}

// ---- failures and replay -------------------------------------------------------------------

// TB is the part of testing.TB / *rapid.T that Fail needs.
type TB interface {
	Helper()
	Fatalf(format string, args ...any)
}

// ReplayFile is the JSON written for a failing case.
type ReplayFile struct {
	Property string          `json:"property"`
	Kind     string          `json:"kind"`
	Status   string          `json:"status,omitempty"`  // regress files: "known" | "fixed"
	Finding  string          `json:"finding,omitempty"` // regress files: id in KNOWN_FINDINGS.json
	What     string          `json:"what,omitempty"`
	Message  string          `json:"message,omitempty"`
	Case     json.RawMessage `json:"case"`
}

func replayPath(kind string) string {
	dir := os.Getenv("VERIF_REPLAY_DIR")
	if dir == "" {
		dir = filepath.Join(Root(), "replays")
	}
	_ = os.MkdirAll(dir, 0o755)
	i, _ := Shard()
	kind = strings.Map(func(r rune) rune {
		if r >= 'a' && r <= 'z' || r >= 'A' && r <= 'Z' || r >= '0' && r <= '9' || r == '-' || r == '_' {
			return r
		}
		return '_'
	}, kind)
	return filepath.Join(dir, fmt.Sprintf("%s-%s-seed%d-shard%d-%s.json", rec.st.Meta.Property, Tier(), BaseSeed(), i, kind))
}

// WriteReplay stores the failing case; the last write wins, so after rapid's shrinking the file
// holds the minimal case.
func WriteReplay(kind string, c any, msg string) string {
	raw, err := json.Marshal(c)
	if err != nil {
		raw = []byte(strconv.Quote(fmt.Sprintf("unencodable case: %v", err)))
	}
	rf := ReplayFile{Property: rec.st.Meta.Property, Kind: kind, Message: msg, Case: raw}
	b, _ := json.MarshalIndent(rf, "", " ")
	p := replayPath(kind)
	if rp := os.Getenv("VERIF_REPLAY"); rp != "" {
		return rp // replaying: do not overwrite the file being replayed
	}
	_ = os.WriteFile(p, b, 0o644)
	return p
}

// Fail reports a violation: writes the replay file then fails the test.
func Fail(t TB, kind string, c any, format string, args ...any) {
	t.Helper()
	msg := fmt.Sprintf(format, args...)
	p := WriteReplay(kind, c, msg)
	t.Fatalf("VERIF-FAIL kind=%s replay=%s\n%s", kind, p, msg)
}

// Oracle re-runs one stored case; it returns nil when the property holds on it.
type Oracle func(kind string, raw json.RawMessage) error

// RunReplay is the body of TestReplay: when VERIF_REPLAY is set it runs that single case.
func RunReplay(t *testing.T, o Oracle) {
	p := os.Getenv("VERIF_REPLAY")
	if p == "" {
		t.Skip("no VERIF_REPLAY")
	}
	b, err := os.ReadFile(p)
	if err != nil {
		t.Fatalf("cannot read replay file: %v", err)
	}
	var rf ReplayFile
	if err := json.Unmarshal(b, &rf); err != nil {
		t.Fatalf("cannot decode replay file: %v", err)
	}
	if err := o(rf.Kind, rf.Case); err != nil {
		t.Fatalf("VERIF-FAIL kind=%s replay=%s\n%v", rf.Kind, p, err)
	}
	fmt.Printf("replay of %s: property holds on this case\n", p)
}

var (
	knownOnce sync.Once
	knownOpen map[string]string // finding id -> description, from KNOWN_FINDINGS.txt ("known:" lines)
)

func loadKnown() {
	knownOpen = map[string]string{}
	b, err := os.ReadFile(filepath.Join(Root(), "KNOWN_FINDINGS.txt"))
	if err != nil {
		return
	}
	for _, line := range strings.Split(string(b), "\n") {
		line = strings.TrimSpace(line)
		if !strings.HasPrefix(line, "known:") {
			continue
		}
		for _, f := range strings.Fields(line) {
			if strings.HasPrefix(f, "finding=") {
				knownOpen[strings.TrimPrefix(f, "finding=")] = line
			}
		}
	}
}

// KnownOpen reports whether the finding is listed as a known (unrepaired) finding in
// /verif/KNOWN_FINDINGS.txt. Generators exclude a finding's class only while this is true.
func KnownOpen(finding string) bool {
	knownOnce.Do(loadKnown)
	_, ok := knownOpen[finding]
	return ok
}

// RunRegress is the body of TestRegress: every committed case under /verif/regress/<ID>/ is run
// through the oracle. "fixed" cases must pass; "known" cases print a KNOWN-FINDING line while they
// still fail.
func RunRegress(t *testing.T, id string, o Oracle) {
	if os.Getenv("VERIF_REPLAY") != "" {
		t.Skip("replaying a single case")
	}
	if i, _ := Shard(); i != 0 {
		t.Skip("regression cases run in shard 0 only")
	}
	files, _ := filepath.Glob(filepath.Join(Root(), "regress", id, "*.json"))
	sort.Strings(files)
	for _, f := range files {
		b, err := os.ReadFile(f)
		if err != nil {
			t.Fatalf("regress: %v", err)
		}
		var rf ReplayFile
		if err := json.Unmarshal(b, &rf); err != nil {
			t.Fatalf("regress %s: %v", f, err)
		}
		err = o(rf.Kind, rf.Case)
		Label("regress:" + rf.Status)
		status := rf.Status
		if status == "known" && !KnownOpen(rf.Finding) {
			status = "fixed" // not (or no longer) listed: the case must pass
		}
		switch status {
		case "known":
			if err != nil {
				fmt.Printf("KNOWN-FINDING: property=%s %s [%s]\n", id, rf.What, rf.Finding)
				rec.mu.Lock()
				rec.st.Known = append(rec.st.Known, rf.Finding)
				rec.mu.Unlock()
			} else {
				fmt.Printf("NOTE: known finding %s of %s no longer reproduces on %s\n", rf.Finding, id, filepath.Base(f))
			}
		default: // fixed, or plain regression cases of the harness
			if err != nil {
				t.Fatalf("VERIF-FAIL kind=%s replay=%s\nregression case fails again: %v", rf.Kind, f, err)
			}
		}
	}
}

// InFlight notes the case about to be executed, for properties where the code under test may kill
// the whole process (fatal runtime errors cannot be recovered); the driver re-runs it alone.
func InFlight(kind string, c any) {
	p := os.Getenv("VERIF_INFLIGHT")
	if p == "" || os.Getenv("VERIF_REPLAY") != "" {
		return
	}
	raw, err := json.Marshal(c)
	if err != nil {
		return
	}
	rf := ReplayFile{Property: rec.st.Meta.Property, Kind: kind, Message: "process died or hung while running this case", Case: raw}
	b, _ := json.Marshal(rf)
	_ = os.WriteFile(p, b, 0o644)
}

// ---- rapid ---------------------------------------------------------------------------------

var rapidOnce sync.Once

// Check runs a rapid property with the tier's case count and this shard's seed.
func Check(t *testing.T, quick, thorough int, prop func(*rapid.T)) {
	t.Helper()
	if os.Getenv("VERIF_REPLAY") != "" {
		t.Skip("replaying a single case")
	}
	rapidOnce.Do(func() {
		_ = flag.Set("rapid.nofailfile", "true")
		_ = flag.Set("rapid.shrinktime", "20s")
	})
	_, n := Shard()
	cnt := N(quick, thorough)
	// The requested count is the total over all shards.
	per := (cnt + n - 1) / n
	if per < 1 {
		per = 1
	}
	_ = flag.Set("rapid.checks", strconv.Itoa(per))
	_ = flag.Set("rapid.seed", strconv.FormatUint(RapidSeed(), 10))
	rapid.Check(t, prop)
}

// Slice returns the [lo,hi) part of an enumeration of n items that belongs to this shard.
func Slice(n int) (int, int) {
	i, k := Shard()
	lo := n * i / k
	hi := n * (i + 1) / k
	return lo, hi
}

// Mine reports whether item idx of an enumeration belongs to this shard (round-robin).
func Mine(idx int) bool {
	i, k := Shard()
	return idx%k == i
}
