package pbt

import (
	"encoding/base64"
	"encoding/json"
	"unicode/utf8"
)

// Txt is a program text that survives JSON even when it is not valid UTF-8 (replay files, child processes).
type Txt string

func (t Txt) MarshalJSON() ([]byte, error) {
	if utf8.ValidString(string(t)) {
		return json.Marshal(string(t))
	}
	return json.Marshal(map[string]string{"b64": base64.StdEncoding.EncodeToString([]byte(t))})
}

func (t *Txt) UnmarshalJSON(b []byte) error {
	var s string
	if err := json.Unmarshal(b, &s); err == nil {
		*t = Txt(s)
		return nil
	}
	var m map[string]string
	if err := json.Unmarshal(b, &m); err != nil {
		return err
	}
	raw, err := base64.StdEncoding.DecodeString(m["b64"])
	if err != nil {
		return err
	}
	*t = Txt(raw)
	return nil
}
