// vcheck is the driver registered in /verif/MANIFEST.json.
//
//	vcheck -prop C20 -tier quick|thorough      run the check of one property
//	vcheck -prop C20 -replay <file>            re-run one stored case through the oracle
//
// Exit status: 0 the property held on everything explored (KNOWN-FINDING lines may have been
// printed); 1 a violation was found (a line "VIOLATION property=<id> replay=<path>" is printed);
// 2 infrastructure trouble (build failure, harness crash, hard timeout): inconclusive.
package main

import (
	"bytes"
	"encoding/binary"
	"encoding/json"
	"flag"
	"fmt"
	"os"
	"os/exec"
	"path/filepath"
	"regexp"
	"sort"
	"strconv"
	"strings"
	"sync"
	"syscall"
	"time"
)

type fuzzTarget struct {
	Name    string
	Seconds int
}

type propCfg struct {
	Pkg            string // directory under harness/props
	Level          string
	QuickShards    int
	ThoroughShards int
	QuickTimeout   time.Duration // hard timeout per shard
	ThoroughTmo    time.Duration
	Fuzz           []fuzzTarget // thorough tier only
	// CrashIsViolation: the property is (also) about the process not dying; a shard that dies is
	// re-run on its in-flight case and reported as a violation when that reproduces.
	CrashIsViolation bool
	// MaxParallel bounds how many shards run at once (0 = all).
	MaxParallel int
}

func cfg(pkg string) propCfg {
	return propCfg{
		Pkg: pkg, Level: "exploration", QuickShards: 8, ThoroughShards: 16,
		QuickTimeout: 15 * time.Minute, ThoroughTmo: 90 * time.Minute,
	}
}

var props = map[string]propCfg{}

func init() {
	for i := 1; i <= 20; i++ {
		id := fmt.Sprintf("C%02d", i)
		props[id] = cfg(strings.ToLower(id))
	}
	set := func(id string, f func(c *propCfg)) { c := props[id]; f(&c); props[id] = c }
	set("C18", func(c *propCfg) { c.Level = "fault_enumeration" })
	set("C02", func(c *propCfg) { c.Fuzz = []fuzzTarget{{"FuzzRoundTrip", 150}} })
	set("C03", func(c *propCfg) { c.Fuzz = []fuzzTarget{{"FuzzFormatIdempotent", 120}} })
	set("C07", func(c *propCfg) { c.Fuzz = []fuzzTarget{{"FuzzEval", 180}}; c.CrashIsViolation = true })
	set("C08", func(c *propCfg) { c.Fuzz = []fuzzTarget{{"FuzzParse", 150}}; c.CrashIsViolation = true })
	set("C16", func(c *propCfg) { c.Fuzz = []fuzzTarget{{"FuzzLex", 120}} })
	set("C09", func(c *propCfg) { c.QuickShards = 4; c.ThoroughShards = 6 })
	set("C17", func(c *propCfg) { c.QuickShards = 8; c.ThoroughShards = 16 })
	set("C18", func(c *propCfg) { c.QuickShards = 8; c.ThoroughShards = 16 })
}

// root is /verif, or the snapshot the wrapper script lives in (background runs started with `vp run`).
var root = func() string {
	if r := os.Getenv("VERIF_ROOT"); r != "" {
		return r
	}
	return "/verif"
}()

var (
	harness = filepath.Join(root, "harness")
	binDir  = filepath.Join(root, ".bin")
	workDir = filepath.Join(root, ".work")
)

func goEnv() []string {
	env := os.Environ()
	out := env[:0:0]
	for _, e := range env {
		if strings.HasPrefix(e, "GOFLAGS=") || strings.HasPrefix(e, "GOPROXY=") ||
			strings.HasPrefix(e, "GOTOOLCHAIN=") || strings.HasPrefix(e, "GOSUMDB=") ||
			strings.HasPrefix(e, "GONOSUMDB=") || strings.HasPrefix(e, "GONOSUMCHECK=") ||
			strings.HasPrefix(e, "GOFLAGS=") {
			continue
		}
		out = append(out, e)
	}
	// Observed in this sandbox: /repo's go.mod asks for go 1.23.8, available only as a cached
	// toolchain module; GOTOOLCHAIN=local or GOSUMDB=off break that, so neither is passed on.
	return append(out, "GOFLAGS=-mod=mod", "GOPROXY=off")
}

func die2(format string, args ...any) {
	fmt.Fprintf(os.Stderr, "vcheck: "+format+"\n", args...)
	os.Exit(2)
}

func build(id string, c propCfg) string {
	_ = os.MkdirAll(binDir, 0o755)
	out := filepath.Join(binDir, strings.ToLower(id)+".test")
	cmd := exec.Command("go", "test", "-c", "-tags", "verif", "-o", out, "./props/"+c.Pkg)
	cmd.Dir = harness
	cmd.Env = goEnv()
	b, err := cmd.CombinedOutput()
	if err != nil {
		fmt.Fprintf(os.Stderr, "%s\n", b)
		die2("cannot build the check for %s from /repo's current tree (inconclusive): %v", id, err)
	}
	return out
}

type shardResult struct {
	idx      int
	exit     int
	timedOut bool
	output   []byte
	stats    string
	wall     time.Duration
}

var failRe = regexp.MustCompile(`VERIF-FAIL kind=(\S+) replay=(\S+)`)

func runShard(bin, id, tier string, seed int64, idx, n int, dir string, tmo time.Duration, extraArgs []string, extraEnv []string) shardResult {
	stats := filepath.Join(dir, fmt.Sprintf("stats-%d.json", idx))
	_ = os.Remove(stats)
	_ = os.Remove(stats + ".hashes")
	args := []string{"-test.timeout=0", "-test.count=1"}
	if len(extraArgs) == 0 {
		args = append(args, "-test.run=^Test")
	} else {
		args = append(args, extraArgs...)
	}
	cmd := exec.Command(bin, args...)
	cmd.Dir = filepath.Join(harness, "props", props[id].Pkg)
	cmd.Env = append(os.Environ(),
		"VERIF_TIER="+tier,
		"VERIF_SEED="+strconv.FormatInt(seed, 10),
		fmt.Sprintf("VERIF_SHARD=%d/%d", idx, n),
		"VERIF_STATS="+stats,
		"VERIF_REPLAY_DIR="+filepath.Join(root, "replays"),
		"VERIF_INFLIGHT="+filepath.Join(dir, fmt.Sprintf("inflight-%d.json", idx)),
		"VERIF_SELF="+bin,
	)
	cmd.Env = append(cmd.Env, extraEnv...)
	cmd.SysProcAttr = &syscall.SysProcAttr{Setpgid: true}
	var buf bytes.Buffer
	cmd.Stdout = &buf
	cmd.Stderr = &buf
	start := time.Now()
	res := shardResult{idx: idx, stats: stats}
	if err := cmd.Start(); err != nil {
		res.exit = 2
		res.output = []byte(err.Error())
		return res
	}
	done := make(chan error, 1)
	go func() { done <- cmd.Wait() }()
	select {
	case err := <-done:
		if err != nil {
			if ee, ok := err.(*exec.ExitError); ok {
				res.exit = ee.ExitCode()
				if res.exit < 0 {
					res.exit = 128
				}
			} else {
				res.exit = 2
			}
		}
	case <-time.After(tmo):
		_ = syscall.Kill(-cmd.Process.Pid, syscall.SIGKILL)
		<-done
		res.timedOut = true
		res.exit = 2
	}
	res.wall = time.Since(start)
	res.output = buf.Bytes()
	_ = os.WriteFile(filepath.Join(dir, fmt.Sprintf("log-%d.txt", idx)), res.output, 0o644)
	return res
}

type statsFile struct {
	Meta struct {
		Property        string   `json:"property"`
		Level           string   `json:"level"`
		Rule            string   `json:"rule"`
		Assumptions     []string `json:"assumptions"`
		Exhaustive      bool     `json:"exhaustive"`
		ExhaustiveBound string   `json:"exhaustive_bound"`
	} `json:"meta"`
	Evaluations   int64            `json:"evaluations"`
	ExactDistinct int64            `json:"exact_distinct"`
	Labels        map[string]int64 `json:"labels"`
	Excluded      map[string]int64 `json:"excluded"`
	Samples       []any            `json:"samples"`
	Extra         map[string]any   `json:"extra"`
	HashFile      string           `json:"hash_file"`
	Known         []string         `json:"known_findings_reproduced"`
}

func main() {
	prop := flag.String("prop", "", "property id (C01..C20)")
	tier := flag.String("tier", "", "quick | thorough (default: $VERIF_TIER or quick)")
	replay := flag.String("replay", "", "replay one stored case")
	flag.Parse()
	id := strings.ToUpper(*prop)
	c, ok := props[id]
	if !ok {
		die2("unknown property %q", *prop)
	}
	if *tier == "" {
		*tier = os.Getenv("VERIF_TIER")
	}
	if *tier != "thorough" {
		*tier = "quick"
	}
	seed := int64(1)
	if v, err := strconv.ParseInt(os.Getenv("VERIF_SEED"), 10, 64); err == nil {
		seed = v
	}
	start := time.Now()
	bin := build(id, c)
	dir := filepath.Join(workDir, fmt.Sprintf("%s-%s", id, *tier))
	_ = os.RemoveAll(dir)
	_ = os.MkdirAll(dir, 0o755)
	_ = os.MkdirAll(filepath.Join(root, "replays"), 0o755)

	if *replay != "" {
		abs, _ := filepath.Abs(*replay)
		r := runShard(bin, id, *tier, seed, 0, 1, dir, 30*time.Minute,
			[]string{"-test.run=^TestReplay$", "-test.v"}, []string{"VERIF_REPLAY=" + abs})
		os.Stdout.Write(r.output)
		if r.exit != 0 {
			if failRe.Match(r.output) {
				fmt.Printf("VIOLATION property=%s replay=%s\n", id, abs)
				os.Exit(1)
			}
			os.Exit(2)
		}
		os.Exit(0)
	}

	// stale replays of this property / tier / seed
	old, _ := filepath.Glob(filepath.Join(root, "replays", fmt.Sprintf("%s-%s-seed%d-*", id, *tier, seed)))
	for _, f := range old {
		_ = os.Remove(f)
	}

	n := c.QuickShards
	tmo := c.QuickTimeout
	if *tier == "thorough" {
		n = c.ThoroughShards
		tmo = c.ThoroughTmo
	}
	par := n
	if c.MaxParallel > 0 && par > c.MaxParallel {
		par = c.MaxParallel
	}
	results := make([]shardResult, n)
	sem := make(chan struct{}, par)
	var wg sync.WaitGroup
	for i := 0; i < n; i++ {
		wg.Add(1)
		go func(i int) {
			defer wg.Done()
			sem <- struct{}{}
			defer func() { <-sem }()
			results[i] = runShard(bin, id, *tier, seed, i, n, dir, tmo, nil, nil)
		}(i)
	}
	wg.Wait()

	violations := map[string]bool{}
	infra := false
	var fuzzExecs int64
	for _, r := range results {
		for _, line := range strings.Split(string(r.output), "\n") {
			if strings.HasPrefix(line, "KNOWN-FINDING:") || strings.HasPrefix(line, "NOTE:") {
				fmt.Println(line)
			}
		}
		if r.exit == 0 {
			continue
		}
		ms := failRe.FindAllSubmatch(r.output, -1)
		if len(ms) > 0 {
			for _, m := range ms {
				violations[string(m[2])] = true
			}
			continue
		}
		if r.timedOut {
			fmt.Fprintf(os.Stderr, "vcheck: shard %d of %s hit the driver's hard timeout (%v): inconclusive\n", r.idx, id, tmo)
			if c.CrashIsViolation {
				if p := confirmInflight(bin, id, *tier, seed, dir, r.idx); p != "" {
					violations[p] = true
					continue
				}
			}
			infra = true
			continue
		}
		// the test binary died without reporting a case
		if c.CrashIsViolation {
			if p := confirmInflight(bin, id, *tier, seed, dir, r.idx); p != "" {
				violations[p] = true
				continue
			}
		}
		fmt.Fprintf(os.Stderr, "vcheck: shard %d of %s exited with %d without reporting a case; its output begins:\n%s\n",
			r.idx, id, r.exit, head(r.output, 1500))
		infra = true
	}

	// thorough: native fuzzing
	if *tier == "thorough" && len(violations) == 0 {
		for _, ft := range c.Fuzz {
			cache := filepath.Join(workDir, "fuzzcache", id)
			_ = os.MkdirAll(cache, 0o755)
			secs := ft.Seconds
			if v, err := strconv.Atoi(os.Getenv("VERIF_FUZZ_SECONDS")); err == nil && v > 0 {
				secs = v
			}
			r := runShard(bin, id, *tier, seed, 100, 1, dir, time.Duration(secs+300)*time.Second,
				[]string{"-test.run=^$", "-test.fuzz=^" + ft.Name + "$", fmt.Sprintf("-test.fuzztime=%ds", secs),
					"-test.fuzzcachedir=" + cache, "-test.parallel=16"}, []string{"VERIF_FUZZING=1"})
			fuzzExecs += lastExecs(r.output)
			if r.exit != 0 {
				ms := failRe.FindAllSubmatch(r.output, -1)
				if len(ms) > 0 {
					violations[string(ms[len(ms)-1][2])] = true
				} else if r.timedOut {
					infra = true
				} else {
					fmt.Fprintf(os.Stderr, "vcheck: fuzz target %s ended with %d:\n%s\n", ft.Name, r.exit, tail(r.output, 3000))
					// a crasher saved by the fuzzing engine itself
					if m := regexp.MustCompile(`Failing input written to (\S+)`).FindSubmatch(r.output); m != nil {
						src := filepath.Join(harness, "props", c.Pkg, string(m[1]))
						dst := filepath.Join(root, "replays", fmt.Sprintf("%s-fuzz-%s", id, filepath.Base(src)))
						if b, err := os.ReadFile(src); err == nil {
							_ = os.WriteFile(dst, b, 0o644)
							_ = os.Remove(src)
							violations[dst] = true
						} else {
							infra = true
						}
					} else {
						infra = true
					}
				}
			}
			// never leave engine-written crashers in the package directory
			_ = os.RemoveAll(filepath.Join(harness, "props", c.Pkg, "testdata", "fuzz", ft.Name))
		}
	}

	writeEvidence(id, c, *tier, seed, results, dir, fuzzExecs, len(violations), time.Since(start))

	if len(violations) > 0 {
		paths := make([]string, 0, len(violations))
		for p := range violations {
			paths = append(paths, p)
		}
		sort.Strings(paths)
		for _, p := range paths {
			if b, err := os.ReadFile(p); err == nil {
				var rf struct {
					Message string `json:"message"`
				}
				if json.Unmarshal(b, &rf) == nil && rf.Message != "" {
					fmt.Printf("--- %s\n%s\n", p, firstLines(rf.Message, 25))
				}
			}
			fmt.Printf("VIOLATION property=%s replay=%s\n", id, p)
		}
		os.Exit(1)
	}
	if infra {
		os.Exit(2)
	}
	fmt.Printf("OK property=%s tier=%s seed=%d wall=%.1fs\n", id, *tier, seed, time.Since(start).Seconds())
}

// confirmInflight re-runs the case a dead shard was working on, alone; if the process dies again
// (or hangs for 60 s) the case is stored as a replay and reported.
func confirmInflight(bin, id, tier string, seed int64, dir string, idx int) string {
	inflight := filepath.Join(dir, fmt.Sprintf("inflight-%d.json", idx))
	b, err := os.ReadFile(inflight)
	if err != nil || len(b) == 0 {
		return ""
	}
	dst := filepath.Join(root, "replays", fmt.Sprintf("%s-%s-seed%d-shard%d-crash.json", id, tier, seed, idx))
	_ = os.WriteFile(dst, b, 0o644)
	r := runShard(bin, id, tier, seed, 200+idx, 1, dir, 90*time.Second,
		[]string{"-test.run=^TestReplay$"}, []string{"VERIF_REPLAY=" + dst})
	if r.exit != 0 {
		return dst
	}
	_ = os.Remove(dst)
	return ""
}

var execsRe = regexp.MustCompile(`execs: (\d+)`)

func lastExecs(out []byte) int64 {
	ms := execsRe.FindAllSubmatch(out, -1)
	if len(ms) == 0 {
		return 0
	}
	v, _ := strconv.ParseInt(string(ms[len(ms)-1][1]), 10, 64)
	return v
}

func head(b []byte, n int) string {
	if len(b) > n {
		return string(b[:n]) + "\n..."
	}
	return string(b)
}

func tail(b []byte, n int) string {
	if len(b) > n {
		b = b[len(b)-n:]
	}
	return string(b)
}

func firstLines(s string, n int) string {
	lines := strings.Split(s, "\n")
	if len(lines) > n {
		lines = append(lines[:n], "...")
	}
	return strings.Join(lines, "\n")
}

func writeEvidence(id string, c propCfg, tier string, seed int64, results []shardResult, dir string, fuzzExecs int64, nviol int, wall time.Duration) {
	var evals, exact int64
	labels := map[string]int64{}
	excluded := map[string]int64{}
	var samples []any
	extra := map[string]any{}
	hashes := map[uint64]struct{}{}
	var rule, bound string
	var assumptions []string
	exhaustive := false
	level := c.Level
	knownSet := map[string]bool{}
	shardsOK := 0
	for _, r := range results {
		b, err := os.ReadFile(r.stats)
		if err != nil {
			continue
		}
		var st statsFile
		if json.Unmarshal(b, &st) != nil {
			continue
		}
		shardsOK++
		evals += st.Evaluations
		exact += st.ExactDistinct
		for k, v := range st.Labels {
			labels[k] += v
		}
		for k, v := range st.Excluded {
			excluded[k] += v
		}
		if len(samples) < 12 {
			for _, s := range st.Samples {
				if len(samples) < 12 {
					samples = append(samples, s)
				}
			}
		}
		for k, v := range st.Extra {
			if f, ok := v.(float64); ok {
				if old, ok2 := extra[k].(float64); !ok2 || f > old {
					extra[k] = f
				}
			} else if _, ok := extra[k]; !ok {
				extra[k] = v
			}
		}
		for _, k := range st.Known {
			knownSet[k] = true
		}
		if st.Meta.Rule != "" {
			rule = st.Meta.Rule
			assumptions = st.Meta.Assumptions
			bound = st.Meta.ExhaustiveBound
			exhaustive = st.Meta.Exhaustive
			if st.Meta.Level != "" {
				level = st.Meta.Level
			}
		}
		if hb, err := os.ReadFile(st.HashFile); err == nil {
			for i := 0; i+8 <= len(hb); i += 8 {
				hashes[binary.LittleEndian.Uint64(hb[i:])] = struct{}{}
			}
		}
	}
	if shardsOK != len(results) {
		exhaustive = false // an enumeration split over shards is only complete when every shard reported
	}
	if fuzzExecs > 0 {
		labels["native_fuzz_execs"] = fuzzExecs
		evals += fuzzExecs
	}
	known := make([]string, 0, len(knownSet))
	for k := range knownSet {
		known = append(known, k)
	}
	sort.Strings(known)
	cov := map[string]any{
		"evaluations":               evals,
		"distinct_nontrivial":       exact + int64(len(hashes)),
		"rule":                      rule,
		"samples":                   samples,
		"labels":                    labels,
		"excluded_known":            excluded,
		"exhaustive":                exhaustive,
		"shards":                    len(results),
		"shards_reporting":          shardsOK,
		"known_findings_reproduced": known,
	}
	if bound != "" {
		cov["exhaustive_bound"] = bound
	}
	for k, v := range extra {
		cov["x_"+k] = v
	}
	ev := map[string]any{
		"property_id": id,
		"tier":        tier,
		"seed":        seed,
		"level":       level,
		"coverage":    cov,
		"assumptions": assumptions,
		"wall_s":      float64(int(wall.Seconds()*10)) / 10,
		"violations":  nviol,
	}
	if assumptions == nil {
		ev["assumptions"] = []string{}
	}
	b, _ := json.MarshalIndent(ev, "", " ")
	evDir := filepath.Join(root, "evidence")
	if d := os.Getenv("VERIF_EVIDENCE_DIR"); d != "" { // development runs against deliberately broken trees write elsewhere
		evDir = d
	}
	_ = os.MkdirAll(evDir, 0o755)
	_ = os.WriteFile(filepath.Join(evDir, id+".json"), append(b, '\n'), 0o644)
}
