// showdiff: developer aid — runs the inputs of a replay file (case.inputs) with two session
// configurations and prints, for the first differing input, everything observed.
package main

import (
	"encoding/json"
	"fmt"
	"os"

	"verif/gen"
	"verif/sess"
)

func main() {
	b, _ := os.ReadFile(os.Args[1])
	var rf struct {
		Case struct {
			Inputs []string `json:"inputs"`
		} `json:"case"`
	}
	_ = json.Unmarshal(b, &rf)
	mode := "reg"
	if len(os.Args) > 2 {
		mode = os.Args[2]
	}
	a, b2 := sess.Config{}, sess.Config{NoReg: true}
	if mode == "cache" {
		b2 = sess.Config{}
	}
	ra, _, _ := sess.RunAll(a, []string{gen.TypedPrelude}, rf.Case.Inputs)
	rb, _, _ := sess.RunAll(b2, []string{gen.TypedPrelude}, rf.Case.Inputs)
	for i, in := range rf.Case.Inputs {
		if ra[i].Out != rb[i].Out || ra[i].Echo != rb[i].Echo || len(ra[i].Errs) != len(rb[i].Errs) {
			fmt.Printf("INPUT #%d:\n%s\nA: out=%q echo=%q errs=%q\nB: out=%q echo=%q errs=%q\n", i, in, ra[i].Out, ra[i].Echo, ra[i].Errs, rb[i].Out, rb[i].Echo, rb[i].Errs)
			return
		}
	}
	fmt.Println("no difference")
}
