// Package gv converts grol objects into the harness's plain values (package val).
package gv

import (
	"fmt"

	"grol.io/grol/object"
	"verif/val"
)

// FromObject converts data values; functions, extensions, quotes and errors are not data and give an error.
func FromObject(o object.Object) (val.V, error) {
	o = object.Value(o)
	switch v := o.(type) {
	case object.Integer:
		return val.I(v.Value), nil
	case object.Float:
		return val.F(v.Value), nil
	case object.Boolean:
		return val.B(v.Value), nil
	case object.Null:
		return val.N(), nil
	case object.String:
		return val.S(v.Value), nil
	case object.Array:
		out := val.V{K: val.Arr, A: []val.V{}}
		for _, e := range v.Elements() {
			ev, err := FromObject(e)
			if err != nil {
				return val.V{}, err
			}
			out.A = append(out.A, ev)
		}
		return out, nil
	case object.Map:
		// keep the implementation's own order and pairs (no re-sorting): the order is part of what is observed.
		out := val.V{K: val.Map, M: []val.KV{}}
		var m object.Object = v
		for object.Len(m) > 0 {
			f := object.First(m)
			fm, ok := f.(object.Map)
			if !ok {
				return val.V{}, fmt.Errorf("first(map) is %T", f)
			}
			k, _ := fm.Get(object.KeyKey)
			vv, _ := fm.Get(object.ValueKey)
			kv, err := FromObject(k)
			if err != nil {
				return val.V{}, err
			}
			vvv, err := FromObject(vv)
			if err != nil {
				return val.V{}, err
			}
			out.M = append(out.M, val.KV{K: kv, V: vvv})
			m = object.Rest(m)
			if m.Type() == object.NIL {
				break
			}
		}
		if len(out.M) != v.Len() {
			return val.V{}, fmt.Errorf("map iteration gave %d pairs, Len() says %d", len(out.M), v.Len())
		}
		return out, nil
	}
	return val.V{}, fmt.Errorf("not a data value: %s (%T)", o.Type(), o)
}

// ToObject builds a grol object from a plain value through the public constructors.
func ToObject(v val.V) object.Object {
	switch v.K {
	case val.Int:
		return object.Integer{Value: v.I}
	case val.Float:
		return object.Float{Value: v.F}
	case val.Bool:
		return object.NativeBoolToBooleanObject(v.B)
	case val.Nil:
		return object.NULL
	case val.Str:
		return object.String{Value: v.S}
	case val.Arr:
		els := make([]object.Object, len(v.A))
		for i, e := range v.A {
			els[i] = ToObject(e)
		}
		return object.NewArray(els)
	default:
		m := object.NewMapSize(len(v.M))
		for _, p := range v.M {
			m = m.Set(ToObject(p.K), ToObject(p.V))
		}
		return m
	}
}
