package child

import (
	"os/signal"
	"syscall"
)

func signalIgnoreXFSZ() { signal.Ignore(syscall.SIGXFSZ) }
