// Package child re-executes the running test binary as a child process with a role, for the checks
// where process-wide state (extensions.Init is once per process, the working directory) or the death
// of the process is part of the property.
package child

import (
	"bytes"
	"encoding/json"
	"fmt"
	"os"
	"os/exec"
	"strconv"
	"syscall"
	"time"
)

const (
	envRole = "VERIF_CHILD_ROLE"
	envArgs = "VERIF_CHILD_ARGS"
	envAS   = "VERIF_CHILD_RLIMIT_AS"
	envFS   = "VERIF_CHILD_RLIMIT_FSIZE"
)

// Handler runs inside the child; its return value is the exit status.
type Handler func(args json.RawMessage) int

// Dispatch must be called at the top of TestMain: when this process is a child it runs the handler and exits.
func Dispatch(handlers map[string]Handler) {
	role := os.Getenv(envRole)
	if role == "" {
		return
	}
	if v, err := strconv.ParseUint(os.Getenv(envAS), 10, 64); err == nil && v > 0 {
		_ = syscall.Setrlimit(syscall.RLIMIT_AS, &syscall.Rlimit{Cur: v, Max: v})
	}
	if v, err := strconv.ParseUint(os.Getenv(envFS), 10, 64); err == nil {
		// the process must survive the signal to see the write error (EFBIG)
		signalIgnoreXFSZ()
		_ = syscall.Setrlimit(syscall.RLIMIT_FSIZE, &syscall.Rlimit{Cur: v, Max: v})
	}
	h, ok := handlers[role]
	if !ok {
		fmt.Fprintln(os.Stderr, "child: unknown role", role)
		os.Exit(97)
	}
	raw, err := os.ReadFile(os.Getenv(envArgs))
	if err != nil {
		fmt.Fprintln(os.Stderr, "child: cannot read arguments:", err)
		os.Exit(98)
	}
	os.Exit(h(raw))
}

type Opts struct {
	Dir         string        // working directory of the child
	Env         []string      // extra environment
	Timeout     time.Duration // hard kill timer owned by the harness (0 = 60 s)
	RlimitAS    uint64        // address space limit in bytes (0 = none)
	RlimitFsize int64         // file size limit in bytes (< 0 = none)
	Prefix      []string      // command the child is run under (e.g. strace with its options); empty = directly
}

type Result struct {
	Exit     int
	Signal   string // non-empty when the child was killed by a signal
	TimedOut bool   // killed by the harness's timer
	Stdout   []byte
	Stderr   []byte
	Wall     time.Duration
	MaxRSSKB int64
	Err      error // the child could not be started
}

func (r Result) String() string {
	return fmt.Sprintf("exit=%d signal=%q timedout=%v wall=%v maxrss=%dKB", r.Exit, r.Signal, r.TimedOut, r.Wall.Round(time.Millisecond), r.MaxRSSKB)
}

// Spawn runs the current test binary as a child with the given role.
func Spawn(role string, args any, o Opts) Result {
	var res Result
	tmp, err := os.CreateTemp("", "verif-child-args-*.json")
	if err != nil {
		res.Err = err
		return res
	}
	defer os.Remove(tmp.Name())
	raw, _ := json.Marshal(args)
	_, _ = tmp.Write(raw)
	_ = tmp.Close()
	self := os.Getenv("VERIF_SELF")
	if self == "" {
		self, _ = os.Executable()
	}
	cmd := exec.Command(self, "-test.run=^$")
	if len(o.Prefix) > 0 {
		cmd = exec.Command(o.Prefix[0], append(append([]string{}, o.Prefix[1:]...), self, "-test.run=^$")...)
	}
	cmd.Dir = o.Dir
	cmd.Env = append(os.Environ(), envRole+"="+role, envArgs+"="+tmp.Name(), "VERIF_STATS=", "VERIF_INFLIGHT=")
	if o.RlimitAS > 0 {
		cmd.Env = append(cmd.Env, envAS+"="+strconv.FormatUint(o.RlimitAS, 10))
	}
	if o.RlimitFsize >= 0 {
		cmd.Env = append(cmd.Env, envFS+"="+strconv.FormatInt(o.RlimitFsize, 10))
	}
	cmd.Env = append(cmd.Env, o.Env...)
	var so, se bytes.Buffer
	cmd.Stdout, cmd.Stderr = &so, &se
	cmd.SysProcAttr = &syscall.SysProcAttr{Setpgid: true}
	start := time.Now()
	if err := cmd.Start(); err != nil {
		res.Err = err
		return res
	}
	timeout := o.Timeout
	if timeout == 0 {
		timeout = 60 * time.Second
	}
	done := make(chan error, 1)
	go func() { done <- cmd.Wait() }()
	select {
	case <-done:
	case <-time.After(timeout):
		_ = syscall.Kill(-cmd.Process.Pid, syscall.SIGKILL)
		<-done
		res.TimedOut = true
	}
	res.Wall = time.Since(start)
	res.Stdout, res.Stderr = so.Bytes(), se.Bytes()
	if ps := cmd.ProcessState; ps != nil {
		res.Exit = ps.ExitCode()
		if ws, ok := ps.Sys().(syscall.WaitStatus); ok && ws.Signaled() {
			res.Signal = ws.Signal().String()
		}
		if ru, ok := ps.SysUsage().(*syscall.Rusage); ok {
			res.MaxRSSKB = ru.Maxrss
		}
	}
	return res
}
