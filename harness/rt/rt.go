// Package rt holds the formatting oracles shared by C02 (round trip) and C03 (fixpoint), and the
// systematic families of trees (operator parent/child pairs, statement adjacencies).
package rt

import (
	"fmt"
	"strings"

	"verif/dump"
	"verif/front"
	"verif/gen"
)

type Result struct {
	Accepted        bool
	OperandComments bool
	Tree            string // canonical dump of the parsed input
}

func diff(a, b string) string {
	i := 0
	for i < len(a) && i < len(b) && a[i] == b[i] {
		i++
	}
	lo := i - 60
	if lo < 0 {
		lo = 0
	}
	cut := func(s string) string {
		hi := i + 80
		if hi > len(s) {
			hi = len(s)
		}
		if lo > len(s) {
			return ""
		}
		return s[lo:hi]
	}
	return fmt.Sprintf("first difference at offset %d:\n   ...%s\n   ...%s", i, cut(a), cut(b))
}

// RoundTrip checks C02 on one text. expect / expectNC are the intended trees (with / without
// comments) when the text was printed from a tree of ours ("" otherwise).
func RoundTrip(text, expect, expectNC string) (Result, error) {
	var res Result
	p0 := front.Parse(text, false)
	if p0.Panic != "" {
		return res, fmt.Errorf("parser panicked on %q: %s", text, p0.Panic)
	}
	if !p0.Accepted() {
		if expect != "" {
			return res, fmt.Errorf("text printed from a valid tree is not accepted by the parser (%s):\n%s", p0.Why(), text)
		}
		return res, nil
	}
	res.Accepted = true
	info := dump.DumpInfo(p0.Prog, dump.Options{})
	res.Tree = info.Text
	res.OperandComments = info.OperandComments > 0
	if len(info.Missing) > 0 {
		return res, fmt.Errorf("accepted text %q has missing children in its tree: %v", text, info.Missing)
	}
	if expect != "" && info.Text != expect {
		return res, fmt.Errorf("the parser built a different tree than the one the text was printed from:\ntext: %s\n%s", text, diff(info.Text, expect))
	}
	if res.OperandComments {
		return res, nil // not decided for comments in operand position
	}
	t0nc, _ := dump.Dump(p0.Prog, dump.Options{DropComments: true})
	if expectNC != "" && t0nc != expectNC {
		return res, fmt.Errorf("tree without comments differs from the intended one:\ntext: %s\n%s", text, diff(t0nc, expectNC))
	}
	for _, compact := range []bool{false, true} {
		mode := "normal"
		if compact {
			mode = "compact"
		}
		f, err := front.Format(p0.Prog, compact)
		if err != nil {
			return res, fmt.Errorf("%s mode: %v (input %q)", mode, err, text)
		}
		p1 := front.Parse(f, false)
		if !p1.Accepted() {
			return res, fmt.Errorf("%s-mode output is not accepted by the parser (%s)\ninput:  %q\noutput: %q", mode, p1.Why(), text, f)
		}
		t1, _ := dump.Dump(p1.Prog, dump.Options{DropComments: compact})
		want := info.Text
		if compact {
			want = t0nc
		}
		if t1 != want {
			return res, fmt.Errorf("%s-mode output parses to a different program\ninput:  %q\noutput: %q\n%s", mode, text, f, diff(t1, want))
		}
	}
	return res, nil
}

// Fixpoint checks C03's idempotence and trailing-newline clauses on one text. Inputs that are not
// accepted, or whose first formatting does not re-parse (C02's subject), are skipped (decided=false).
func Fixpoint(text string) (decided bool, err error) {
	p0 := front.Parse(text, false)
	if !p0.Accepted() {
		return false, nil
	}
	if dump.DumpInfo(p0.Prog, dump.Options{}).OperandComments > 0 {
		return false, nil
	}
	for _, compact := range []bool{false, true} {
		mode := "normal"
		if compact {
			mode = "compact"
		}
		f1, err := front.Format(p0.Prog, compact)
		if err != nil {
			return false, nil
		}
		if !compact && len(p0.Prog.Statements) > 0 {
			if !strings.HasSuffix(f1, "\n") || strings.HasSuffix(f1, "\n\n") {
				return true, fmt.Errorf("normal-mode output does not end with exactly one newline\ninput:  %q\noutput: %q", text, f1)
			}
		}
		p1 := front.Parse(f1, false)
		if !p1.Accepted() {
			return false, nil // C02 reports this
		}
		f2, err := front.Format(p1.Prog, compact)
		if err != nil {
			return false, nil
		}
		if f1 != f2 {
			return true, fmt.Errorf("%s-mode formatting is not a fixpoint\ninput:   %q\nfirst:   %q\nsecond:  %q", mode, text, f1, f2)
		}
		again, _ := front.Format(p0.Prog, compact)
		if again != f1 {
			return true, fmt.Errorf("%s-mode formatting of the same tree twice gave different bytes\nfirst:  %q\nsecond: %q", mode, f1, again)
		}
	}
	return true, nil
}

// ---- systematic families ---------------------------------------------------------------------------

type Named struct {
	Name string
	Make func() *gen.Node
}

type Ctx struct {
	Name string
	Wrap func(child *gen.Node) *gen.Node // returns a statement
}

func id(s string) *gen.Node { return gen.Id(s) }

// Children: one template per construct that can be an operand.
func Children() []Named {
	var out []Named
	for _, op := range append([]string{"=", ":=", ":"}, gen.InfixOps...) {
		op := op
		out = append(out, Named{"infix" + op, func() *gen.Node { return gen.Infix(op, id("b"), id("c")) }})
	}
	for _, op := range gen.PrefixOps {
		op := op
		out = append(out, Named{"prefix" + op, func() *gen.Node { return gen.Prefix(op, id("b")) }})
	}
	out = append(out,
		Named{"postfix++", func() *gen.Node { return gen.Postfix("++", "b") }},
		Named{"postfix--", func() *gen.Node { return gen.Postfix("--", "b") }},
		Named{"call", func() *gen.Node { return gen.Call(id("f"), id("b")) }},
		Named{"index", func() *gen.Node { return gen.Index(id("b"), id("c")) }},
		Named{"dot", func() *gen.Node { return gen.Dot(id("b"), "k") }},
		Named{"slice", func() *gen.Node { return gen.Slice(id("b"), id("c"), id("d")) }},
		Named{"sliceopen", func() *gen.Node { return gen.Slice(id("b"), id("c"), nil) }},
		Named{"lambda", func() *gen.Node { return gen.Lambda([]string{"x"}, false, gen.Infix("+", id("x"), id("c"))) }},
		Named{"lambda2", func() *gen.Node { return gen.Lambda([]string{"x", "y"}, false, id("x")) }},
		Named{"lambdablock", func() *gen.Node { return gen.LambdaBlock([]string{"x"}, false, id("x"), id("c")) }},
		Named{"func", func() *gen.Node { return gen.Func("", []string{"x"}, false, id("x")) }},
		Named{"ifelse", func() *gen.Node { return gen.IfElse(id("b"), []*gen.Node{id("c")}, []*gen.Node{id("d")}) }},
		Named{"if", func() *gen.Node { return gen.If(id("b"), []*gen.Node{id("c")}) }},
		Named{"array", func() *gen.Node { return gen.Array(id("b"), id("c")) }},
		Named{"map", func() *gen.Node { return gen.Map(id("b"), id("c")) }},
		Named{"emptymap", func() *gen.Node { return gen.Map() }},
		Named{"str", func() *gen.Node { return gen.Str("s") }},
		Named{"int", func() *gen.Node { return gen.IntLit("1") }},
		Named{"float", func() *gen.Node { return gen.FloatLit("1.5") }},
		Named{"dotfloat", func() *gen.Node { return gen.FloatLit(".5") }},
		Named{"bool", func() *gen.Node { return gen.Bool(true) }},
		Named{"id", func() *gen.Node { return id("b") }},
		Named{"len", func() *gen.Node { return gen.Builtin("len", id("b")) }},
		Named{"negint", func() *gen.Node { return gen.Int(-1) }},
	)
	return out
}

// Contexts: one per operand position of every construct.
func Contexts() []Ctx {
	var out []Ctx
	for _, op := range append([]string{"=", ":=", ":"}, gen.InfixOps...) {
		op := op
		out = append(out,
			Ctx{"left-of" + op, func(c *gen.Node) *gen.Node { return gen.Infix(op, c, id("z")) }},
			Ctx{"right-of" + op, func(c *gen.Node) *gen.Node { return gen.Infix(op, id("a"), c) }})
	}
	for _, op := range gen.PrefixOps {
		op := op
		out = append(out, Ctx{"operand-of-prefix" + op, func(c *gen.Node) *gen.Node { return gen.Prefix(op, c) }})
	}
	out = append(out,
		Ctx{"callee", func(c *gen.Node) *gen.Node { return gen.Call(c, id("z")) }},
		Ctx{"arg", func(c *gen.Node) *gen.Node { return gen.Call(id("f"), id("a"), c) }},
		Ctx{"index-target", func(c *gen.Node) *gen.Node { return gen.Index(c, id("z")) }},
		Ctx{"index", func(c *gen.Node) *gen.Node { return gen.Index(id("a"), c) }},
		Ctx{"dot-target", func(c *gen.Node) *gen.Node { return gen.Dot(c, "k") }},
		Ctx{"slice-target", func(c *gen.Node) *gen.Node { return gen.Slice(c, id("y"), id("z")) }},
		Ctx{"slice-left", func(c *gen.Node) *gen.Node { return gen.Slice(id("a"), c, id("z")) }},
		Ctx{"slice-right", func(c *gen.Node) *gen.Node { return gen.Slice(id("a"), id("y"), c) }},
		Ctx{"array-el", func(c *gen.Node) *gen.Node { return gen.Array(id("a"), c) }},
		Ctx{"map-key", func(c *gen.Node) *gen.Node { return gen.Map(c, id("z")) }},
		Ctx{"map-val", func(c *gen.Node) *gen.Node { return gen.Map(id("a"), c) }},
		Ctx{"lambda-body", func(c *gen.Node) *gen.Node { return gen.Lambda([]string{"x"}, false, c) }},
		Ctx{"if-cond", func(c *gen.Node) *gen.Node { return gen.If(c, []*gen.Node{id("z")}) }},
		Ctx{"for-cond", func(c *gen.Node) *gen.Node { return gen.For(c, id("z")) }},
		Ctx{"return", func(c *gen.Node) *gen.Node {
			return gen.Func("f", nil, false, gen.Return(c))
		}},
		Ctx{"builtin-arg", func(c *gen.Node) *gen.Node { return gen.Builtin("println", id("a"), c) }},
		Ctx{"stmt", func(c *gen.Node) *gen.Node { return c }},
	)
	return out
}

// Statements: one template per statement shape (for the adjacency family).
func Statements() []Named {
	mk := func(n string, f func() *gen.Node) Named { return Named{n, f} }
	return []Named{
		mk("id", func() *gen.Node { return id("a") }),
		mk("int", func() *gen.Node { return gen.IntLit("1") }),
		mk("dotfloat", func() *gen.Node { return gen.FloatLit(".5") }),
		mk("str", func() *gen.Node { return gen.Str("s") }),
		mk("neg", func() *gen.Node { return gen.Prefix("-", id("a")) }),
		mk("plus", func() *gen.Node { return gen.Prefix("+", id("a")) }),
		mk("not", func() *gen.Node { return gen.Prefix("!", id("a")) }),
		mk("bitnot", func() *gen.Node { return gen.Prefix("^", id("a")) }),
		mk("preincr", func() *gen.Node { return gen.Prefix("++", id("a")) }),
		mk("predecr", func() *gen.Node { return gen.Prefix("--", id("a")) }),
		mk("postincr", func() *gen.Node { return gen.Postfix("++", "a") }),
		mk("sum", func() *gen.Node { return gen.Infix("+", id("a"), id("b")) }),
		mk("call", func() *gen.Node { return gen.Call(id("f"), id("a")) }),
		mk("array", func() *gen.Node { return gen.Array(id("a")) }),
		mk("map", func() *gen.Node { return gen.Map(id("a"), id("b")) }),
		mk("assign", func() *gen.Node { return gen.Assign("a", id("b")) }),
		mk("assign-array", func() *gen.Node { return gen.Assign("a", gen.Array(id("b"))) }),
		mk("assign-map", func() *gen.Node { return gen.Assign("a", gen.Map(id("b"), id("c"))) }),
		mk("indexassign", func() *gen.Node { return gen.Infix("=", gen.Index(id("a"), gen.IntLit("0")), id("b")) }),
		mk("if", func() *gen.Node { return gen.If(id("a"), []*gen.Node{id("b")}) }),
		mk("ifelse", func() *gen.Node { return gen.IfElse(id("a"), []*gen.Node{id("b")}, []*gen.Node{id("c")}) }),
		mk("for", func() *gen.Node { return gen.For(gen.IntLit("3"), id("b")) }),
		mk("funcdef", func() *gen.Node { return gen.Func("f", []string{"x"}, false, id("x")) }),
		mk("funclit", func() *gen.Node { return gen.Func("", []string{"x"}, false, id("x")) }),
		mk("lambda", func() *gen.Node { return gen.Lambda([]string{"x"}, false, id("x")) }),
		mk("lambda-assign", func() *gen.Node { return gen.Assign("g", gen.Lambda([]string{"x"}, false, gen.Infix("+", id("x"), gen.IntLit("1")))) }),
		mk("returnval", func() *gen.Node { return gen.Return(id("a")) }),
		mk("break", func() *gen.Node { return gen.Break() }),
		mk("linecomment", func() *gen.Node { return gen.Comment("// c") }),
		mk("blockcomment", func() *gen.Node { return gen.Comment("/* c */") }),
		mk("println", func() *gen.Node { return gen.Println(id("a")) }),
		mk("len", func() *gen.Node { return gen.Builtin("len", id("a")) }),
		mk("dot", func() *gen.Node { return gen.Dot(id("a"), "k") }),
		mk("index", func() *gen.Node { return gen.Index(id("a"), gen.IntLit("0")) }),
		mk("bool", func() *gen.Node { return gen.Bool(true) }),
	}
}
