// Package front wraps grol's lexer, parser and printer for the checks.
package front

import (
	"fmt"
	"strings"

	"grol.io/grol/ast"
	"grol.io/grol/lexer"
	"grol.io/grol/parser"
)

type Parsed struct {
	Prog  *ast.Statements
	Errs  []string
	Cont  bool
	Panic string
}

func (p Parsed) Accepted() bool { return p.Panic == "" && len(p.Errs) == 0 && !p.Cont && p.Prog != nil }

func (p Parsed) Why() string {
	switch {
	case p.Panic != "":
		return "panic: " + p.Panic
	case len(p.Errs) > 0:
		return "errors: " + strings.Join(p.Errs, " | ")
	case p.Cont:
		return "continuation requested"
	}
	return "accepted"
}

// Parse parses text in file mode (lineMode=false) or line mode.
func Parse(text string, lineMode bool) (res Parsed) {
	defer func() {
		if r := recover(); r != nil {
			res.Panic = fmt.Sprint(r)
		}
	}()
	var l *lexer.Lexer
	if lineMode {
		l = lexer.NewLineMode(text)
	} else {
		l = lexer.New(text)
	}
	p := parser.New(l)
	res.Prog = p.ParseProgram()
	res.Errs = p.Errors()
	res.Cont = p.ContinuationNeeded()
	return res
}

// Format prints a tree the way grol -format [-compact] does.
func Format(prog ast.Node, compact bool) (out string, err error) {
	defer func() {
		if r := recover(); r != nil {
			err = fmt.Errorf("PrettyPrint panicked: %v", r)
		}
	}()
	ps := ast.NewPrintState()
	ps.Compact = compact
	prog.PrettyPrint(ps)
	return ps.String(), nil
}
