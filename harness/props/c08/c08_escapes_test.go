// C08 — inputs that END (or are damaged) inside a string-literal escape.
package c08

import (
	"fmt"
	"strings"
	"testing"

	"pgregory.net/rapid"
	"verif/pbt"
)

// escapeAtoms: every kind of backslash escape the lexer knows inside a double-quoted string (one-letter
// escapes, \xHH, \uHHHH, \UHHHHHHHH with digits of both cases, with non-hex digits, with values that are not
// valid runes), the escapes it does not know (\q, \0, \', backslash-newline) and the escaped quote/backslash.
var escapeAtoms = []string{
	`\n`, `\t`, `\r`, `\a`, `\b`, `\f`, `\v`, `\\`, `\"`, `\'`, `\0`, `\q`, "\\\n", "\\`",
	`\x41`, `\x4g`, `\xZZ`, `\x00`, `\xff`, `\xE2`,
	`\u263A`, `\u00e9`, `\uD83D`, `\u0000`, `\u12G4`,
	`\U0001F600`, `\U0010ffff`, `\UFFFFFFFF`, `\U00000000`, `\U0001f6zz`,
}

// plainAtoms: what can stand between the escapes (and what a cut escape can be glued to).
var plainAtoms = []string{
	"", "A", "z9", "é", "☺", " ", "4", "41", "263A", "0001F600", "x", "u", "U", "\\", "'", "`", "\n", "\x00", "\xff", "//", "/*", "*/", "{", ")",
}

type strCtx struct{ pre, post string }

// escapeContexts: where the string literal stands in the program (the text after it only matters for the
// cuts that fall behind the literal and for the damaged, not truncated, variants).
var escapeContexts = []strCtx{
	{"", ""},
	{"s = ", "\n"},
	{"println(", ")"},
	{"m = {", ": 1}"},
	{"[1, ", "][0]"},
	{"f(a, ", ") + 1"},
	{"if x == ", " { 1 }"},
	{"x = \"a\" + ", " // c"},
	{"/* c */ ", "; `r`"},
	{"func f() { return ", " }\nf()"},
}

// cutsOf runs every truncation in[:cut] for cut in [from, len(in)], both modes, skipping inputs already seen.
func cutsOf(t pbt.TB, seen map[string]struct{}, in string, from int, total, nontriv *int64) {
	for cut := from; cut <= len(in); cut++ {
		s := in[:cut]
		if _, dup := seen[s]; dup {
			continue
		}
		seen[s] = struct{}{}
		b := []byte(s)
		pbt.InFlight("escape-cut", Case{Input: b})
		o1, o2 := runBoth(t, "escape-cut", b)
		*total += 2
		if nontrivial(o1) {
			*nontriv++
		}
		if nontrivial(o2) {
			*nontriv++
		}
	}
}

// TestStringEscapeCuts: programs with a double-quoted string holding each escape (alone, between plain text,
// every ordered pair, and in a second string after a complete one), cut at every byte offset from the opening
// quote on; then random strings of escapes and plain pieces in random contexts, truncated, with a hole, or
// with the tail of another literal spliced in.
func TestStringEscapeCuts(t *testing.T) {
	seen := map[string]struct{}{}
	var total, nontriv int64
	idx := 0
	run := func(ctx strCtx, lit string) {
		idx++
		if !pbt.Mine(idx) {
			return
		}
		cutsOf(t, seen, ctx.pre+lit+ctx.post, len(ctx.pre), &total, &nontriv)
	}
	for ci, ctx := range escapeContexts {
		for _, e := range escapeAtoms {
			run(ctx, `"`+e+`"`)
			run(ctx, `"A`+e+`z"`)
			run(ctx, `"☺`+e+`41"`)
			run(ctx, "`"+e+"`") // raw string: the backslash is an ordinary byte
		}
		if ci > 2 {
			continue
		}
		for _, a := range escapeAtoms {
			for _, b := range escapeAtoms {
				run(ctx, `"`+a+b+`"`)
				if ci == 1 {
					run(ctx, `"`+a+`" + "`+b+`"`)
				}
			}
		}
	}
	pbt.AddExact(total, nontriv, "escape-cut:enumerated")
	pbt.Sample("escape-cut", fmt.Sprintf("every truncation, from the opening quote on, of <pre>\"<escape(s)>\"<post> for %d escapes %q (singles in %d contexts, all ordered pairs in 3)",
		len(escapeAtoms), escapeAtoms, len(escapeContexts)))

	atom := rapid.OneOf(rapid.SampledFrom(escapeAtoms), rapid.SampledFrom(escapeAtoms), rapid.SampledFrom(plainAtoms))
	literal := rapid.Custom(func(rt *rapid.T) string {
		q := rapid.SampledFrom([]string{`"`, `"`, `"`, "`"}).Draw(rt, "quote")
		return q + strings.Join(rapid.SliceOfN(atom, 0, 6).Draw(rt, "atoms"), "") + q
	})
	pbt.Check(t, 4000, 400000, func(rt *rapid.T) {
		n := rapid.IntRange(1, 3).Draw(rt, "literals")
		var sb strings.Builder
		var spans [][2]int // where the literals are
		for i := 0; i < n; i++ {
			ctx := rapid.SampledFrom(escapeContexts).Draw(rt, "ctx")
			lit := literal.Draw(rt, "literal")
			sb.WriteString(ctx.pre)
			spans = append(spans, [2]int{sb.Len(), sb.Len() + len(lit)})
			sb.WriteString(lit)
			sb.WriteString(ctx.post)
			sb.WriteString(rapid.SampledFrom([]string{"\n", "; ", " ", " + "}).Draw(rt, "glue"))
		}
		src := sb.String()
		// a position inside (or just behind) one of the literals, most of the time
		pos := func(label string) int {
			if rapid.IntRange(0, 7).Draw(rt, label+"-anywhere") == 0 {
				return rapid.IntRange(0, len(src)).Draw(rt, label)
			}
			sp := rapid.SampledFrom(spans).Draw(rt, label+"-span")
			return rapid.IntRange(sp[0], sp[1]).Draw(rt, label)
		}
		var in, how string
		switch rapid.IntRange(0, 5).Draw(rt, "how") {
		case 0, 1, 2:
			in, how = src[:pos("cut")], "truncated"
		case 3:
			p := pos("hole")
			k := rapid.IntRange(1, 4).Draw(rt, "hole-size")
			in, how = src[:p]+src[min(p+k, len(src)):], "hole"
		case 4:
			// the head up to a cut, then the tail of the text from another cut on (digits of one escape glued to another)
			in, how = src[:pos("head")]+src[pos("tail"):], "spliced"
		default:
			p := pos("end")
			in, how = src[:p]+rapid.SampledFrom([]string{"\\", "\\x", "\\u", "\\U", "\\x4", "\\u2", "\\u263", "\\U0001F60", "\"", "\n", "\x00"}).Draw(rt, "last"), "truncated+tail"
		}
		b := []byte(in)
		pbt.InFlight("escape-cut", Case{Input: b})
		o1, _ := runBoth(rt, "escape-cut", b)
		lbl := "escape-cut:" + how + ":rejected-or-incomplete"
		if o1.accepted {
			lbl = "escape-cut:" + how + ":accepted"
		}
		pbt.Case(nontrivial(o1), in, lbl)
		pbt.Sample("escape-cut-random", in)
	})
}
