// C08 — the front end (lexer + parser + printer) is total on arbitrary bytes.
package c08

import (
	"encoding/json"
	"fmt"
	"os"
	"path/filepath"
	"regexp"
	"sort"
	"strings"
	"testing"

	"grol.io/grol/ast"
	"grol.io/grol/lexer"
	"grol.io/grol/parser"
	"pgregory.net/rapid"
	"verif/dump"
	"verif/pbt"
)

func TestMain(m *testing.M) {
	pbt.Main(m, pbt.Meta{
		Property: "C08",
		Level:    "exploration",
		Rule: "byte strings parsed in file mode and line mode under recover(); oracle: no panic from parser.New/ParseProgram/Errors/ContinuationNeeded; when there are " +
			"no errors and no continuation request the tree has no missing child (canonical dump) and PrettyPrint in normal, compact and all-parens mode does not panic; " +
			"every error message's echoed source text is a substring of the input. Enumerated completely: all sequences of up to 3 (quick) / 4 (thorough) " +
			"tokens over a 67-exemplar token alphabet, joined with and without spaces. Plus rapid: random token sequences up to 40, every truncation and random byte mutations of the " +
			"shipped examples. Strings with every kind of escape (one-letter, \\x, \\u, \\U, unknown, backslash-newline; alone, in ordered pairs, in several contexts) cut at every byte offset, plus rapid: such strings truncated, with a hole, or spliced. Non-trivial: the input is NOT cleanly accepted (errors or continuation), or is accepted with >= 2 statements; enumeration distinct by construction, random by bytes.",
		Assumptions: []string{
			"termination is observed through the driver's per-shard timeout: the case (or enumeration batch) in flight is stored and re-run alone; inputs are at most a few hundred bytes",
			"a continuation request in file mode (unterminated block comment) is accepted as 'asks for more input'",
		},
		Exhaustive:      true,
		ExhaustiveBound: "all token sequences of length <= 3 (quick) / <= 4 (thorough) over the 67-token alphabet, 2 spacings, 2 lexer modes",
	})
}

var tokens = []string{
	"func", "true", "false", "if", "else", "return", "for", "break", "continue", "macro", "quote", "unquote",
	"len", "first", "rest", "print", "println", "log", "error", "catch", "del",
	"9223372036854775808", "=", ":=", "+", "-", "!", "*", "/", "%", "<", ">", "&", "|", "^", "~", ",", ";", "(", ")", "{", "}", "[", "]", ":", ".",
	"<=", ">=", "==", "!=", "++", "--", "..", "||", "&&", "<<", ">>", "=>",
	"x", "1", "1.5", `"s"`, "`r`", "// c\n", "/* c */", "\n", "@", `"`, "/*",
}

type Case struct {
	Input    []byte `json:"input"`
	LineMode bool   `json:"line_mode"`
}

type outcome struct {
	errs     int
	cont     bool
	stmts    int
	accepted bool
}

var caretRe = regexp.MustCompile(`\n( *)\^$`)

func check(c Case) (out outcome, err error) {
	stage := "parser.New"
	defer func() {
		if r := recover(); r != nil {
			err = fmt.Errorf("panic in %s on input %q (line mode %v): %v", stage, c.Input, c.LineMode, r)
		}
	}()
	var l *lexer.Lexer
	if c.LineMode {
		l = lexer.NewLineMode(string(c.Input))
	} else {
		l = lexer.NewBytes(append([]byte(nil), c.Input...))
	}
	p := parser.New(l)
	stage = "ParseProgram"
	prog := p.ParseProgram()
	stage = "Errors"
	errs := p.Errors()
	stage = "ContinuationNeeded"
	cont := p.ContinuationNeeded()
	out.errs, out.cont = len(errs), cont
	if prog == nil && len(errs) == 0 && !cont {
		return out, fmt.Errorf("input %q: no tree, no error, no continuation", c.Input)
	}
	in := string(c.Input)
	for _, e := range errs {
		m := caretRe.FindStringSubmatchIndex(e)
		if m == nil {
			continue // message without a source echo
		}
		rest := e[:m[0]]
		// The echo may span several lines (newlines inside strings and comments do not start a new
		// "current line"); its last line, at least, is a piece of the input.
		if last := rest[strings.LastIndexByte(rest, '\n')+1:]; !strings.Contains(in, last) {
			return out, fmt.Errorf("input %q: error message echoes %q which is not part of the input: %q", c.Input, last, e)
		}
	}
	if len(errs) > 0 || cont {
		return out, nil
	}
	out.accepted = true
	out.stmts = len(prog.Statements)
	stage = "dump"
	_, missing := dump.Dump(prog, dump.Options{})
	if len(missing) > 0 {
		return out, fmt.Errorf("input %q (line mode %v) is accepted without error or continuation but the tree has missing children: %v", c.Input, c.LineMode, missing)
	}
	for _, mode := range []string{"normal", "compact", "allparens"} {
		stage = "PrettyPrint " + mode
		ps := ast.NewPrintState()
		ps.Compact = mode == "compact"
		ps.AllParens = mode == "allparens"
		prog.PrettyPrint(ps)
		_ = ps.String()
	}
	return out, nil
}

func runBoth(t pbt.TB, kind string, in []byte) (outcome, outcome) {
	var o [2]outcome
	for i, lm := range []bool{false, true} {
		c := Case{Input: in, LineMode: lm}
		var err error
		o[i], err = check(c)
		if err != nil {
			pbt.Fail(t, kind, c, "%v", err)
		}
	}
	return o[0], o[1]
}

func nontrivial(o outcome) bool { return !o.accepted || o.stmts >= 2 }

type Batch struct {
	Prefix []int `json:"prefix"`
	Len    int   `json:"len"`
}

func runBatch(t pbt.TB, b Batch) (total, nontriv int64) {
	idxs := make([]int, b.Len)
	copy(idxs, b.Prefix)
	var rec func(pos int)
	rec = func(pos int) {
		if pos == b.Len {
			parts := make([]string, b.Len)
			for i, ix := range idxs {
				parts[i] = tokens[ix]
			}
			for _, sep := range []string{"", " "} {
				in := []byte(strings.Join(parts, sep))
				o1, o2 := runBoth(t, "exhaustive", in)
				total += 2
				if nontrivial(o1) {
					nontriv++
				}
				if nontrivial(o2) {
					nontriv++
				}
				if b.Len <= 1 {
					break
				}
			}
			return
		}
		for i := range tokens {
			idxs[pos] = i
			rec(pos + 1)
		}
	}
	rec(len(b.Prefix))
	return total, nontriv
}

func TestExhaustiveTokens(t *testing.T) {
	maxLen := pbt.N(3, 4)
	var total, nontriv int64
	idx := 0
	for l := 0; l <= maxLen; l++ {
		if l <= 1 {
			idx++
			if pbt.Mine(idx) {
				a, b := runBatch(t, Batch{Len: l})
				total, nontriv = total+a, nontriv+b
			}
			continue
		}
		for i := range tokens {
			for j := range tokens {
				idx++
				if !pbt.Mine(idx) {
					continue
				}
				b := Batch{Prefix: []int{i, j}, Len: l}
				pbt.InFlight("batch", b)
				a, c := runBatch(t, b)
				total, nontriv = total+a, nontriv+c
			}
		}
	}
	// joined inputs can coincide (e.g. "+" "+" and "++"); distinctness is by token sequence x spacing x mode
	pbt.AddExact(total, nontriv, "exhaustive")
	pbt.Sample("exhaustive", fmt.Sprintf("all token sequences of length <= %d over %q", maxLen, tokens))
}

var corpus = func() [][]byte {
	var out [][]byte
	for _, g := range []string{"/repo/examples/*.gr", "/repo/tests/*.gr"} {
		files, _ := filepath.Glob(g)
		sort.Strings(files)
		for _, f := range files {
			if b, err := os.ReadFile(f); err == nil && len(b) < 6000 {
				out = append(out, b)
			}
		}
	}
	out = append(out, []byte("func f(a,b){if a<b {return [a,b]} else {x={\"k\":a}; x.k}}\nf(1,2)[0:1]\n"))
	return out
}()

func TestRandomTokens(t *testing.T) {
	pbt.Check(t, 30000, 2000000, func(rt *rapid.T) {
		parts := rapid.SliceOfN(rapid.SampledFrom(tokens), 1, 40).Draw(rt, "tokens")
		sep := rapid.SampledFrom([]string{"", " ", "\n"}).Draw(rt, "sep")
		in := []byte(strings.Join(parts, sep))
		pbt.InFlight("random-tokens", Case{Input: in})
		o1, _ := runBoth(rt, "random-tokens", in)
		lbl := "tokens:rejected-or-incomplete"
		if o1.accepted {
			lbl = "tokens:accepted"
		}
		pbt.Case(nontrivial(o1), string(in), lbl)
		pbt.Sample("random-tokens", string(in))
	})
}

func TestTruncationsAndMutations(t *testing.T) {
	if len(corpus) < 5 {
		t.Fatalf("harness: corpus of shipped examples not found (%d files)", len(corpus))
	}
	// every truncation of every corpus file (deterministic, split over shards)
	idx := 0
	var total, nontriv int64
	for _, src := range corpus {
		step := 1
		if !pbt.Thorough() && len(src) > 1500 {
			step = 3
		}
		for cut := 0; cut <= len(src); cut += step {
			idx++
			if !pbt.Mine(idx) {
				continue
			}
			in := src[:cut]
			pbt.InFlight("truncation", Case{Input: in})
			o1, o2 := runBoth(t, "truncation", in)
			total += 2
			if nontrivial(o1) {
				nontriv++
			}
			if nontrivial(o2) {
				nontriv++
			}
		}
	}
	pbt.AddExact(total, nontriv, "truncation")
	hostile := []byte{0, 0xff, '"', '`', '/', '*', '\\', '\n', '{', '}', '(', ')', '[', ']', ':', '=', '>', '.', ',', ';', '@', '-', '+'}
	pbt.Check(t, 15000, 1000000, func(rt *rapid.T) {
		src := append([]byte(nil), rapid.SampledFrom(corpus).Draw(rt, "file")...)
		if len(src) > 800 {
			start := rapid.IntRange(0, len(src)-800).Draw(rt, "start")
			src = src[start : start+800]
		}
		n := rapid.IntRange(1, 6).Draw(rt, "edits")
		for i := 0; i < n && len(src) > 0; i++ {
			pos := rapid.IntRange(0, len(src)-1).Draw(rt, "pos")
			switch rapid.IntRange(0, 3).Draw(rt, "how") {
			case 0:
				src[pos] = rapid.SampledFrom(hostile).Draw(rt, "byte")
			case 1:
				src = append(src[:pos], src[pos+1:]...)
			case 2:
				src = append(src[:pos], append([]byte{rapid.SampledFrom(hostile).Draw(rt, "ins")}, src[pos:]...)...)
			default:
				src[pos] = rapid.Byte().Draw(rt, "any")
			}
		}
		pbt.InFlight("mutation", Case{Input: src})
		o1, _ := runBoth(rt, "mutation", src)
		lbl := "mutation:rejected-or-incomplete"
		if o1.accepted {
			lbl = "mutation:accepted"
		}
		pbt.Case(nontrivial(o1), string(src), lbl)
		pbt.Sample("mutation", string(src))
	})
}

func FuzzParse(f *testing.F) {
	for _, c := range corpus {
		f.Add(c)
	}
	for _, tk := range tokens {
		f.Add([]byte(tk))
	}
	f.Fuzz(func(t *testing.T, in []byte) {
		if len(in) > 2000 {
			return
		}
		runBoth(t, "fuzz", in)
	})
}

func oracle(kind string, raw json.RawMessage) error {
	if kind == "batch" {
		var b Batch
		if err := json.Unmarshal(raw, &b); err != nil {
			return err
		}
		var ferr error
		runBatch(failer{&ferr}, b)
		return ferr
	}
	var c Case
	if err := json.Unmarshal(raw, &c); err != nil {
		return err
	}
	if kind == "random-tokens" || kind == "truncation" || kind == "mutation" || kind == "fuzz" || kind == "escape-cut" {
		// stored in-flight cases carry no mode: try both
		for _, lm := range []bool{c.LineMode, !c.LineMode} {
			if _, err := check(Case{Input: c.Input, LineMode: lm}); err != nil {
				return err
			}
		}
		return nil
	}
	_, err := check(c)
	return err
}

type failer struct{ err *error }

func (f failer) Helper() {}
func (f failer) Fatalf(format string, args ...any) {
	if *f.err == nil {
		*f.err = fmt.Errorf(format, args...)
	}
}

func TestReplay(t *testing.T)   { pbt.RunReplay(t, oracle) }
func TestARegress(t *testing.T) { pbt.RunRegress(t, "C08", oracle) }

// Fragments: small well-formed and ill-formed pieces of programs. All ordered pairs (and random longer
// sequences) joined by each separator: parser state that survives from one statement into the next (counters,
// flags, pending errors) shows when a complete piece cancels or masks the defect of another.
var fragments = []string{
	"-9223372036854775808", "- -9223372036854775808 + 1", "a = 1", "b = a[1:3]", "c = a[1:]", "a[0]", "a[-1:2][0]", "[2:]", "(1:]", "[true:]", "x = [1:", "[1, 2][1:]", "m = {1:2}", "{1:}", "m[1:2]",
	"f(x)", "f(", "f(1,", ")", "]", "}", "(", "[", "{", "()", "() =>", "() => 1", "(a, b) => a", "(a, 1) => a", "x =>", "=> 1",
	"func f() { 1 }", "func f(", "func(a,", "func f() {", "func(..) { .. }", "func(.., a) { a }",
	"if a { 1 }", "if a { 1 } else { 2 }", "if a {", "else { 1 }", "if { 1 }", "if a { 1 } else", "if a { 1 } else if b { 2 }",
	"for i = 3 { i }", "for i = 1:3 { i }", "for { }", "for a {", "for i = { }", "break", "continue", "return", "return 1",
	"1 +", "+ 1", "a = ", "= 1", "a := 1", "a.b", "a.", ".b", "a.1", "1.2.3", "1e", "a++", "++a", "a--b", "a ++ b", "!", "!a", "- -a", "a ? b",
	"\"str\"", "\"open", "`raw`", "`open", "// comment", "/* block */", "/* open", "a /* c */ + 1", "macro(x) { quote(unquote(x)) }", "m2 = macro(", "quote(", "unquote(1)",
	"println(1)", "println(", "len()", "len(1, 2)", "error(\"e\")", "catch(1/0)", "del(a)", "del()", "info", "first([1])", "1; 2", ";", ";;", "@", "$x", "\x00", "\xff",
}

func TestFragments(t *testing.T) {
	seps := []string{" ", "\n", "; ", ""}
	var total, nontriv int64
	idx := 0
	for i, a := range fragments {
		for j, b := range fragments {
			idx++
			if !pbt.Mine(idx) {
				continue
			}
			_ = i
			_ = j
			for _, sep := range seps {
				in := []byte(a + sep + b)
				o1, o2 := runBoth(t, "fragments", in)
				total += 2
				if nontrivial(o1) {
					nontriv++
				}
				if nontrivial(o2) {
					nontriv++
				}
			}
		}
	}
	pbt.AddExact(total, nontriv, "fragments:all-pairs")
	pbt.Sample("fragments", fmt.Sprintf("all ordered pairs of %d fragments x separators %q", len(fragments), seps))
	pbt.Check(t, 20000, 600000, func(rt *rapid.T) {
		parts := rapid.SliceOfN(rapid.SampledFrom(fragments), 3, 6).Draw(rt, "fragments")
		sep := rapid.SampledFrom(seps[:3]).Draw(rt, "sep")
		in := []byte(strings.Join(parts, sep))
		pbt.InFlight("fragments", Case{Input: in})
		o1, _ := runBoth(rt, "fragments", in)
		lbl := "fragments:rejected-or-incomplete"
		if o1.accepted {
			lbl = "fragments:accepted"
		}
		pbt.Case(nontrivial(o1), string(in), lbl)
		pbt.Sample("fragment-sequences", string(in))
	})
}
