// C12 — ordering and equality are coherent and total.
package c12

import (
	"encoding/json"
	"fmt"
	"strings"
	"testing"

	"grol.io/grol/object"
	"pgregory.net/rapid"
	"verif/pbt"
	"verif/sess"
	"verif/val"
)

func TestMain(m *testing.M) {
	sess.Init()
	pbt.Main(m, pbt.Meta{
		Property: "C12",
		Level:    "exploration",
		Rule: "values written as grol expressions and evaluated to objects; laws checked on object.Cmp/object.Equals (no panic, reflexive, " +
			"antisymmetric, transitive, Equals an equivalence implying Cmp==0, equal to an independently built copy) and through source " +
			"(a<b iff b>a, a<=b iff !(a>b), a>=b iff !(a<b), a==b iff !(a!=b), min/max agree with <, map literal key order and lookup agree with the order). " +
			"Enumerated completely: all ordered pairs and all triples of the curated universe (numeric boundaries around 2^53 and 2^63, -0, NaN, infinities, " +
			"strings incl. non-UTF-8, small/large arrays and maps, nested, functions, extensions, quotes); plus rapid triples of nested values " +
			"biased to 'almost equal'. Non-trivial: the values are not all identical and mix two types or contain a boundary number; enumeration is distinct by construction, random triples by text.",
		Assumptions: []string{
			"min/max through source are not checked when an operand is an array (a trailing array argument is spread into the variadic call by design)",
			"functions are compared as the language defines it (by their printed text without name)",
		},
		Exhaustive:      true,
		ExhaustiveBound: "all ordered pairs and all ordered triples of the curated universe listed in props/c12 (universe size in coverage.x_universe)",
	})
}

// universe: grol expressions. Each must evaluate without error in a fresh state.
var universe = []string{
	// integers
	"0", "1", "(-1)", "2", "9007199254740991", "9007199254740992", "9007199254740993", "(-9007199254740993)",
	"9223372036854775807", "9223372036854775806", "(-9223372036854775807-1)", "(-9223372036854775807)",
	// floats
	"0.0", "(-0.0)", "0.5", "1.0", "(-1.0)", "1.5", "9007199254740992.0", "9007199254740994.0", "(-9007199254740992.0)",
	"9223372036854775808.0", "9223372036854774784.0", "(-9223372036854775808.0)", "1e300", "5e-324", "Inf", "(-Inf)", "NaN",
	// booleans, nil
	"true", "false", "nil",
	// strings
	`""`, `"a"`, `"aa"`, `"b"`, `"\xff"`, `"\x00"`, `"1"`,
	// arrays
	"[]", "[0]", "[1]", "[1.0]", "[1,2]", "[2,1]", "[[1]]", "[9007199254740993]", "[9007199254740992.0]", "[NaN]", "[nil]", `["a"]`,
	"[0,0,0,0,0,0,0,0,0]", "[0,0,0,0,0,0,0,0,1]", "[0,0,0,0,0,0,0,0]",
	// maps
	"{}", "{1:1}", "{1:2}", "{2:1}", "{1.0:1}", `{"a":1}`, "{1:1,2:2}", "{nil:nil}", "{[1]:1}",
	"{1:1,2:2,3:3,4:4,5:5}", "{1:1,2:2,3:3,4:4,5:6}", "{1:1,2:2,3:3,4:4}", "{9007199254740993:1}", "{9007199254740992.0:1}",
	// functions and extensions
	"x=>x", "x=>x+1", "func(x){x}", "func named(x){x}", "(x,y)=>x", "sin", "cos", "min",
	// quotes
	"quote(1)", "quote(x)", "quote(1+2)",
}

type Case struct {
	Exprs []string `json:"exprs"`
}

func sign(i int) int {
	switch {
	case i < 0:
		return -1
	case i > 0:
		return 1
	}
	return 0
}

func safeCmp(a, b object.Object) (c int, err error) {
	defer func() {
		if r := recover(); r != nil {
			err = fmt.Errorf("object.Cmp panicked: %v", r)
		}
	}()
	return object.Cmp(a, b), nil
}

func safeEq(a, b object.Object) (c bool, err error) {
	defer func() {
		if r := recover(); r != nil {
			err = fmt.Errorf("object.Equals panicked: %v", r)
		}
	}()
	return object.Equals(a, b), nil
}

func evalAll(s *sess.S, exprs []string) ([]object.Object, error) {
	out := make([]object.Object, len(exprs))
	for i, e := range exprs {
		o, err := s.Obj(e)
		if err != nil {
			return nil, fmt.Errorf("universe expression %q does not evaluate: %v", e, err)
		}
		out[i] = o
	}
	return out, nil
}

// pairLaws checks everything that concerns an ordered pair at API level.
func pairLaws(ea, eb string, a, b, a2 object.Object) error {
	cab, err := safeCmp(a, b)
	if err != nil {
		return fmt.Errorf("Cmp(%s, %s): %v", ea, eb, err)
	}
	cba, err := safeCmp(b, a)
	if err != nil {
		return fmt.Errorf("Cmp(%s, %s): %v", eb, ea, err)
	}
	if sign(cab) != -sign(cba) {
		return fmt.Errorf("antisymmetry: Cmp(%s, %s) = %d but Cmp(%s, %s) = %d", ea, eb, cab, eb, ea, cba)
	}
	eab, err := safeEq(a, b)
	if err != nil {
		return fmt.Errorf("Equals(%s, %s): %v", ea, eb, err)
	}
	eba, err := safeEq(b, a)
	if err != nil {
		return fmt.Errorf("Equals(%s, %s): %v", eb, ea, err)
	}
	if eab != eba {
		return fmt.Errorf("symmetry: Equals(%s, %s) = %v but Equals(%s, %s) = %v", ea, eb, eab, eb, ea, eba)
	}
	if eab && cab != 0 {
		return fmt.Errorf("Equals(%s, %s) is true but Cmp = %d", ea, eb, cab)
	}
	if ea == eb {
		if cab != 0 {
			return fmt.Errorf("reflexivity: Cmp(%s, itself) = %d", ea, cab)
		}
		if !eab {
			return fmt.Errorf("reflexivity: Equals(%s, itself) = false", ea)
		}
		if c2, err := safeCmp(a, a2); err != nil || c2 != 0 {
			return fmt.Errorf("Cmp(%s, independently built copy) = %d %v", ea, c2, err)
		}
		if e2, err := safeEq(a, a2); err != nil || !e2 {
			return fmt.Errorf("Equals(%s, independently built copy) = %v %v", ea, e2, err)
		}
	}
	return nil
}

func tripleLaws(ea, eb, ec string, a, b, c object.Object) error {
	ab, e1 := safeCmp(a, b)
	bc, e2 := safeCmp(b, c)
	ac, e3 := safeCmp(a, c)
	if e1 != nil || e2 != nil || e3 != nil {
		return fmt.Errorf("Cmp panicked on (%s, %s, %s): %v %v %v", ea, eb, ec, e1, e2, e3)
	}
	if ab <= 0 && bc <= 0 && ac > 0 {
		return fmt.Errorf("transitivity: %s <= %s (Cmp %d) and %s <= %s (Cmp %d) but Cmp(%s, %s) = %d", ea, eb, ab, eb, ec, bc, ea, ec, ac)
	}
	if ab == 0 && bc == 0 && ac != 0 {
		return fmt.Errorf("equivalence not transitive: Cmp(%s,%s)=0, Cmp(%s,%s)=0 but Cmp(%s,%s)=%d", ea, eb, eb, ec, ea, ec, ac)
	}
	// strictness must carry too: a<b<=c  => a<c
	if ab < 0 && bc <= 0 && ac >= 0 {
		return fmt.Errorf("transitivity: %s < %s and %s <= %s but Cmp(%s, %s) = %d", ea, eb, eb, ec, ea, ec, ac)
	}
	xab, _ := safeEq(a, b)
	xbc, _ := safeEq(b, c)
	xac, _ := safeEq(a, c)
	if xab && xbc && !xac {
		return fmt.Errorf("== not transitive: %s == %s, %s == %s but %s != %s", ea, eb, eb, ec, ea, ec)
	}
	return nil
}

func boolOf(s *sess.S, src string) (bool, error) {
	o, err := s.Obj(src)
	if err != nil {
		return false, fmt.Errorf("%s: %v", src, err)
	}
	b, ok := o.(object.Boolean)
	if !ok {
		return false, fmt.Errorf("%s: result is %s, not a boolean", src, o.Type())
	}
	return b.Value, nil
}

func isArrayExpr(e string) bool { return strings.HasPrefix(e, "[") }

// sourceLaws checks the operators, min/max and map behaviour on one ordered pair through grol source.
func sourceLaws(s *sess.S, ea, eb string, a, b object.Object) error {
	get := func(op string) (bool, error) { return boolOf(s, "("+ea+") "+op+" ("+eb+")") }
	rget := func(op string) (bool, error) { return boolOf(s, "("+eb+") "+op+" ("+ea+")") }
	lt, err := get("<")
	if err != nil {
		return err
	}
	gt, err := get(">")
	if err != nil {
		return err
	}
	le, err := get("<=")
	if err != nil {
		return err
	}
	ge, err := get(">=")
	if err != nil {
		return err
	}
	eq, err := get("==")
	if err != nil {
		return err
	}
	ne, err := get("!=")
	if err != nil {
		return err
	}
	rgt, err := rget(">")
	if err != nil {
		return err
	}
	rlt, err := rget("<")
	if err != nil {
		return err
	}
	switch {
	case lt != rgt:
		return fmt.Errorf("(%s < %s) = %v but (%s > %s) = %v", ea, eb, lt, eb, ea, rgt)
	case gt != rlt:
		return fmt.Errorf("(%s > %s) = %v but (%s < %s) = %v", ea, eb, gt, eb, ea, rlt)
	case le != !gt:
		return fmt.Errorf("(%s <= %s) = %v but (%s > %s) = %v", ea, eb, le, ea, eb, gt)
	case ge != !lt:
		return fmt.Errorf("(%s >= %s) = %v but (%s < %s) = %v", ea, eb, ge, ea, eb, lt)
	case eq == ne:
		return fmt.Errorf("(%s == %s) = %v and (%s != %s) = %v", ea, eb, eq, ea, eb, ne)
	case lt && gt:
		return fmt.Errorf("%s is both < and > %s", ea, eb)
	case eq && (lt || gt):
		return fmt.Errorf("%s == %s yet also strictly ordered", ea, eb)
	}
	c, _ := safeCmp(a, b)
	if lt != (c < 0) || gt != (c > 0) {
		return fmt.Errorf("operators disagree with Cmp(%s, %s) = %d: < is %v, > is %v", ea, eb, c, lt, gt)
	}
	if !isArrayExpr(eb) {
		for _, fn := range []string{"min", "max"} {
			// result must be one of the two and not beaten by the other
			src := fmt.Sprintf("r = %s((%s), (%s)); [r == (%s) || r == (%s), r < (%s), r < (%s), r > (%s), r > (%s)]", fn, ea, eb, ea, eb, ea, eb, ea, eb)
			o, err := s.Obj(src)
			if err != nil {
				return fmt.Errorf("%s: %v", src, err)
			}
			els := object.Elements(o)
			if len(els) != 5 {
				return fmt.Errorf("%s: unexpected result %s", src, o.Inspect())
			}
			bv := func(i int) bool { return els[i] == object.TRUE }
			if !bv(0) {
				return fmt.Errorf("%s(%s, %s) is neither argument", fn, ea, eb)
			}
			if fn == "min" && (bv(3) || bv(4)) {
				return fmt.Errorf("min(%s, %s) is greater than an argument", ea, eb)
			}
			if fn == "max" && (bv(1) || bv(2)) {
				return fmt.Errorf("max(%s, %s) is smaller than an argument", ea, eb)
			}
		}
	}
	// map behaviour: keys ordered by the order, lookup by order-equivalence
	src := fmt.Sprintf("m = {(%s): \"A\", (%s): \"B\"}; [len(m), first(m).value, m[(%s)], m[(%s)]]", ea, eb, ea, eb)
	o, err := s.Obj(src)
	if err != nil {
		return fmt.Errorf("%s: %v", src, err)
	}
	els := object.Elements(o)
	if len(els) != 4 {
		return fmt.Errorf("%s: unexpected result %s", src, o.Inspect())
	}
	n := els[0].(object.Integer).Value
	str := func(i int) string {
		if sv, ok := els[i].(object.String); ok {
			return sv.Value
		}
		return els[i].Inspect()
	}
	if c == 0 {
		if n != 1 || str(2) != "B" || str(3) != "B" {
			return fmt.Errorf("keys %s and %s are order-equivalent but the literal map has len %d, m[a]=%s m[b]=%s", ea, eb, n, str(2), str(3))
		}
	} else {
		if n != 2 || str(2) != "A" || str(3) != "B" {
			return fmt.Errorf("keys %s and %s differ (Cmp %d) but the literal map has len %d, m[a]=%s m[b]=%s", ea, eb, c, n, str(2), str(3))
		}
		wantFirst := "A"
		if c > 0 {
			wantFirst = "B"
		}
		if str(1) != wantFirst {
			return fmt.Errorf("map {%s:A, %s:B}: first value is %s, the order (Cmp %d) says %s", ea, eb, str(1), c, wantFirst)
		}
	}
	return nil
}

func boundaryOrMixed(exprs ...string) bool {
	if len(exprs) == 0 {
		return false
	}
	allSame := true
	for _, e := range exprs[1:] {
		if e != exprs[0] {
			allSame = false
		}
	}
	return !allSame
}

func checkCase(c Case) error {
	s := sess.New(sess.Config{})
	objs, err := evalAll(s, c.Exprs)
	if err != nil {
		return err
	}
	s2 := sess.New(sess.Config{})
	objs2, err := evalAll(s2, c.Exprs)
	if err != nil {
		return err
	}
	for i := range objs {
		for j := range objs {
			a2 := objs2[i]
			if err := pairLaws(c.Exprs[i], c.Exprs[j], objs[i], objs[j], a2); err != nil {
				return err
			}
			if err := sourceLaws(s, c.Exprs[i], c.Exprs[j], objs[i], objs[j]); err != nil {
				return err
			}
		}
	}
	for i := range objs {
		for j := range objs {
			for k := range objs {
				if err := tripleLaws(c.Exprs[i], c.Exprs[j], c.Exprs[k], objs[i], objs[j], objs[k]); err != nil {
					return err
				}
			}
		}
	}
	return nil
}

func TestUniverse(t *testing.T) {
	s := sess.New(sess.Config{})
	objs, err := evalAll(s, universe)
	if err != nil {
		t.Fatalf("harness: %v", err)
	}
	s2 := sess.New(sess.Config{})
	objs2, err := evalAll(s2, universe)
	if err != nil {
		t.Fatalf("harness: %v", err)
	}
	n := len(universe)
	pbt.Extra("universe", float64(n))
	idx := 0
	for i := 0; i < n; i++ {
		for j := 0; j < n; j++ {
			idx++
			if !pbt.Mine(idx) {
				continue
			}
			c := Case{Exprs: []string{universe[i], universe[j]}}
			if err := pairLaws(universe[i], universe[j], objs[i], objs[j], objs2[i]); err != nil {
				pbt.Fail(t, "pair", c, "%v", err)
			}
			if err := sourceLaws(s, universe[i], universe[j], objs[i], objs[j]); err != nil {
				pbt.Fail(t, "pair", c, "%v", err)
			}
			pbt.CaseExact(i != j, "pair")
			for k := 0; k < n; k++ {
				if err := tripleLaws(universe[i], universe[j], universe[k], objs[i], objs[j], objs[k]); err != nil {
					pbt.Fail(t, "triple", Case{Exprs: []string{universe[i], universe[j], universe[k]}}, "%v", err)
				}
			}
			pbt.AddExact(int64(n), int64(n)-1, "triple")
		}
	}
	pbt.Sample("pair", []string{universe[5], universe[18]})
	pbt.Sample("triple", []string{universe[6], universe[18], universe[5]})
}

// ---- random nested values ---------------------------------------------------------------

var leafInts = []int64{0, 1, -1, 2, 3, 1 << 53, 1<<53 + 1, 1<<53 - 1, -(1 << 53) - 1, 1<<63 - 1, -1 << 63, 1<<62 + 1}
var leafFloats = []float64{0, 0.5, 1, -1, 2, 9007199254740992, 9007199254740994, 9223372036854775808, -9223372036854775808, 1e300}

func genVal(depth int) *rapid.Generator[val.V] {
	return rapid.Custom(func(t *rapid.T) val.V {
		k := rapid.IntRange(0, 9).Draw(t, "kind")
		if depth <= 0 && k >= 7 {
			k = rapid.IntRange(0, 6).Draw(t, "leafkind")
		}
		switch k {
		case 0, 1:
			return val.I(rapid.SampledFrom(leafInts).Draw(t, "i"))
		case 2:
			return val.I(rapid.Int64().Draw(t, "i64"))
		case 3:
			return val.F(rapid.SampledFrom(leafFloats).Draw(t, "f"))
		case 4:
			switch rapid.IntRange(0, 3).Draw(t, "special") {
			case 0:
				return val.F(rapid.Float64().Draw(t, "f64"))
			case 1:
				return val.B(rapid.Bool().Draw(t, "b"))
			case 2:
				return val.N()
			default:
				return val.F(float64(rapid.Int64().Draw(t, "fi")))
			}
		case 5, 6:
			return val.S(rapid.StringOfN(rapid.RuneFrom([]rune{'a', 'b', 0, 0xff, 'é'}), 0, 3, -1).Draw(t, "s"))
		case 7, 8:
			n := rapid.SampledFrom([]int{0, 1, 2, 3, 8, 9}).Draw(t, "alen")
			els := make([]val.V, n)
			for i := range els {
				els[i] = genVal(depth-1).Draw(t, "el")
			}
			return val.A(els...)
		default:
			n := rapid.SampledFrom([]int{0, 1, 2, 4, 5, 6}).Draw(t, "mlen")
			m := val.M()
			for i := 0; i < n; i++ {
				m = m.Set(genVal(depth-1).Draw(t, "k"), genVal(depth-1).Draw(t, "v"))
			}
			return m
		}
	})
}

// mutate returns a value that differs from v in (at most) one leaf.
func mutate(t *rapid.T, v val.V) val.V {
	switch v.K {
	case val.Arr:
		if len(v.A) == 0 {
			return val.A(val.I(0))
		}
		i := rapid.IntRange(0, len(v.A)-1).Draw(t, "mi")
		c := v.Copy()
		c.A[i] = mutate(t, c.A[i])
		return c
	case val.Map:
		if len(v.M) == 0 {
			return val.M(val.KV{K: val.I(0), V: val.I(0)})
		}
		i := rapid.IntRange(0, len(v.M)-1).Draw(t, "mi")
		c := v.Copy()
		if rapid.Bool().Draw(t, "mutval") {
			c.M[i].V = mutate(t, c.M[i].V)
			return c
		}
		k := c.M[i].K
		vv := c.M[i].V
		c, _ = c.Del(k)
		return c.Set(mutate(t, k), vv)
	case val.Int:
		switch rapid.IntRange(0, 2).Draw(t, "how") {
		case 0:
			return val.I(v.I + 1)
		case 1:
			return val.F(float64(v.I))
		default:
			return val.I(v.I - 1)
		}
	case val.Float:
		if rapid.Bool().Draw(t, "toint") && v.F > -9e18 && v.F < 9e18 {
			return val.I(int64(v.F))
		}
		return val.F(v.F + 1)
	case val.Str:
		return val.S(v.S + "a")
	case val.Bool:
		return val.B(!v.B)
	}
	return val.I(0)
}

func TestRandomTriples(t *testing.T) {
	pbt.Check(t, 2500, 120000, func(rt *rapid.T) {
		a := genVal(3).Draw(rt, "a")
		var b, c val.V
		if rapid.IntRange(0, 3).Draw(rt, "related") > 0 {
			b = mutate(rt, a)
		} else {
			b = genVal(3).Draw(rt, "b")
		}
		if rapid.Bool().Draw(rt, "related2") {
			c = mutate(rt, b)
		} else {
			c = genVal(2).Draw(rt, "c")
		}
		cs := Case{Exprs: []string{a.Src(), b.Src(), c.Src()}}
		if err := checkCase(cs); err != nil {
			pbt.Fail(rt, "random-triple", cs, "%v", err)
		}
		// cross-check the implementation's order against the reference order of package val
		s := sess.New(sess.Config{})
		objs, err := evalAll(s, cs.Exprs)
		if err != nil {
			pbt.Fail(rt, "random-triple", cs, "%v", err)
		}
		vs := []val.V{a, b, c}
		for i := range vs {
			for j := range vs {
				got, _ := safeCmp(objs[i], objs[j])
				if want := val.Cmp(vs[i], vs[j]); sign(got) != want {
					pbt.Fail(rt, "random-triple", cs, "Cmp(%s, %s) = %d, the reference order says %d", cs.Exprs[i], cs.Exprs[j], got, want)
				}
			}
		}
		mixed := a.K != b.K || b.K != c.K
		lbl := "random:same-kind"
		if mixed {
			lbl = "random:mixed-kinds"
		}
		pbt.Case(boundaryOrMixed(cs.Exprs...), strings.Join(cs.Exprs, " | "), lbl)
		pbt.Sample("random-triple", cs.Exprs)
	})
}

func oracle(kind string, raw json.RawMessage) error {
	var c Case
	if err := json.Unmarshal(raw, &c); err != nil {
		return err
	}
	return checkCase(c)
}

func TestReplay(t *testing.T)   { pbt.RunReplay(t, oracle) }
func TestARegress(t *testing.T) { pbt.RunRegress(t, "C12", oracle) }
