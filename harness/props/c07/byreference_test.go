package c07

import (
	"fmt"
	"strings"
	"testing"

	"pgregory.net/rapid"
	"verif/pbt"
)

// ---- library functions applied to names instead of values ------------------------------------------------------
//
// At top level an identifier evaluates to its value. Inside a function body a name of an enclosing scope evaluates to
// a REFERENCE object, and an integer parameter or loop variable to a REGISTER: arguments an extension declares as
// ANY, and the extra arguments of a variadic one, reach the callback in that form (that is how type() can show them).
// TestExtensions only calls at top level with literals; here every registered extension (and the builtins that take
// arguments) is called from inside functions with names of every kind.

// the names the prelude defines, one (or more) of every kind
var preludeNames = []string{"a", "b", "c", "x", "y", "n", "foo", "i", "N", "AB", "m", "arr", "f", "g", "helper", "t", "lam", "fact"}

// names that only exist inside scopedWrap: parameters of the enclosing function (references to an array and to a
// string), a local of the enclosing function (reference to a float), an integer parameter and a loop variable (registers)
var scopedNames = []string{"zq", "zs", "zv", "zp", "zk"}

func scopedWrap(call string) string {
	return "func zo(zq, zs) { zv = 2.5; zi = (zp) => { for zk = 2 { " + call + " } }; zi(7) }; zo([1, 2], \"s\")"
}

// ways to call from inside a function where only the prelude's names are needed
var refWraps = []func(call string) string{
	func(call string) string { return "func zf() { " + call + " }; zf()" },
	func(call string) string { return "zl = () => " + call + "; zl()" },
	func(call string) string { return "func zo() { func zi() { " + call + " }; zi() }; zo()" },
	func(call string) string { return "func zo() { zi = () => " + call + "; zi() }; zo()" },
	func(call string) string { return "func zf() { zr = " + call + "; zr }; zf()" },
	func(call string) string { return "func zf() { catch(" + call + ") }; println(zf())" },
}

func isScoped(names ...string) bool {
	for _, n := range names {
		for _, s := range scopedNames {
			if n == s {
				return true
			}
		}
	}
	return false
}

// one value of every kind (and a boundary or two), for the enumerations that would be too big over the whole pool
var kindPool = []string{"0", "9223372036854775807", "NaN", "nil", `""`, "[]", "arr", "{}", "foo", "quote(a+b)"}

var refLiterals = []string{"0", `"a"`}

// prelude names of eight different kinds, to pair with the scoped names
var eightNames = []string{"a", "b", "c", "x", "y", "n", "foo", "t"}

// builtins (keywords, not extensions) that evaluate their arguments; del is left out: it removes the prelude's names
// for the rest of the session (TestDeleteUnderneath is about that).
var refBuiltins = []string{"len", "first", "rest", "catch", "print", "println", "error", "quote", "unquote"}

func refCallees() []string { return append(extNames(), refBuiltins...) }

func TestExtensionsByReference(t *testing.T) {
	names := refCallees()
	all := append(append([]string{}, preludeNames...), scopedNames...)
	idx := 0
	for _, name := range names {
		// one argument: every prelude name through every way of calling, the scoped names, and every value of the pool
		// reaching the call as a parameter / a local of the enclosing function
		idx++
		if pbt.Mine(idx) {
			var inputs []string
			for _, g := range preludeNames {
				for _, w := range refWraps {
					inputs = append(inputs, w(name+"("+g+")"))
				}
			}
			for _, g := range all {
				inputs = append(inputs, scopedWrap(name+"("+g+")"))
			}
			for i, v := range pool {
				if i%2 == 0 {
					inputs = append(inputs, "func zo(zp) { zi = () => "+name+"(zp); zi() }; zo("+v+")")
				} else {
					inputs = append(inputs, "func zo() { zv = "+v+"; func zi() { "+name+"(zv) }; zi() }; zo()")
				}
			}
			runCase(t, "ext-byref-1", Case{Inputs: inputs})
			pbt.AddExact(int64(len(inputs)), int64(len(inputs)), "ext-byref-1")
		}
		// two arguments: every ordered pair of names; a name and a literal in both orders; pairs of values of every kind
		// reaching the call as parameters of the enclosing function
		idx++
		if pbt.Mine(idx) {
			var inputs []string
			for i, g1 := range preludeNames {
				for j, g2 := range preludeNames {
					inputs = append(inputs, refWraps[(i+j)%len(refWraps)](name+"("+g1+", "+g2+")"))
				}
			}
			for _, s1 := range scopedNames {
				for _, g := range append(append([]string{}, scopedNames...), eightNames...) {
					inputs = append(inputs, scopedWrap(name+"("+s1+", "+g+")"))
					if !isScoped(g) {
						inputs = append(inputs, scopedWrap(name+"("+g+", "+s1+")"))
					}
				}
			}
			for i, g := range preludeNames {
				for j, l := range refLiterals {
					w := refWraps[(i+j)%len(refWraps)]
					inputs = append(inputs, w(name+"("+g+", "+l+")"), w(name+"("+l+", "+g+")"))
				}
			}
			runCase(t, "ext-byref-2", Case{Inputs: inputs})
			pbt.AddExact(int64(len(inputs)), int64(len(inputs)), "ext-byref-2")
		}
		idx++
		if pbt.Mine(idx) {
			var inputs []string
			for _, v := range kindPool {
				for _, w := range kindPool {
					inputs = append(inputs, "func zo(zp, zq) { zi = () => "+name+"(zp, zq); zi() }; zo("+v+", "+w+")")
				}
			}
			// three arguments (the third one is an untyped extra argument for most): names of four kinds in every position
			four := []string{"a", "b", "c", "x"}
			for i, g1 := range four {
				for j, g2 := range four {
					for k, g3 := range four {
						inputs = append(inputs, refWraps[(i+j+k)%len(refWraps)](name+"("+g1+", "+g2+", "+g3+")"))
					}
				}
			}
			runCase(t, "ext-byref-23", Case{Inputs: inputs})
			pbt.AddExact(int64(len(inputs)), int64(len(inputs)), "ext-byref-23")
		}
	}
	pbt.Sample("ext-byref-1", []string{refWraps[0]("base64(a)"), scopedWrap("type(zk)")})
	pbt.Sample("ext-byref-2", []string{refWraps[3]("json_go(x, b)"), scopedWrap("sprintf(zs, zp)")})
}

// the same with everything drawn: the callee, 1..4 arguments each a prelude name, a scoped name or a literal of the
// pool, the way of calling, and what surrounds the call.
func TestExtensionsByReferenceMixed(t *testing.T) {
	names := refCallees()
	pbt.Check(t, 1000, 150000, func(rt_ *rapid.T) {
		name := rapid.SampledFrom(names).Draw(rt_, "callee")
		nargs := rapid.IntRange(1, 4).Draw(rt_, "nargs")
		var args []string
		refs := 0
		for i := 0; i < nargs; i++ {
			switch rapid.IntRange(0, 5).Draw(rt_, "argkind") {
			case 0:
				args = append(args, rapid.SampledFrom(pool).Draw(rt_, "literal"))
			case 1, 2:
				args = append(args, rapid.SampledFrom(scopedNames).Draw(rt_, "scoped"))
				refs++
			default:
				args = append(args, rapid.SampledFrom(preludeNames).Draw(rt_, "name"))
				refs++
			}
		}
		call := name + "(" + strings.Join(args, ", ") + ")"
		switch rapid.IntRange(0, 5).Draw(rt_, "around") {
		case 0:
			call = "zr = " + call + "; zr"
		case 1:
			call = "catch(" + call + ")"
		case 2:
			call = call + "; " + call
		case 3:
			call = "if t { " + call + " }"
		}
		var src string
		if isScoped(args...) || rapid.IntRange(0, 3).Draw(rt_, "scopedwrap") == 0 {
			src = scopedWrap(call)
		} else {
			src = rapid.SampledFrom(refWraps).Draw(rt_, "wrap")(call)
		}
		inputs := []string{src}
		if rapid.Bool().Draw(rt_, "again") {
			inputs = append(inputs, src, "info.globals")
		}
		parsed := runCase(rt_, "ext-byref-mixed", Case{Inputs: inputs})
		pbt.Case(parsed == len(inputs) && refs > 0, src, fmt.Sprintf("ext-byref-mixed:%d-args", nargs))
		pbt.Sample("ext-byref-mixed", inputs)
	})
}
