package c07

import (
	"grol.io/grol/ast"
	"grol.io/grol/token"
	"verif/front"
	"verif/gen"
	"verif/pbt"
)

// Known finding K-C06-1 (index assignment mutates a large array / map in place) has a consequence that
// belongs to this property: storing a large container into itself (a[1] = a, m[k] = m, also through an
// alias or a container holding it) builds a cyclic structure, and printing or comparing it recurses until
// the Go stack overflows, which kills the process. While K-C06-1 is listed, index assignments whose right
// side mentions any variable are kept out of the generated programs (the right side is replaced by a literal).
const kInPlace = "K-C06-1"

func mentionsIdent(n *gen.Node) bool {
	found := false
	gen.Walk(n, func(x *gen.Node) {
		if x.K == gen.KIdent && x.S != "nil" {
			found = true
		}
	})
	return found
}

// repairSelfStore rewrites the tree in place and returns how many index assignments were defused.
func repairSelfStore(stmts []*gen.Node) int {
	if !pbt.KnownOpen(kInPlace) {
		return 0
	}
	n := 0
	gen.WalkAll(stmts, func(x *gen.Node) {
		if x.K == gen.KInfix && (x.S == "=" || x.S == ":=") && (x.Kids[0].K == gen.KIndex || x.Kids[0].K == gen.KDot) && mentionsIdent(x.Kids[1]) {
			x.Kids[1] = gen.IntLit("7")
			n++
		}
	})
	return n
}

// textStoresVariable: the text parses and contains an index assignment whose right side mentions an identifier.
func textStoresVariable(text string) bool {
	if !pbt.KnownOpen(kInPlace) {
		return false
	}
	p := front.Parse(text, false)
	if !p.Accepted() {
		return false
	}
	found := false
	defer func() { _ = recover() }()
	ast.ModifyNoOk(p.Prog, func(n ast.Node) ast.Node {
		ie, ok := n.(*ast.InfixExpression)
		if !ok || ie.Token == nil || (ie.Token.Type() != token.ASSIGN && ie.Token.Type() != token.DEFINE) {
			return n
		}
		if _, isIdx := ie.Left.(*ast.IndexExpression); !isIdx || ie.Right == nil {
			return n
		}
		ast.ModifyNoOk(ie.Right, func(r ast.Node) ast.Node {
			if _, isID := r.(*ast.Identifier); isID {
				found = true
			}
			return r
		})
		return n
	})
	return found
}
