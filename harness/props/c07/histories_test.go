package c07

import (
	"fmt"
	"strings"
	"testing"

	"pgregory.net/rapid"
	"verif/gen"
	"verif/pbt"
)

// ---- macro bodies that do more than quote() -----------------------------------------------------------------
//
// A macro body is evaluated at expansion time by an evaluation state of its own: whatever an ordinary program can do
// there (print, call and define functions, loop, fail) must end in a value or an error like anywhere else.

var macroBodyStmts = []string{
	`print("hi")`, `println("expanding", 1)`, `zl = func(a) { a }; zl(1)`, `zl = a => a + 1; zl(1); zl(1)`, `fact(5)`, `foo(1)`, `f(2); f(2)`, `helper(1, 2)`,
	`for zi = 3 { println(zi) }`, `zv = [1, 2, 3]; zv[1] = 7`, `if t { println("t") } else { 1 }`, `catch(1 + "a")`, `1 + "a"`, `error("in macro")`, `del(a)`, `a = 5`, `a++`, `N = 6`,
	`eval("1+1")`, `str(arr)`, `sprintf("%v", m)`, `len(info.stack)`, `info.globals`, `rand()`, `min(1, 2)`, `json(x)`, `type(y)`, `return quote(2)`, `zr = () => zr(); zr()`,
	`func zrec(k) { if k == 0 { return 0 } zrec(k - 1) }; zrec(10)`, `println(p)`, `unquote(p)`, `quote(unquote(p))`, `zq = quote(1 + 2)`, `zm2 = macro(u) { quote(unquote(u)) }`, `zm(1)`, `load("nothere")`, `save("zsaved")`,
}

var macroResults = []string{`quote(1)`, `quote(unquote(p) + 1)`, `quote(unquote(p))`, `quote(unquote(q)(unquote(p)))`, `quote(if unquote(p) { unquote(q) })`, `1`, ``, `p`, `nil`, `quote(quote(1))`, `unquote(p)`, `[quote(1)]`, `quote(zm)`}

func TestMacroBodies(t *testing.T) {
	pbt.Check(t, 1200, 60000, func(rt_ *rapid.T) {
		var body []string
		for i, n := 0, rapid.IntRange(0, 3).Draw(rt_, "nbody"); i < n; i++ {
			if rapid.IntRange(0, 3).Draw(rt_, "wildstmt") == 0 {
				stmts := gen.SynProgram(rt_, gen.SynCfg{MaxDepth: 2, MaxStmts: 2, NoLog: true})
				body = append(body, gen.Print(stmts, gen.PrintOptions{}))
			} else {
				body = append(body, rapid.SampledFrom(macroBodyStmts).Draw(rt_, "stmt"))
			}
		}
		body = append(body, rapid.SampledFrom(macroResults).Draw(rt_, "result"))
		params := []string{"p", "q"}[:rapid.IntRange(0, 2).Draw(rt_, "nparams")]
		def := "zm = macro(" + strings.Join(params, ", ") + ") {\n" + strings.Join(body, "\n") + "\n}"
		var args []string
		for i, n := 0, rapid.IntRange(0, 3).Draw(rt_, "nargs"); i < n; i++ {
			args = append(args, rapid.SampledFrom(pool).Draw(rt_, "arg"))
		}
		if rapid.IntRange(0, 2).Draw(rt_, "matching") > 0 {
			for len(args) < len(params) {
				args = append(args, rapid.SampledFrom(pool).Draw(rt_, "arg"))
			}
			args = args[:len(params)]
		}
		call := "zm(" + strings.Join(args, ", ") + ")"
		user := rapid.SampledFrom([]string{call, "println(" + call + ")", "zu = () => " + call + "; zu(); zu()", "for zi = 2 { " + call + " }", "[" + call + ", " + call + "]", "catch(" + call + ")"}).Draw(rt_, "user")
		var inputs []string
		switch rapid.IntRange(0, 2).Draw(rt_, "split") {
		case 0:
			inputs = []string{def + "\n" + user}
		case 1:
			inputs = []string{def, user, user}
		default:
			inputs = []string{def, user, def, "a + 1", user}
		}
		parsed := runCase(rt_, "macro-body", Case{Inputs: inputs})
		pbt.Case(parsed > 1 || len(inputs) == 1 && parsed == 1, strings.Join(inputs, "\n"), fmt.Sprintf("macro-body:%d-stmts", len(body)-1))
		pbt.Sample("macro-body", inputs)
	})
}

// ---- a binding removed or replaced underneath a function that already looked at it -------------------------------
//
// A function reading a name of an enclosing scope keeps a reference to it; what the reference points to can be
// deleted or replaced by a call made in between (further down the stack, a closure, a loop iteration).

var underValues = []string{"1", `"s"`, "[1, 2, 3]", "arr", `{"k": 1}`, "m", "2.5", "nil", "x => x", "fact"}
var underChanges = []string{"del(zx)", "del(zx); zx = 2", "del(zx); zx := [9]", "zx = nil", "del(zx); del(zx)", "del(zx[0])", "del(zx.k)", "zx = () => zx", ""}
var underBefore = []string{"za = zx", "println(zx)", "zx", "if zx == zx { 1 }", "za = [zx]", "za = () => zx", "len(zx)", ""}
var underAfter = []string{"zx", "zx + 1", "zx[0]", "zx.k", "zx = 5", "zx := 5", "zx++", "++zx", "len(zx)", "println(zx)", "for zx { break }", "za", "del(zx)", "(() => zx)()", "func() { zx }()", "[zx]", "{1: zx}",
	"{zx: 1}", "str(zx)", "catch(zx)", "zx(1)", "zx == zx", "zx[0] = 1", "zx.k = 2", "first(zx)", "zx = zx", "type(zx)", "return zx", "zb = zx; zb"}

func TestDeleteUnderneath(t *testing.T) {
	pbt.Check(t, 2000, 100000, func(rt_ *rapid.T) {
		v := rapid.SampledFrom(underValues).Draw(rt_, "value")
		change := rapid.SampledFrom(underChanges).Draw(rt_, "change")
		before := rapid.SampledFrom(underBefore).Draw(rt_, "before")
		after := rapid.SampledFrom(underAfter).Draw(rt_, "after")
		if rapid.Bool().Draw(rt_, "twoafter") {
			after += "; " + rapid.SampledFrom(underAfter).Draw(rt_, "after2")
		}
		var inputs []string
		shape := rapid.IntRange(0, 6).Draw(rt_, "shape")
		switch shape {
		case 0: // the change is made by a function called in between
			inputs = []string{"zx = " + v, "func zh() { " + change + " }", "func zf() { " + before + "; zh(); " + after + " }", "zf()"}
		case 1: // by a lambda called on the spot
			inputs = []string{"zx = " + v, "func zf() { " + before + "; (() => { " + change + " })(); " + after + " }", "zf()"}
		case 2: // two levels further down
			inputs = []string{"zx = " + v, "func zh() { " + change + " }", "func zg() { zh(); 1 }", "func zf() { " + before + "; zg(); " + after + " }", "zf()"}
		case 3: // the name is a parameter of an enclosing function
			inputs = []string{"func zo(zx) { zh = () => { " + change + " }; zf = () => { " + before + "; zh(); " + after + " }; zf() }", "zo(" + v + ")"}
		case 4: // between two iterations of a loop
			inputs = []string{"zx = " + v, "func zh() { " + change + " }", "func zf() { for zi = 3 { " + before + "; if zi == 1 { zh() }; " + after + " } }", "zf()"}
		case 5: // between two calls of a remembered function
			inputs = []string{"zx = " + v, "func zf() { " + before + "; " + after + " }", "zf()", change, "zf()"}
		default: // the reader is itself nested in the function whose local is changed
			inputs = []string{"func zo() { zx = " + v + "; zf = () => { " + before + "; zh(); " + after + " }; zh = () => { " + change + " }; zf(); zf() }", "zo()"}
		}
		inputs = append(inputs, "zf()", "zx", "info.globals")
		one := rapid.Bool().Draw(rt_, "oneinput")
		if one {
			inputs = []string{strings.Join(inputs[:len(inputs)-3], "\n")}
		}
		parsed := runCase(rt_, "changed-underneath", Case{Inputs: inputs})
		pbt.Case(parsed == len(inputs) && change != "" && before != "", strings.Join(inputs, "\n"), fmt.Sprintf("changed-underneath:shape%d", shape))
		pbt.Sample("changed-underneath", inputs)
	})
}
