// C07 — no program can crash the evaluator.
package c07

import (
	"encoding/json"
	"fmt"
	"os"
	"path/filepath"
	"runtime/debug"
	"sort"
	"strings"
	"syscall"
	"testing"
	"time"

	"grol.io/grol/object"
	"pgregory.net/rapid"
	"verif/front"
	"verif/gen"
	"verif/pbt"
	"verif/sess"
)

func TestMain(m *testing.M) {
	sess.Init()
	// the allocation guard (object.MustBeOk) is only live with a process memory limit
	debug.SetMemoryLimit(256 << 20)
	// safety net for the sandbox: a runaway allocation kills this process (reported through the in-flight case)
	_ = syscall.Setrlimit(syscall.RLIMIT_AS, &syscall.Rlimit{Cur: 12 << 30, Max: 12 << 30})
	dir, err := os.MkdirTemp("", "verif-c07-")
	if err == nil {
		_ = os.Chdir(dir) // save / image.save write into the current directory
		defer os.RemoveAll(dir)
	}
	pbt.SetMeta(pbt.Meta{
		Property: "C07",
		Level:    "exploration",
		Rule: "parseable programs evaluated through repl.EvalOne in a session that already holds one variable of every kind (depth limit 300, deadline 300 ms, 256 MiB memory limit so the " +
			"allocation guard is live, scratch cwd); oracle: panicked is false unless the message is one of the two documented guards ('max depth', 'would exceed memory'); a dying process " +
			"is re-run on its in-flight case. Enumerated completely: every infix operator x every ordered pair of a 30-value operand pool (all kinds, boundary integers, NaN, empty/huge containers), " +
			"every prefix/postfix operator and builtin x every value, index/slice with all pairs of boundary bounds on every indexable kind, assignment/del/++ on every kind of left-hand side, " +
			"every registered extension with 0..3 arguments from the pool (1 and 2 arguments exhaustively). " +
			"Every registered extension and argument-taking builtin is also called from inside a function, a lambda and a nested function with NAMES as arguments, which reach the callee as reference / register objects " +
			"instead of values: every predefined global (1 argument, and every ordered pair for 2), parameters and locals of the enclosing function holding every pool value, integer parameters and loop variables, " +
			"three names; plus a rapid family drawing callee, 1..4 arguments (names or literals) and the way of calling. Plus rapid: wild grammar programs over the predefined names, and token-level mutations of the shipped examples. " +
			"Non-trivial: the input parses and at least one operator/builtin/extension receives an operand outside its documented type or a boundary value; enumeration distinct by construction, generated programs by text.",
		Assumptions: []string{
			"not called: read (blocks on stdin), exec/run (not registered in the restricted configuration used), sleep with more than 10 ms",
			"programs that are merely slow or big are C09's subject: here the per-input deadline and the memory guard turn them into errors, which is a pass",
		},
		Exhaustive:      true,
		ExhaustiveBound: "operators x operand pool pairs, builtins x pool, index/slice bounds, left-hand sides, extensions x pool^1 and pool^2 as listed in props/c07",
	})
	code := m.Run()
	pbt.Flush()
	if err == nil {
		_ = os.RemoveAll(dir)
	}
	os.Exit(code)
}

// prelude: one variable of every kind; the names are the generator's identifier pool.
var prelude = []string{
	`a = 1`, `b = "str"`, `c = [1, 2, 3]`, `x = {"k": 1, "key": 2, "a": 3}`, `y = 2.5`, `n = nil`, `foo = func(q) { q }`, `i = 0`,
	`N = 5`, `AB = [1, 2]`, `m = {1: 2, 3: 4, 5: 6, 7: 8, 9: 10}`, `arr = [1, 2, 3, 4, 5, 6, 7, 8, 9, 10]`,
	`func f(p) { p + 1 }`, `func g(p, q) { [p, q] }`, `func helper(..) { len(..) }`, `t = true`, `lam = (u, v) => u`,
	`func fact(z) { if z <= 1 { return 1 } z * fact(z - 1) }`,
}

// operand pool: expressions of every kind with boundary values.
var pool = []string{
	"0", "1", "(-1)", "2", "63", "64", "(-64)", "9223372036854775807", "(-9223372036854775807-1)", "1000000007", "4611686018427387904",
	"0.0", "1.5", "(-2.5)", "NaN", "Inf", "(-Inf)", "1e300",
	"true", "false", "nil",
	`""`, `"a"`, `"abc"`, `"héllo"`, `"\xff"`,
	"[]", "[1]", "[1,2,3]", "arr", `["a", nil, [1]]`,
	"{}", `{"k":1}`, "m", "{1:[2]}",
	"foo", "lam", "sin", "fact", "x=>x", "quote(1)", "quote(a+b)",
}

type Case struct {
	Inputs []string `json:"inputs"` // evaluated one after the other in one session, after the prelude
}

var guardMsgs = []string{"max depth", "would exceed memory"}

func newSession() *sess.S {
	s := sess.New(sess.Config{MaxDepth: 300, MaxDuration: 300 * time.Millisecond})
	for _, p := range prelude {
		if r := s.Run(p); r.Failed() {
			panic(fmt.Sprintf("harness: prelude %q failed: %v", p, r.Errs))
		}
	}
	return s
}

// run evaluates the inputs; it returns the number of inputs that parsed and the first violation.
func run(c Case) (parsed int, err error) {
	defer func() {
		if r := recover(); r != nil {
			err = fmt.Errorf("panic escaped repl.EvalOne: %v\ninputs: %q", r, c.Inputs)
		}
	}()
	s := newSession()
	for _, in := range c.Inputs {
		in := in
		watchdog := time.AfterFunc(8*time.Second, func() {
			fmt.Printf("SLOW: input %q has been running for 8 s although the session deadline is 300 ms\n", in)
		})
		r := s.Run(in)
		watchdog.Stop()
		if !r.Cont && !(len(r.Errs) > 0 && !r.Panicked && strings.Contains(strings.Join(r.Errs, " "), "parse")) {
			parsed++
		}
		if r.Panicked {
			msg := strings.Join(r.Errs, " ")
			ok := false
			for _, g := range guardMsgs {
				if strings.Contains(msg, g) {
					ok = true
				}
			}
			if !ok {
				return parsed, fmt.Errorf("evaluating %q panicked: %s\n(all inputs of the session: %q)", in, msg, c.Inputs)
			}
		}
	}
	return parsed, nil
}

var explore = os.Getenv("VERIF_EXPLORE") != ""
var seenExplore = map[string]bool{}

func runCase(t pbt.TB, kind string, c Case) int {
	pbt.InFlight(kind, c)
	parsed, err := run(c)
	if err != nil {
		if explore {
			msg := err.Error()
			key := msg
			if i := strings.Index(msg, "panicked: "); i >= 0 {
				key = msg[i:]
				if j := strings.Index(key, "\n"); j >= 0 {
					key = key[:j]
				}
			}
			if len(key) > 90 {
				key = key[:90]
			}
			if !seenExplore[key] {
				seenExplore[key] = true
				fmt.Printf("EXPLORE %s: %s\n", kind, strings.ReplaceAll(msg, "\n", " | "))
			}
			return parsed
		}
		pbt.Fail(t, kind, c, "%v", err)
	}
	return parsed
}

// ---- systematic families ---------------------------------------------------------------------------

func TestOperators(t *testing.T) {
	idx := 0
	ops := append([]string{":"}, gen.InfixOps...)
	for _, op := range ops {
		for _, l := range pool {
			idx++
			if !pbt.Mine(idx) {
				continue
			}
			var inputs []string
			for _, r := range pool {
				inputs = append(inputs, l+" "+op+" "+r)
			}
			runCase(t, "infix", Case{Inputs: inputs})
			pbt.AddExact(int64(len(inputs)), int64(len(inputs)), "infix")
		}
	}
	var inputs []string
	for _, v := range pool {
		for _, op := range []string{"!", "-", "+", "~", "^"} {
			inputs = append(inputs, op+v)
		}
		for _, b := range []string{"len", "first", "rest", "catch", "print", "println", "error", "del", "quote", "unquote"} {
			inputs = append(inputs, b+"("+v+")")
		}
		inputs = append(inputs, "zz = "+v+"; zz["+v+"] = "+v, "zz = "+v+"; zz[0] = zz; zz[zz] = zz; println(zz); zz == zz")
		inputs = append(inputs, "zz = "+v+"; zz++; ++zz; zz--; --zz", "zz = "+v+"; del(zz); del(zz.k); del(zz[0]); del(zz[nil])",
			"zz = "+v+"; zz[0] = 1", "zz = "+v+"; zz.k = 1", "zz = "+v+"; zz[-1] = 1",
			"for zz = "+v+" { 1 }", "for "+v+" { break }", "if "+v+" { 1 } else { 2 }", v+"("+v+")", v+"()", v+".k", v+"."+`"k"`,
			"("+v+")("+v+", "+v+")", "f("+v+")", "g("+v+")", "helper("+v+", "+v+")", "fact("+v+")", "[..]", "func(..){..}("+v+")",
			"ZZ = "+v+"; ZZ = "+v, "ZZ = "+v+"; ZZ = 1", "macro1 = macro(q){quote(unquote(q))}; macro1("+v+")", "MAC = macro(){quote(1)}; MAC = macro(){quote(2)}",
		)
	}
	if pbt.Mine(0) {
		runCase(t, "unary-and-lhs", Case{Inputs: inputs})
		pbt.AddExact(int64(len(inputs)), int64(len(inputs)), "unary-and-lhs")
	}
}

func TestIndexAndSlice(t *testing.T) {
	bounds := []string{"0", "1", "2", "3", "(-1)", "(-2)", "(-3)", "(-4)", "(-100)", "100", "9223372036854775807", "(-9223372036854775807-1)", "nil", `"k"`, "1.5", "true"}
	targets := []string{`"abc"`, `""`, `"héllo"`, "[1,2,3]", "[]", "arr", `{"k":1}`, "m", "{}", "nil", "1", "foo", "(1:4)"}
	idx := 0
	for _, tg := range targets {
		idx++
		if !pbt.Mine(idx) {
			continue
		}
		var inputs []string
		for _, l := range bounds {
			inputs = append(inputs, tg+"["+l+"]", tg+"["+l+":]", "zz = "+tg+"; zz["+l+"] = 7")
			for _, r := range bounds {
				inputs = append(inputs, tg+"["+l+":"+r+"]")
			}
		}
		inputs = append(inputs, "["+tg+":]", "[1:]", "zz = "+tg+"; zz[:1]")
		runCase(t, "index-slice", Case{Inputs: inputs})
		pbt.AddExact(int64(len(inputs)), int64(len(inputs)), "index-slice")
	}
}

// functions with 0..12 parameters called with integers (every integer parameter wants a register) and
// counted loops nested up to depth 12 (every loop variable wants one too; there are 8 per environment).
func TestManyIntegersAndDeepLoops(t *testing.T) {
	var inputs []string
	for n := 0; n <= 12; n++ {
		var ps, args, uses []string
		for i := 0; i < n; i++ {
			ps = append(ps, fmt.Sprintf("p%d", i))
			args = append(args, fmt.Sprint(i+1))
			uses = append(uses, fmt.Sprintf("p%d", i))
		}
		body := "0"
		if n > 0 {
			body = strings.Join(uses, " + ")
		}
		inputs = append(inputs, fmt.Sprintf("func many%d(%s) { %s }; many%d(%s)", n, strings.Join(ps, ", "), body, n, strings.Join(args, ", ")))
		inputs = append(inputs, fmt.Sprintf("lam%d = (%s) => { for k = 2 { %s } }; lam%d(%s)", n, strings.Join(ps, ", "), body, n, strings.Join(args, ", ")))
	}
	for depth := 1; depth <= 12; depth++ {
		src, closing, sum := "", "", []string{"0"}
		for d := 0; d < depth; d++ {
			src += fmt.Sprintf("for v%d = 2 { ", d)
			closing += " }"
			sum = append(sum, fmt.Sprintf("v%d", d))
		}
		inputs = append(inputs, src+strings.Join(sum, " + ")+closing)
		inputs = append(inputs, "func deep"+fmt.Sprint(depth)+"(q) { "+src+"q + "+strings.Join(sum, " + ")+closing+" }; deep"+fmt.Sprint(depth)+"(1)")
	}
	// many loops one after the other in one session, each left abnormally
	for i := 0; i < 12; i++ {
		inputs = append(inputs, "for w = 3 { break }", "for w = 3 { error(\"x\") }", "func early(q) { for w = 3 { return w } }; early(1)", "for w = 3 { w }")
	}
	if pbt.Mine(0) {
		runCase(t, "registers", Case{Inputs: inputs})
		pbt.AddExact(int64(len(inputs)), int64(len(inputs)), "registers")
	}
	// counted loops nested 1..3 deep whose innermost body does something a register can't do (or leaves the loop
	// abnormally) to the loop variable of each level, bare / caught / inside a function: every such input alone,
	// and all of them one after the other in one session (what one leaves behind meets the next).
	var special []string
	for depth := 1; depth <= 3; depth++ {
		for target := 0; target < depth; target++ {
			v := fmt.Sprintf("v%d", target)
			for _, stmt := range []string{v + "++", v + "--", "++" + v, "zf = () => " + v, "zf = func() { " + v + " + 1 }; zf()", v + " = \"s\"", v + " = " + v + " + 1", "del(" + v + ")",
				"func zg(" + v + ") { " + v + " }; zg(2)", "zh = " + v + " => " + v + " * 2; zh(3)", "error(\"e\", " + v + ")", "if " + v + " == 1 { break }", "if " + v + " == 0 { continue }", "[" + v + "][5] = 1", "zm = {}; zm[" + v + "] = " + v} {
				src, closing := "", ""
				for d := 0; d < depth; d++ {
					src += fmt.Sprintf("for v%d = 2 { ", d)
					closing += " }"
				}
				loop := src + stmt + closing
				special = append(special, loop, "catch("+loop+")", "func zw() { "+loop+" }; catch(zw())")
			}
		}
	}
	for i, in := range special {
		if pbt.Mine(i + 1) {
			runCase(t, "registers-special", Case{Inputs: []string{in, "for zz = 2 { zz }"}})
			pbt.CaseExact(true, "registers:special-loop-body-alone")
		}
	}
	if pbt.Mine(0) {
		runCase(t, "registers-special", Case{Inputs: append(append([]string{}, special...), "for zz = 3 { for zy = 2 { zz + zy } }")})
		pbt.AddExact(int64(len(special)), int64(len(special)), "registers:special-loop-bodies-in-one-session")
	}
}

// function literals with degenerate bodies (empty, only comments) in every form and position, and the info
// pseudo-variable read at every call depth and through closures: each evaluated alone.
func TestOddLiteralsAndInfo(t *testing.T) {
	bodies := []string{"", "/* todo */", "/* a */ /* b */", "// later\n", "/* c */ 0", "0 /* c */", "/* c */ return", "return", "return /* c */ 1", ";", "{}", "/* c */ {}", "[]", "nil"}
	var inputs []string
	for _, b := range bodies {
		inputs = append(inputs,
			"x => {"+b+"}", "zf = x => {"+b+"}; zf(1)", "func(){"+b+"}", "(func(){"+b+"})()", "func znamed(a) {"+b+"}; znamed(1); znamed", "(a, b) => {"+b+"}", "() => {"+b+"}",
			"zm = {\"todo\": x => {"+b+"}}; zm.todo(1); zm", "[x => {"+b+"}, func(){"+b+"}]", "(x => {"+b+"})(1)", "println(x => {"+b+"})", "zq = () => { () => {"+b+"} }; zq()()",
			"for zi = 2 { zf = () => {"+b+"}; zf() }", "first(x => {"+b+"})", "rest(func(a){"+b+"})", "str(x => {"+b+"})", "(x => {"+b+"}) == (x => {"+b+"})")
	}
	for _, rd := range []string{"info", "info.stack", "info.globals", "len(info.keywords)", "info.stack[0]", "println(info.stack)", "str(info.stack)", "info[\"stack\"]", "type(info)", "len(info)"} {
		inputs = append(inputs, rd,
			"func zs() { "+rd+" }; zs()",
			"func zs() { "+rd+" }; func zc(a, b) { zl = a; zs() }; zc(6, 7)",
			"func zs() { "+rd+" }; func zc(a) { zs() }; func zd(b) { zc(b) }; zd(1)",
			"zk = () => { zv = 1; () => { () => "+rd+" } }; zk()()()",
			"zk = () => { () => { zw = 2; "+rd+" } }; zi = zk(); func zo(q) { zi() }; zo(1)",
			"func zr(n) { if n == 0 { return "+rd+" }; zr(n - 1) }; zr(4)",
			"for zi = 2 { func zs() { "+rd+" }; zs() }",
			"catch((x => "+rd+")(1))",
			"zarr = [() => "+rd+"]; zarr[0]()")
	}
	for _, v := range []string{"{[1,2,3,4,5,6,7,8,9]: 1}", "{func(x){x}: 1}", "{(x => x): 2, 1: 1}", "{{1:1,2:2,3:3,4:4,5:5}: 1}", "[[1,2,3,4,5,6,7,8,9]]", "[x => x]", "{1: [1,2,3,4,5,6,7,8,9]}", "{1: x => x}", "{[]: 1, {}: 2}", "{nil: nil}", "{1.5: {2.5: [3.5]}}", "[{[1]: [2]}]", "{\"a\": {\"b\": {\"c\": 0:9}}}"} {
		inputs = append(inputs, "func zid(a) { a }; zid("+v+")", "zid2 = (a, b) => [a, b]; zid2("+v+", "+v+"); zid2("+v+", "+v+")", "func zv(..) { .. }; zv("+v+", 1)", "zk = "+v+"; func zid(a) { a }; zid(zk); del(zk[1]); zid(zk)")
	}
	for i, in := range inputs {
		if pbt.Mine(i) {
			runCase(t, "odd-literals-info", Case{Inputs: []string{in}})
			pbt.CaseExact(true, "odd-literals-and-info")
		}
	}
}

var skipExt = map[string]bool{"read": true, "exec": true, "run": true, "sleep": true}

func extNames() []string {
	var names []string
	for k := range object.ExtraFunctions() {
		if !skipExt[k] {
			names = append(names, k)
		}
	}
	sort.Strings(names)
	return names
}

func TestExtensions(t *testing.T) {
	names := extNames()
	if len(names) < 40 {
		t.Fatalf("harness: only %d extensions registered", len(names))
	}
	pbt.Extra("extensions", float64(len(names)))
	idx := 0
	for _, name := range names {
		// 0 and 1 argument: exhaustive; 2 arguments: exhaustive over the pool; 3: first arg x a smaller pool
		idx++
		if pbt.Mine(idx) {
			inputs := []string{name + "()", name}
			for _, a := range pool {
				inputs = append(inputs, name+"("+a+")")
			}
			inputs = append(inputs, "sleep(0.001)", "sleep(-1)", `sleep("a")`)
			runCase(t, "ext-arity01", Case{Inputs: inputs})
			pbt.AddExact(int64(len(inputs)), int64(len(inputs)), "ext-arity01")
		}
		for _, a := range pool {
			idx++
			if !pbt.Mine(idx) {
				continue
			}
			var inputs []string
			for _, b := range pool {
				inputs = append(inputs, name+"("+a+", "+b+")")
			}
			for _, b := range []string{"0", "(-1)", `"a"`, "nil", "[1]", "true", "1.5", "9223372036854775807"} {
				for _, c := range []string{"0", "(-1)", `"a"`, "nil", "[1,2,3,4]", "true", "1e300", "{}"} {
					inputs = append(inputs, name+"("+a+", "+b+", "+c+")")
				}
			}
			inputs = append(inputs, name+"("+a+", 1, 2, 3, 4, 5, 6, 7)", name+"("+a+", [1, 2, 3])", name+"(["+a+", "+a+"])")
			runCase(t, "ext-arity23", Case{Inputs: inputs})
			pbt.AddExact(int64(len(inputs)), int64(len(inputs)), "ext-arity23")
		}
	}
	pbt.Sample("ext-arity23", []string{"image.draw(\"a\", [1])", "join([1,2], nil)", "sprintf(\"%d\", \"x\")"})
}

// ---- wild generated programs -----------------------------------------------------------------------------

func TestWildPrograms(t *testing.T) {
	pbt.Check(t, 5000, 400000, func(rt_ *rapid.T) {
		cfg := gen.SynCfg{MaxDepth: rapid.IntRange(1, 3).Draw(rt_, "depth"), MaxStmts: 3, NoLog: true}
		stmts := gen.SynProgram(rt_, cfg)
		// sprinkle boundary operands: replace some integer literals
		gen.WalkAll(stmts, func(n *gen.Node) {
			if n.K == gen.KInt && rapid.IntRange(0, 3).Draw(rt_, "boundary") == 0 {
				n.S = rapid.SampledFrom([]string{"0", "1", "63", "64", "9223372036854775807", "4611686018427387904", "1000000"}).Draw(rt_, "lit")
			}
		})
		var inputs []string
		for _, s := range stmts {
			inputs = append(inputs, gen.Print([]*gen.Node{s}, gen.PrintOptions{}))
		}
		if rapid.Bool().Draw(rt_, "whole") {
			inputs = []string{gen.Print(stmts, gen.PrintOptions{})}
		}
		parsed := runCase(rt_, "wild", Case{Inputs: inputs})
		pbt.Case(parsed > 0, strings.Join(inputs, "\n"), "wild")
		pbt.Sample("wild", inputs)
	})
}

// ---- token-level mutations of the shipped examples ------------------------------------------------------------

var corpus = func() []string {
	var out []string
	for _, g := range []string{"/repo/examples/*.gr", "/repo/tests/*.gr"} {
		files, _ := filepath.Glob(g)
		sort.Strings(files)
		for _, f := range files {
			base := filepath.Base(f)
			// long-running / interactive / image-heavy examples are left out (C09 covers time)
			if strings.Contains(base, "perf") || strings.Contains(base, "mandelbrot") || strings.Contains(base, "shell") || strings.Contains(base, "large_fact") ||
				strings.Contains(base, "pi") || strings.Contains(base, "bezier") || strings.Contains(base, "vector") || strings.Contains(base, "circle") || strings.Contains(base, "advent") || strings.Contains(base, "prime") {
				continue
			}
			if b, err := os.ReadFile(f); err == nil && len(b) < 4000 {
				out = append(out, string(b))
			}
		}
	}
	return out
}()

var hostileTokens = []string{"0", "(-1)", "9223372036854775807", "nil", `""`, "[]", "{}", "NaN", "1e300", "true", "a", "..", "1000000", "(1<<62)", "quote(x)", "x=>x"}

func tokenize(src string) []string {
	// crude tokenisation on whitespace and punctuation, good enough to delete / duplicate / swap pieces
	var toks []string
	cur := ""
	flush := func() {
		if cur != "" {
			toks = append(toks, cur)
			cur = ""
		}
	}
	for _, r := range src {
		switch {
		case r == ' ' || r == '\t':
			flush()
		case strings.ContainsRune("(){}[],;\n", r):
			flush()
			toks = append(toks, string(r))
		default:
			cur += string(r)
		}
	}
	flush()
	return toks
}

func TestMutatedExamples(t *testing.T) {
	if len(corpus) < 5 {
		t.Fatalf("harness: shipped examples not found (%d)", len(corpus))
	}
	pbt.Check(t, 1500, 120000, func(rt_ *rapid.T) {
		toks := tokenize(rapid.SampledFrom(corpus).Draw(rt_, "file"))
		if len(toks) > 400 {
			start := rapid.IntRange(0, len(toks)-400).Draw(rt_, "start")
			toks = toks[start : start+400]
		}
		toks = append([]string(nil), toks...)
		n := rapid.IntRange(1, 5).Draw(rt_, "edits")
		for i := 0; i < n && len(toks) > 2; i++ {
			pos := rapid.IntRange(0, len(toks)-1).Draw(rt_, "pos")
			switch rapid.IntRange(0, 3).Draw(rt_, "how") {
			case 0:
				toks = append(toks[:pos], toks[pos+1:]...)
			case 1:
				toks = append(toks[:pos], append([]string{toks[pos]}, toks[pos:]...)...)
			case 2:
				q := rapid.IntRange(0, len(toks)-1).Draw(rt_, "pos2")
				toks[pos], toks[q] = toks[q], toks[pos]
			default:
				toks[pos] = rapid.SampledFrom(hostileTokens).Draw(rt_, "tok")
			}
		}
		src := strings.Join(toks, " ")
		src = strings.ReplaceAll(src, " (", "(") // keep calls calls
		src = strings.ReplaceAll(src, " [", "[")
		accepted := front.Parse(src, false).Accepted()
		parsed := runCase(rt_, "mutated-example", Case{Inputs: []string{src}})
		lbl := "mutated:rejected-by-parser"
		if accepted {
			lbl = "mutated:evaluated"
		}
		pbt.Case(parsed > 0 && accepted, src, lbl)
		pbt.Sample("mutated-example", src)
	})
}

func FuzzEval(f *testing.F) {
	for _, c := range corpus {
		f.Add(c)
	}
	for _, p := range pool {
		f.Add("zz = " + p + "; zz[0:1] * zz / zz % zz << zz")
	}
	f.Fuzz(func(t *testing.T, in string) {
		if len(in) > 1500 || strings.Contains(in, "read") || strings.Contains(in, "sleep") {
			return
		}
		runCase(t, "fuzz", Case{Inputs: []string{in}})
	})
}

func oracle(kind string, raw json.RawMessage) error {
	var c Case
	if err := json.Unmarshal(raw, &c); err != nil {
		return err
	}
	_, err := run(c)
	return err
}

func TestReplay(t *testing.T)   { pbt.RunReplay(t, oracle) }
func TestARegress(t *testing.T) { pbt.RunRegress(t, "C07", oracle) }
