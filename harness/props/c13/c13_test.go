// C13 — macro expansion is exact syntactic substitution.
package c13

import (
	"context"
	"encoding/json"
	"fmt"
	"strings"
	"testing"
	"time"

	"grol.io/grol/ast"
	"pgregory.net/rapid"
	"verif/dump"
	"verif/front"
	"verif/gen"
	"verif/pbt"
	"verif/sess"
	"verif/val"
)

func TestMain(m *testing.M) {
	sess.Init()
	pbt.Main(m, pbt.Meta{
		Property: "C13",
		Level:    "exploration",
		Rule: "sessions of several inputs in which macros 'name = macro(p1..pk) { quote(<template>) }' (k <= 4, each parameter used 0..3 times, templates from an expression / statement grammar: infix, prefix, " +
			"if/else, calls, index, array and map literals, lambdas) are defined and then used 1..6 times with argument expressions that have their own operators (binding looser than the hole's context), side " +
			"effects (a printing function) and nested macro calls, at top level, inside function bodies, loops, conditions and call arguments. The harness performs the substitution on its own tree giving the " +
			"macro-free program H. Oracle: (1) dump(ExpandMacros(parse(P))) == dump(parse(print(H))); (2) printing and re-parsing both gives the same dump; (3) evaluating P and H on twin sessions gives the same " +
			"output, echo and errors per input (so arguments are evaluated exactly as often as the template mentions them, never at expansion time); (4) expanding the same input again, after other uses, gives " +
			"the same dump and the macro's printed form is unchanged. " +
			"TestSessionShapes draws the same sessions with further shapes switched on (any mix of the three): templates with ranges seq[T:], seq[T:T'], [T, T', ..][unquote(p):] whose bounds hold unquote(parameter), " +
			"call sites that are (in) a bound of a range of the calling program (seq[m(..):], seq[m(..):m(..)], seq[n:m(..)], seq[m(..) % 5:], seq[id(m(..)):]) and arguments holding such a range; parameters named like " +
			"functions and constants of the library (min, max, abs, str, keys, int, type, format, ..., PI, E) and templates calling min / max / abs; a macro name defined 2..3 times in one input (with the same or " +
			"other parameters, typed or inside eval()) or defined again by a later input - H is substituted with the LAST definition read so far, like every other binding. Non-trivial: a parameter used >= 2 times or >= 2 call sites of one macro or a nested macro call, and an argument with its own operator; distinct by text.",
		Assumptions: []string{
			"macros whose body is not a single quote(...) or whose unquote arguments are not bare parameters are outside the property and not generated",
			"macro names are lower case; a name may be defined several times (TestSessionShapes only): all definitions of an input are recorded in statement order before its call sites are rewritten, the last one " +
				"replaces the earlier ones for that input and the later inputs, and inputs read before a redefinition are no longer re-expanded for comparison (oracle 4)",
			"a definition is never written after a use of that name within one input",
		},
	})
}

type MacroDef struct {
	Name     string    `json:"name"`
	Params   []string  `json:"params"`
	Template *gen.Node `json:"template"`
	Form     int       `json:"form,omitempty"` // 0: body is quote(T); 1: return quote(T); 2: if true { return quote(T) }; quote(0); 3: a statement before quote(T)
}

// Input is one REPL input: either a macro definition or statements that may call macros.
type Input struct {
	Def      *MacroDef   `json:"def,omitempty"`
	MoreDefs []*MacroDef `json:"more_defs,omitempty"` // further definitions directly after Def, in the same input
	Stmts    []*gen.Node `json:"stmts,omitempty"`     // with Def: statements of the same input, after the definitions
	Panic    bool        `json:"panic,omitempty"`     // an input that ends in a recovered panic (depth limit), in both sessions
	ViaEval  bool        `json:"via_eval,omitempty"`  // the input is handed to eval("...") instead of being typed
}

func (in Input) defs() []*MacroDef {
	if in.Def == nil {
		return nil
	}
	return append([]*MacroDef{in.Def}, in.MoreDefs...)
}

type Case struct {
	Inputs []Input `json:"inputs"`
}

const prelude = `g1 = 3; g2 = 5; g3 = 2
func pr(x) { println("eval", x); x }
func id(x) { x }`

func unq(p string) *gen.Node { return gen.Builtin("unquote", gen.Id(p)) }

func defSource(d *MacroDef) string {
	body := gen.PrintExpr(gen.Builtin("quote", d.Template))
	switch d.Form {
	case 1:
		body = "return " + body
	case 2:
		body = "if true { return " + body + " }; quote(0)"
	case 3:
		body = "zunused = 1; " + body
	}
	return fmt.Sprintf("%s = macro(%s) { %s }", d.Name, strings.Join(d.Params, ", "), body)
}

// substitute returns the template with every unquote(param) replaced by (a copy of) the argument.
func substitute(t *gen.Node, params []string, args []*gen.Node) *gen.Node {
	if t == nil {
		return nil
	}
	if t.K == gen.KBuiltin && t.S == "unquote" && len(t.Kids) == 1 && t.Kids[0].K == gen.KIdent {
		for i, p := range params {
			if p == t.Kids[0].S {
				return args[i].Clone()
			}
		}
	}
	c := *t
	c.Kids = subList(t.Kids, params, args)
	c.Body = subList(t.Body, params, args)
	c.Else = subList(t.Else, params, args)
	c.ElseIf = substitute(t.ElseIf, params, args)
	return &c
}

func subList(l []*gen.Node, params []string, args []*gen.Node) []*gen.Node {
	if l == nil {
		return nil
	}
	out := make([]*gen.Node, len(l))
	for i, x := range l {
		out[i] = substitute(x, params, args)
	}
	return out
}

// expandAll rewrites macro calls bottom-up (arguments first), as the language documents it.
func expandAll(n *gen.Node, macros map[string]*MacroDef) *gen.Node {
	if n == nil {
		return nil
	}
	c := *n
	c.Kids = make([]*gen.Node, len(n.Kids))
	for i, k := range n.Kids {
		c.Kids[i] = expandAll(k, macros)
	}
	c.Body = expandList(n.Body, macros)
	c.Else = expandList(n.Else, macros)
	c.ElseIf = expandAll(n.ElseIf, macros)
	if c.K == gen.KCall && c.Kids[0].K == gen.KIdent {
		if d, ok := macros[c.Kids[0].S]; ok && len(c.Kids)-1 == len(d.Params) {
			return substitute(d.Template, d.Params, c.Kids[1:])
		}
	}
	return &c
}

func expandList(l []*gen.Node, macros map[string]*MacroDef) []*gen.Node {
	if l == nil {
		return nil
	}
	out := make([]*gen.Node, len(l))
	for i, x := range l {
		out[i] = expandAll(x, macros)
	}
	return out
}

var cfg = sess.Config{MaxDepth: 1000, MaxDuration: 5 * time.Second}

func check(c Case) error {
	pbt.InFlight("inflight", c)
	p := sess.New(cfg) // the program with macros
	h := sess.New(cfg) // the hand-substituted program
	for _, s := range []*sess.S{p, h} {
		if r := s.Run(prelude); r.Failed() {
			return fmt.Errorf("harness: prelude failed: %v", r.Errs)
		}
	}
	macros := map[string]*MacroDef{}
	inspected := map[string]string{}
	var history []string
	type expanded struct{ src, dump string }
	var seen []expanded
	for _, in := range c.Inputs {
		if in.Panic {
			const runaway = "func zrunaway(n) { zrunaway(n + 1) }; zrunaway(0)"
			history = append(history, runaway)
			if rp, rh := p.Run(runaway), h.Run(runaway); !rp.Failed() || !rh.Failed() {
				return fmt.Errorf("harness: the runaway recursion did not fail")
			}
			continue
		}
		defSrc := ""
		for _, d := range in.defs() {
			defSrc += defSource(d) + "\n"
			if _, again := macros[d.Name]; again {
				// a name defined again (last definition wins, like every other binding): from here on the earlier inputs
				// rightly expand differently, and re-reading them below would put the superseded definition back.
				seen = nil
			}
			macros[d.Name] = d
		}
		if in.ViaEval {
			// the same text through eval(): definitions and uses inside one string
			src := defSrc + gen.Print(in.Stmts, gen.PrintOptions{})
			hsrc := gen.Print(expandList(in.Stmts, macros), gen.PrintOptions{})
			history = append(history, "eval("+val.StrSrc(src)+")")
			rp, rh := p.Run("eval("+val.StrSrc(src)+")"), h.Run("eval("+val.StrSrc(hsrc)+")")
			if sess.TimedOut(rp) || sess.TimedOut(rh) || sess.MemoryRefused(rp) || sess.MemoryRefused(rh) {
				return nil
			}
			if rp.Out != rh.Out || rp.Echo != rh.Echo || rp.Failed() != rh.Failed() {
				return fmt.Errorf("evaluation through eval() differs from the hand-substituted program\nprogram:  %s -> output %q echo %q errors %v\nexpected: %s -> output %q echo %q errors %v\nhistory: %s",
					src, rp.Out, rp.Echo, rp.Errs, hsrc, rh.Out, rh.Echo, rh.Errs, strings.Join(history, " ;; "))
			}
			continue
		}
		if in.Def != nil && len(in.Stmts) == 0 {
			history = append(history, defSrc)
			if r := p.Run(defSrc); r.Failed() {
				return fmt.Errorf("macro definition rejected: %q: %v", defSrc, r.Errs)
			}
			continue
		}
		src := defSrc + gen.Print(in.Stmts, gen.PrintOptions{})
		hsrc := gen.Print(expandList(in.Stmts, macros), gen.PrintOptions{})
		history = append(history, src)
		// (1) the expanded tree
		pp := front.Parse(src, false)
		if !pp.Accepted() {
			return fmt.Errorf("harness: program not accepted (%s): %s", pp.Why(), src)
		}
		p.St.DefineMacros(pp.Prog)
		var exp ast.Node = expandLive(p, pp.Prog)
		gotDump, missing := dump.Dump(exp, dump.Options{})
		if len(missing) > 0 {
			return fmt.Errorf("the expanded program has missing nodes %v\nprogram: %s", missing, src)
		}
		hp := front.Parse(hsrc, false)
		if !hp.Accepted() {
			return fmt.Errorf("harness: hand-substituted program not accepted (%s): %s", hp.Why(), hsrc)
		}
		wantDump, _ := dump.Dump(hp.Prog, dump.Options{})
		if gotDump != wantDump {
			return fmt.Errorf("expansion is not the syntactic substitution\nprogram:  %s\nexpected: %s\ngot tree:  %s\nwant tree: %s\nmacros: %s", src, hsrc, gotDump, wantDump, strings.Join(history, " ;; "))
		}
		// (2) print and re-parse both
		f1, e1 := front.Format(exp, false)
		f2, e2 := front.Format(hp.Prog, false)
		if e1 != nil || e2 != nil || f1 != f2 {
			return fmt.Errorf("the expanded program prints differently from the hand-substituted one:\n%q\n%q (%v %v)", f1, f2, e1, e2)
		}
		// (4) expanding again gives the same tree; definitions unchanged
		pp2 := front.Parse(src, false)
		p.St.DefineMacros(pp2.Prog)
		again, _ := dump.Dump(expandLive(p, pp2.Prog), dump.Options{})
		if again != gotDump {
			return fmt.Errorf("expanding the same input a second time gives a different tree\nprogram: %s\nfirst:  %s\nsecond: %s", src, gotDump, again)
		}
		for _, e := range seen {
			ep := front.Parse(e.src, false)
			p.St.DefineMacros(ep.Prog)
			d, _ := dump.Dump(expandLive(p, ep.Prog), dump.Options{})
			if d != e.dump {
				return fmt.Errorf("after later uses, expanding the earlier input %q gives a different tree (call sites are not independent)\nbefore: %s\nafter:  %s", e.src, e.dump, d)
			}
		}
		seen = append(seen, expanded{src, gotDump})
		// (3) evaluation
		rp, rh := p.Run(src), h.Run(hsrc)
		if sess.TimedOut(rp) || sess.TimedOut(rh) || sess.MemoryRefused(rp) || sess.MemoryRefused(rh) {
			return nil
		}
		if rp.Out != rh.Out || rp.Echo != rh.Echo || rp.Failed() != rh.Failed() {
			return fmt.Errorf("evaluation differs from the hand-substituted program\nprogram:  %s -> output %q echo %q errors %v\nexpected: %s -> output %q echo %q errors %v\nmacros: %s",
				src, rp.Out, rp.Echo, rp.Errs, hsrc, rh.Out, rh.Echo, rh.Errs, strings.Join(history, " ;; "))
		}
		_ = inspected
	}
	return nil
}

// ---- generation ------------------------------------------------------------------------------------------------------------

type tgen struct {
	t      *rapid.T
	params []string
	uses   map[string]int
	sh     shapes // further template shapes (c13_shapes_test.go); the zero value draws exactly what TestSessions always drew
}

func (g *tgen) hole() *gen.Node {
	// prefer parameters that are not used up (0..3 uses each)
	var cands []string
	for _, p := range g.params {
		if g.uses[p] < 3 {
			cands = append(cands, p)
		}
	}
	if len(cands) == 0 || rapid.IntRange(0, 5).Draw(g.t, "lit") == 0 {
		return gen.IntLit(fmt.Sprint(rapid.IntRange(0, 9).Draw(g.t, "n")))
	}
	p := rapid.SampledFrom(cands).Draw(g.t, "param")
	g.uses[p]++
	return unq(p)
}

func (g *tgen) template(depth int) *gen.Node {
	if depth <= 0 {
		return g.hole()
	}
	sub := func() *gen.Node { return g.template(depth - 1) }
	extra := g.sh.templateShapes()
	choice := rapid.IntRange(0, 11+len(extra)).Draw(g.t, "tmpl")
	if choice > 11 {
		return g.shapeTemplate(extra[choice-12], sub)
	}
	switch choice {
	case 0, 1, 2:
		return gen.Infix(rapid.SampledFrom([]string{"+", "-", "*", "%", "<<", "&", "|"}).Draw(g.t, "op"), sub(), sub())
	case 3:
		return gen.Prefix(rapid.SampledFrom([]string{"-", "~", "+"}).Draw(g.t, "pop"), sub())
	case 4:
		return gen.IfElse(gen.Infix(rapid.SampledFrom([]string{">", "<", "==", "<="}).Draw(g.t, "cmp"), sub(), sub()), []*gen.Node{sub()}, []*gen.Node{sub()})
	case 5:
		return gen.Call(gen.Id("id"), sub())
	case 6:
		return gen.Index(gen.Array(sub(), sub()), gen.IntLit(fmt.Sprint(rapid.IntRange(0, 1).Draw(g.t, "idx"))))
	case 7:
		return gen.Call(gen.Lambda([]string{"q"}, false, gen.Infix("+", gen.Id("q"), sub())), sub())
	case 8:
		return gen.Builtin("len", gen.Array(sub(), sub(), sub()))
	case 9:
		return gen.Dot(gen.Map(gen.Str("k"), sub()), "k")
	case 10:
		return gen.Infix("*", sub(), gen.Infix("-", sub(), sub()))
	default:
		return g.hole()
	}
}

func genArg(t *rapid.T, macros []*MacroDef, depth int, sh shapes) (*gen.Node, bool, bool) {
	lit := func() *gen.Node { return gen.IntLit(fmt.Sprint(rapid.IntRange(0, 9).Draw(t, "alit"))) }
	v := func() *gen.Node { return gen.Id(rapid.SampledFrom([]string{"g1", "g2", "g3"}).Draw(t, "gvar")) }
	top := 9
	if sh.Slices {
		top = 11
	}
	choice := rapid.IntRange(0, top).Draw(t, "arg")
	if choice > 9 { // an argument that holds a range of its own, the start bound possibly a macro call
		bound, _, nest := genArg(t, macros, depth-1, shapes{})
		if choice == 10 {
			return gen.Builtin("len", gen.Slice(seqTarget(t), bound, nil)), true, nest
		}
		return gen.Index(gen.Slice(seqTarget(t), bound, nil), gen.IntLit("0")), true, nest
	}
	switch choice {
	case 0:
		return lit(), false, false
	case 1:
		return v(), false, false
	case 2, 3:
		return gen.Infix(rapid.SampledFrom([]string{"+", "-", "|", "==", "<"}).Draw(t, "aop"), v(), lit()), true, false
	case 4:
		return gen.Call(gen.Id("pr"), lit()), false, false
	case 5:
		return gen.Infix("+", gen.Call(gen.Id("pr"), lit()), v()), true, false
	case 6:
		return gen.Prefix("-", v()), true, false
	case 7:
		if depth > 0 && len(macros) > 0 {
			d := rapid.SampledFrom(macros).Draw(t, "inner")
			args := make([]*gen.Node, len(d.Params))
			op := false
			for i := range args {
				a, o, _ := genArg(t, macros, depth-1, sh)
				args[i] = a
				op = op || o
			}
			return gen.Call(gen.Id(d.Name), args...), op, true
		}
		return lit(), false, false
	case 8:
		return gen.IfElse(gen.Infix(">", v(), lit()), []*gen.Node{lit()}, []*gen.Node{v()}), true, false
	default:
		return gen.Infix("*", lit(), gen.Infix("+", v(), lit())), true, false
	}
}

func TestSessions(t *testing.T) {
	pbt.Check(t, 2500, 250000, func(rt *rapid.T) { runSession(rt, shapes{}) })
}

// runSession draws one session, checks it and records it. sh switches on the further shapes of c13_shapes_test.go; with
// the zero value the draws are exactly those TestSessions has always made.
func runSession(rt *rapid.T, sh shapes) {
	var c Case
	var macros []*MacroDef
	nm := rapid.IntRange(1, 3).Draw(rt, "nmacros")
	multiUse, nested, argOp, callSites := false, false, false, map[string]int{}
	oddNames, adjacent := false, false
	libNamed, rangeSite, twice, later := false, false, false, false
	useSite := func() Input {
		d := rapid.SampledFrom(macros).Draw(rt, "macro")
		callSites[d.Name]++
		mkCall := func() *gen.Node {
			args := make([]*gen.Node, len(d.Params))
			for i := range args {
				a, op, nest := genArg(rt, macros, 1, sh)
				args[i] = a
				argOp = argOp || op
				nested = nested || nest
			}
			return gen.Call(gen.Id(d.Name), args...)
		}
		call := mkCall()
		var stmts []*gen.Node
		top := 6
		if sh.Slices {
			top = 10
		}
		switch rapid.IntRange(0, top).Draw(rt, "site") {
		case 0:
			stmts = []*gen.Node{gen.Println(call)}
		case 1:
			stmts = []*gen.Node{call}
		case 2:
			stmts = []*gen.Node{gen.Func("usef", []string{"a"}, false, gen.Infix("+", gen.Id("a"), call)), gen.Println(gen.Call(gen.Id("usef"), gen.IntLit("1")))}
		case 3:
			stmts = []*gen.Node{gen.For(gen.Assign("zi", gen.IntLit("2")), gen.Println(gen.Id("zi"), call))}
		case 4:
			stmts = []*gen.Node{gen.IfElse(gen.Infix(">", call, gen.IntLit("2")), []*gen.Node{gen.Println(gen.Str("big"))}, []*gen.Node{gen.Println(gen.Str("small"))})}
		case 5:
			stmts = []*gen.Node{gen.Println(gen.Call(gen.Id("id"), call), gen.Array(call))}
			callSites[d.Name]++
		case 6:
			stmts = []*gen.Node{gen.Assign("zr", gen.Infix("*", call, gen.IntLit("2"))), gen.Println(gen.Id("zr"))}
		default: // the call site is (in) a bound of a range: seq[call:], seq[call:call'], seq[n:call], seq[call op n:]
			stmts = rangeSiteStmts(rt, top-7, call, mkCall)
			if top-7 == 1 {
				callSites[d.Name]++
			}
			rangeSite = true
		}
		return Input{Stmts: stmts}
	}
	// parameter names: plain ones, constant-style ones, and names that are also a macro, a global or a function
	namePool := []string{"pa", "pb", "pc", "pd", "pa", "pb", "pc", "pd", "X", "PB", "N_1", "mac0", "mac1", "mac2", "g1", "pr", "x"}
	if sh.LibNames { // ... or a function / constant of the library (the substitution does not care what a parameter is called)
		namePool = append(namePool, libraryNames...)
	}
	newDef := func(name string, sameParams []string) *MacroDef {
		params := sameParams
		if params == nil {
			k := rapid.IntRange(0, 4).Draw(rt, "k")
			for len(params) < k {
				n := rapid.SampledFrom(namePool).Draw(rt, "pname")
				dup := false
				for _, q := range params {
					dup = dup || q == n
				}
				if !dup {
					params = append(params, n)
					oddNames = oddNames || !strings.HasPrefix(n, "p") || n == "pr"
					libNamed = libNamed || isLibraryName(n)
				}
			}
		}
		g := &tgen{t: rt, params: params, uses: map[string]int{}, sh: sh}
		d := &MacroDef{Name: name, Params: params, Template: g.template(rapid.IntRange(1, 3).Draw(rt, "tdepth")),
			Form: rapid.SampledFrom([]int{0, 0, 0, 1, 2, 3}).Draw(rt, "bodyform")}
		for _, n := range g.uses {
			if n >= 2 {
				multiUse = true
			}
		}
		return d
	}
	// defsFor returns the definitions of one macro as they are written into ONE input: the effective one last, and with
	// sh.Redefine sometimes 1..2 superseded definitions of the same name in front of it (same parameters or others).
	defsFor := func(name string) []*MacroDef {
		var all []*MacroDef
		if sh.Redefine && rapid.IntRange(0, 1).Draw(rt, "superseded") == 0 {
			for n := rapid.IntRange(1, 2).Draw(rt, "nsuperseded"); n > 0; n-- {
				all = append(all, newDef(name, nil))
			}
			twice = true
		}
		var same []string
		if len(all) > 0 && rapid.Bool().Draw(rt, "sameparams") {
			same = append([]string{}, all[len(all)-1].Params...)
		}
		return append(all, newDef(name, same))
	}
	var pending *Input                                                 // a definition input that the next definition joins (adjacent definitions in one input)
	firstViaEval := rapid.IntRange(0, 3).Draw(rt, "firstviaeval") == 0 // the session's first macro is defined and used inside an eval("...") string
	for i := 0; i < nm; i++ {
		all := defsFor(fmt.Sprintf("mac%d", i))
		macros = append(macros, all[len(all)-1])
		if pending != nil {
			adjacent = true
		} else {
			c.Inputs = append(c.Inputs, Input{Def: all[0]})
			all = all[1:]
		}
		last := &c.Inputs[len(c.Inputs)-1]
		last.MoreDefs = append(last.MoreDefs, all...)
		pending = nil
		if i == 0 && firstViaEval {
			in := &c.Inputs[len(c.Inputs)-1]
			in.ViaEval = true
			in.Stmts = useSite().Stmts
			pbt.Label("session:first-macro-defined-and-used-inside-eval")
			continue
		}
		switch rapid.IntRange(0, 3).Draw(rt, "defshape") {
		case 0:
			if i+1 < nm { // the next definition follows in the same input
				pending = &c.Inputs[len(c.Inputs)-1]
				continue
			}
		case 1: // uses in the same input as the definition(s)
			in := &c.Inputs[len(c.Inputs)-1]
			if in.Def != nil {
				in.Stmts = useSite().Stmts
			}
		}
		for u := rapid.IntRange(1, 3).Draw(rt, "uses"); u > 0; u-- {
			if rapid.IntRange(0, 5).Draw(rt, "panicbetween") == 0 {
				c.Inputs = append(c.Inputs, Input{Panic: true})
				pbt.Label("session:panic-between-definition-and-use")
			}
			c.Inputs = append(c.Inputs, useSite())
		}
	}
	if sh.Redefine && rapid.IntRange(0, 2).Draw(rt, "redefinelater") == 0 {
		// a later input defines one of the names again (alone, or with uses in the same input); the uses that follow expand with it
		i := rapid.IntRange(0, len(macros)-1).Draw(rt, "redefined")
		all := defsFor(macros[i].Name)
		macros[i] = all[len(all)-1]
		in := Input{Def: all[0], MoreDefs: all[1:]}
		if rapid.Bool().Draw(rt, "redefinedused") {
			in.Stmts = useSite().Stmts
		}
		c.Inputs = append(c.Inputs, in, useSite())
		later = true
	}
	for u := rapid.IntRange(0, 3).Draw(rt, "more"); u > 0; u-- {
		c.Inputs = append(c.Inputs, useSite())
	}
	if err := check(c); err != nil {
		pbt.Fail(rt, "session", c, "%v", err)
	}
	many := false
	for _, n := range callSites {
		if n >= 2 {
			many = true
		}
	}
	nt := (multiUse || many || nested) && argOp
	lbl := "session:simple"
	if nt {
		lbl = "session:multi-use/multi-site/nested+operator-argument"
	}
	var sb strings.Builder
	rangeTemplate := false
	for _, in := range c.Inputs {
		for _, d := range in.defs() {
			sb.WriteString(defSource(d) + "\n")
			rangeTemplate = rangeTemplate || holeInRangeBound(d.Template)
		}
		sb.WriteString(gen.Print(in.Stmts, gen.PrintOptions{}))
	}
	if oddNames {
		pbt.Label("session:parameter-named-like-constant/macro/global")
	}
	if adjacent {
		pbt.Label("session:adjacent-definitions-in-one-input")
	}
	if libNamed {
		pbt.Label("session:parameter-named-like-library-function")
	}
	if rangeTemplate {
		pbt.Label("session:unquote-in-range-bound-of-template")
	}
	if rangeSite {
		pbt.Label("session:call-site-in-range-bound")
	}
	if twice {
		pbt.Label("session:name-defined-several-times-in-one-input")
	}
	if later {
		pbt.Label("session:name-defined-again-in-later-input")
	}
	pbt.Case(nt, sb.String(), lbl)
	pbt.Sample("session", strings.Split(strings.TrimSpace(sb.String()), "\n"))
}

func oracle(kind string, raw json.RawMessage) error {
	var c Case
	if err := json.Unmarshal(raw, &c); err != nil {
		return err
	}
	return check(c)
}

func TestReplay(t *testing.T)   { pbt.RunReplay(t, oracle) }
func TestARegress(t *testing.T) { pbt.RunRegress(t, "C13", oracle) }

// expandLive expands under a live evaluation context, as every caller in grol does (repl.EvalOne installs one and
// cancels it when the input is done: a macro body evaluated later under that cancelled context rightly fails).
func expandLive(p *sess.S, prog ast.Node) ast.Node {
	cancel := p.St.SetContext(context.Background(), 5*time.Second)
	defer cancel()
	return p.St.ExpandMacros(prog)
}
