// C13 — further session shapes, drawn by the session generator of c13_test.go when switched on:
// ranges in templates and around call sites, parameters named like library functions, names defined several times.
package c13

import (
	"fmt"
	"testing"

	"pgregory.net/rapid"
	"verif/gen"
	"verif/pbt"
)

// shapes switches on input shapes beyond those of TestSessions. The zero value adds nothing (and no draw).
type shapes struct {
	Slices   bool // templates with seq[lo:] / seq[lo:hi] whose bounds hold unquote(parameter); call sites and arguments in such bounds
	LibNames bool // parameters named like functions / constants of the library; templates that call such functions
	Redefine bool // a macro name defined several times in one input, or again in a later input (the last definition is the macro)
}

const (
	tRangeOpen   = iota // seq[T:]
	tRangeClosed        // seq[T:T]
	tRangeOfHole        // [T, T, n, n][T:] - the sequence holds holes too
	tLibCall            // max(T, T), min(T, T), abs(T)
)

func (sh shapes) templateShapes() []int {
	var l []int
	if sh.Slices {
		l = append(l, tRangeOpen, tRangeOpen, tRangeClosed, tRangeOfHole)
	}
	if sh.LibNames {
		l = append(l, tLibCall)
	}
	return l
}

// libraryNames are identifiers that the library of a full session (extensions and the grol-written functions loaded
// with them) already gives a meaning to; every one is an ordinary identifier for the parser. A macro parameter may be
// called like any of them: unquote(min) inside macro(min, max) { ... } is the first argument.
var libraryNames = []string{
	"min", "max", "abs", "str", "keys", "int", "type", "format", "width", "round", "split", "join", "trim", "exp", "read", "run",
	"save", "load", "eval", "sin", "sqrt", "pow", "ln", "ceil", "floor", "rand", "sleep", "sprintf", "printf", "log2", "PI", "E",
	"min", "max", "abs", "str", "keys", "int", "type", "format",
}

func isLibraryName(n string) bool {
	for _, l := range libraryNames {
		if l == n {
			return true
		}
	}
	return false
}

// seqTarget draws something that can be sliced: ten elements, so that most small bounds are in range.
func seqTarget(t *rapid.T) *gen.Node {
	arr := func() *gen.Node {
		els := make([]*gen.Node, 10)
		for i := range els {
			els[i] = gen.IntLit(fmt.Sprint(10 + i))
		}
		return gen.Array(els...)
	}
	switch rapid.IntRange(0, 3).Draw(t, "seq") {
	case 0:
		return gen.Str("abcdefghij")
	case 1:
		return gen.Call(gen.Id("id"), arr())
	default:
		return arr()
	}
}

// wrapRange makes an integer of a range most of the time (so that the surrounding arithmetic of the template or the
// site still evaluates), and sometimes leaves the range as it is.
func wrapRange(t *rapid.T, r *gen.Node) *gen.Node {
	switch rapid.IntRange(0, 4).Draw(t, "rangeuse") {
	case 0:
		return r
	case 1:
		return gen.Index(r, gen.IntLit("0"))
	default:
		return gen.Builtin("len", r)
	}
}

func (g *tgen) shapeTemplate(shape int, sub func() *gen.Node) *gen.Node {
	switch shape {
	case tRangeOpen:
		return wrapRange(g.t, gen.Slice(seqTarget(g.t), sub(), nil))
	case tRangeClosed:
		return wrapRange(g.t, gen.Slice(seqTarget(g.t), sub(), sub()))
	case tRangeOfHole:
		seq := gen.Array(sub(), sub(), gen.IntLit("7"), gen.IntLit("8"), gen.IntLit("9"))
		if rapid.Bool().Draw(g.t, "openrange") {
			return wrapRange(g.t, gen.Slice(seq, g.hole(), nil))
		}
		return wrapRange(g.t, gen.Slice(seq, g.hole(), sub()))
	default: // tLibCall: a library function called by the template (its name may also be a parameter: only unquote(name) is a hole)
		if rapid.IntRange(0, 2).Draw(g.t, "libcall") == 0 {
			return gen.Call(gen.Id("abs"), sub())
		}
		return gen.Call(gen.Id(rapid.SampledFrom([]string{"min", "max"}).Draw(g.t, "libfn")), sub(), sub())
	}
}

// rangeSiteStmts puts macro call sites into the bounds of a range of the calling program.
func rangeSiteStmts(t *rapid.T, shape int, call *gen.Node, another func() *gen.Node) []*gen.Node {
	var r *gen.Node
	switch shape {
	case 0: // seq[call:]
		r = gen.Slice(seqTarget(t), call, nil)
	case 1: // seq[call:call']
		r = gen.Slice(seqTarget(t), call, another())
	case 2: // seq[n:call]
		r = gen.Slice(seqTarget(t), gen.IntLit(fmt.Sprint(rapid.IntRange(0, 2).Draw(t, "lo"))), call)
	default: // seq[call % 5:] / seq[id(call):] - the call site below the start bound
		if rapid.Bool().Draw(t, "incall") {
			r = gen.Slice(seqTarget(t), gen.Call(gen.Id("id"), call), nil)
		} else {
			r = gen.Slice(seqTarget(t), gen.Infix("%", call, gen.IntLit("5")), nil)
		}
	}
	return []*gen.Node{gen.Println(wrapRange(t, r))}
}

// holeInRangeBound reports whether the template has an unquote(...) somewhere in a bound of a range.
func holeInRangeBound(tmpl *gen.Node) bool {
	found := false
	gen.Walk(tmpl, func(n *gen.Node) {
		if n.K != gen.KSlice {
			return
		}
		for _, b := range n.Kids[1:] {
			gen.Walk(b, func(m *gen.Node) {
				found = found || (m.K == gen.KBuiltin && m.S == "unquote")
			})
		}
	})
	return found
}

// TestSessionShapes: the sessions of TestSessions with at least one of the further shapes switched on.
func TestSessionShapes(t *testing.T) {
	pbt.Check(t, 300, 20000, func(rt *rapid.T) {
		mask := rapid.IntRange(1, 7).Draw(rt, "shapes")
		runSession(rt, shapes{Slices: mask&1 != 0, LibNames: mask&2 != 0, Redefine: mask&4 != 0})
	})
}
