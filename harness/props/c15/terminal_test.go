package c15

import (
	"bytes"
	"encoding/json"
	"fmt"
	"os"
	"os/exec"
	"path/filepath"
	"strings"
	"sync"
	"testing"
	"time"

	"pgregory.net/rapid"
	"verif/pbt"
)

// ---- the real line-at-a-time path: the interactive REPL on a terminal ---------------------------------------------
//
// repl.Interactive accumulates typed lines until the parser stops asking for more. It only runs on a terminal, so the
// grol command is started under script(1) (util-linux), which gives it a pseudo terminal, and the program text is typed
// into it line by line (carriage return = Enter, the terminal is in raw mode). The same text is run as a file by the
// same binary. Oracle: the lines the program prints through println("RESULT:", ...) are the same, in the same order.
// Where script(1) or the go command is not available the family is skipped.

type TermCase struct {
	Text string `json:"text"` // complete program, several lines, printing through println("RESULT:", ...)
}

var (
	termOnce sync.Once
	termBin  string
	termErr  error
	termDir  string
)

func termSetup() (string, error) {
	termOnce.Do(func() {
		if _, err := exec.LookPath("script"); err != nil {
			termErr = fmt.Errorf("script(1) not found: %v", err)
			return
		}
		dir, err := os.MkdirTemp("", "verif-c15-term-")
		if err != nil {
			termErr = err
			return
		}
		termDir = dir
		if b := os.Getenv("VERIF_GROL_BIN"); b != "" { // development aid: a prebuilt binary
			termBin = b
			return
		}
		termBin = filepath.Join(dir, "grol")
		if out, err := exec.Command("go", "build", "-o", termBin, "grol.io/grol").CombinedOutput(); err != nil {
			termErr = fmt.Errorf("cannot build the grol command: %v %s", err, out)
		}
	})
	return termBin, termErr
}

func resultLines(out []byte) []string {
	var res []string
	for _, l := range strings.Split(strings.ReplaceAll(string(out), "\r", "\n"), "\n") {
		if strings.HasPrefix(l, "RESULT:") {
			res = append(res, strings.TrimRight(l, " "))
		}
	}
	return res
}

func runWithTimeout(cmd *exec.Cmd, d time.Duration) ([]byte, bool) {
	var buf bytes.Buffer
	cmd.Stdout, cmd.Stderr = &buf, &buf
	if err := cmd.Start(); err != nil {
		return []byte(err.Error()), false
	}
	done := make(chan struct{})
	go func() { _ = cmd.Wait(); close(done) }()
	select {
	case <-done:
		return buf.Bytes(), true
	case <-time.After(d):
		_ = cmd.Process.Kill()
		<-done
		return buf.Bytes(), false
	}
}

var errNoTerminal = fmt.Errorf("no terminal harness")

func checkTerminal(c TermCase) error {
	bin, err := termSetup()
	if err != nil {
		return errNoTerminal
	}
	dir, err := os.MkdirTemp(termDir, "case-")
	if err != nil {
		return errNoTerminal
	}
	defer os.RemoveAll(dir)
	file := filepath.Join(dir, "prog.gr")
	_ = os.WriteFile(file, []byte(c.Text), 0o644)
	fcmd := exec.Command(bin, "-no-auto", "-quiet", "prog.gr")
	fcmd.Dir = dir
	fout, ok := runWithTimeout(fcmd, 20*time.Second)
	if !ok {
		return nil // inconclusive: not this family's subject
	}
	want := resultLines(fout)
	// typed: every line followed by Enter, then end of input (twice: the first one may only end a pending input)
	typed := strings.ReplaceAll(strings.TrimRight(c.Text, "\n"), "\n", "\r") + "\r"
	tcmd := exec.Command("script", "-qec", bin+" -no-auto -quiet -no-load-save", "/dev/null")
	tcmd.Dir = dir
	tcmd.Env = append(os.Environ(), "TERM=xterm", "HOME="+dir)
	stdin, err := tcmd.StdinPipe()
	if err != nil {
		return errNoTerminal
	}
	go func() {
		time.Sleep(300 * time.Millisecond)
		for _, line := range strings.SplitAfter(typed, "\r") {
			_, _ = stdin.Write([]byte(line))
			time.Sleep(15 * time.Millisecond)
		}
		time.Sleep(700 * time.Millisecond)
		_, _ = stdin.Write([]byte{4})
		time.Sleep(300 * time.Millisecond)
		_, _ = stdin.Write([]byte{4})
		time.Sleep(300 * time.Millisecond)
		_ = stdin.Close()
	}()
	tout, ok := runWithTimeout(tcmd, 30*time.Second)
	if !ok {
		return nil // the terminal session did not end: inconclusive (timing), never a violation
	}
	got := resultLines(tout)
	if len(want) == 0 {
		return nil // the program fails as a file: nothing to compare
	}
	if strings.Join(got, "\n") != strings.Join(want, "\n") {
		if len(got) == 0 && !bytes.Contains(tout, []byte("$")) {
			return errNoTerminal // the REPL never showed a prompt here
		}
		return fmt.Errorf("typed line by line into the interactive REPL the program prints\n  %q\nrun as a file it prints\n  %q\nprogram:\n%s", got, want, c.Text)
	}
	return nil
}

// pieces that span several lines, with blank lines in every place a line-at-a-time reader has to carry over
var termPieces = []string{
	"x = \"a\n\nb\"\nprintln(\"RESULT:\", len(x), x == \"a\\n\\nb\")",
	"x = `l1\n\n\nl4`\nprintln(\"RESULT:\", len(x))",
	"x = \"\n\"\nprintln(\"RESULT:\", len(x))",
	"x = \"a\n \n\nb\"\nprintln(\"RESULT:\", len(x))",
	"a = [1,\n\n2,\n3]\nprintln(\"RESULT:\", a)",
	"m = {\"k\":\n\n1}\nprintln(\"RESULT:\", m)",
	"func f(a,\n\nb) {\n\na + b\n\n}\nprintln(\"RESULT:\", f(1, 2))",
	"if true {\n\nprintln(\"RESULT:\", \"then\")\n\n} else {\nprintln(\"RESULT:\", \"else\")\n}",
	"s = 0\nfor i = 3 {\n\ns = s + i\n\n}\nprintln(\"RESULT:\", s)",
	"y = (1 +\n\n2)\nprintln(\"RESULT:\", y)",
	"/* a\n\ncomment */ z = 5\nprintln(\"RESULT:\", z)",
	"println(\"RESULT:\", \"one\")\n\nprintln(\"RESULT:\", \"two\")",
	"w = \"x\ny\"\n\nprintln(\"RESULT:\", w == \"x\\ny\")",
	"g = x => {\n\nx * 2\n}\nprintln(\"RESULT:\", g(4))",
	"t = \"x  y\n\n\nend\"\nprintln(\"RESULT:\", len(t))", // (no TAB: typed into a terminal it asks for a completion)
}

func TestTerminalPieces(t *testing.T) {
	for i, p := range termPieces {
		if !pbt.Mine(i) {
			continue
		}
		c := TermCase{Text: p + "\n"}
		err := checkTerminal(c)
		if err == errNoTerminal {
			t.Skip("no terminal harness here (script(1) / go build / prompt)")
		}
		if err != nil {
			pbt.Fail(t, "terminal", c, "%v", err)
		}
		pbt.CaseExact(true, "terminal-piece")
	}
}

func TestTerminalSessions(t *testing.T) {
	pbt.Check(t, 6, 150, func(rt *rapid.T) {
		n := rapid.IntRange(2, 4).Draw(rt, "npieces")
		var parts []string
		for i := 0; i < n; i++ {
			p := rapid.SampledFrom(termPieces).Draw(rt, "piece")
			if rapid.Bool().Draw(rt, "blank-between") {
				p += "\n"
			}
			parts = append(parts, p)
		}
		c := TermCase{Text: strings.Join(parts, "\n") + "\n"}
		err := checkTerminal(c)
		if err == errNoTerminal {
			rt.Skip("no terminal harness here")
		}
		if err != nil {
			pbt.Fail(rt, "terminal", c, "%v", err)
		}
		pbt.Case(true, c.Text, "terminal-session")
		pbt.Sample("terminal-session", []string{c.Text})
	})
}

func terminalOracle(raw json.RawMessage) error {
	var c TermCase
	if err := json.Unmarshal(raw, &c); err != nil {
		return err
	}
	err := checkTerminal(c)
	if err == errNoTerminal {
		return nil
	}
	return err
}
