// C15 — line-at-a-time input is equivalent to whole-file input.
package c15

import (
	"encoding/json"
	"fmt"
	"strings"
	"testing"
	"time"

	"pgregory.net/rapid"
	"verif/dump"
	"verif/front"
	"verif/gen"
	"verif/pbt"
	"verif/sess"
)

func TestMain(m *testing.M) {
	sess.Init()
	pbt.Main(m, pbt.Meta{
		Property: "C15",
		Level:    "exploration",
		Rule: "(1) complete programs printed from harness-owned trees with random layout (newlines inside brackets, comments): line-mode and file-mode parsing give the intended tree, no error, no continuation. " +
			"(2) every prefix of such a program that ends at a token boundary while a '(' '[' '{' (block or map) is open or right after a binary operator ('=', ':=', ':', '=>', infix operators), and prefixes cut " +
			"inside a string literal or block comment: in line mode ContinuationNeeded() must be true and Errors() empty; feeding the remainder as the REPL does (previous + newline + rest) must give the tree " +
			"of the complete program. (3) typed-grammar scripts of 2..25 top-level statements (with macros defined before use) evaluated at once versus split into consecutive chunks at generated statement " +
			"boundaries and fed to one persistent session: concatenated output and final globals must be equal. Non-trivial: (1) a newline inside an open bracket; (2) every cut, classified by the open construct; " +
			"(3) a split into >= 2 chunks of a script with a function or macro used across a chunk boundary; distinct by text (and cut position). " +
			"(4) the interactive REPL itself: the grol command is started on a pseudo terminal (script(1)) and multi-line programs - strings, brackets, blocks and comments spanning lines, with blank " +
			"lines inside and between them - are typed line by line; what they print must equal what the same text prints when run as a file by the same binary (skipped where script(1) is missing).",
		Assumptions: []string{
			"cuts after a prefix operator, a dot, or the keywords if / for / else are exercised and labelled but not asserted (the property names brackets, strings, comments and binary operators)",
			"scripts that end in an error when evaluated at once are outside clause 3 and skipped (counted)",
			"programs in the class of known finding K-C02-2 are irrelevant here (nothing is formatted); none is excluded",
		},
	})
}

type Case struct {
	Text   string `json:"text"`
	Cut    int    `json:"cut"`               // byte offset of the cut (clause 2); -1 for clause 1
	Why    string `json:"why"`               // the construct open at the cut
	NoJoin bool   `json:"no_join,omitempty"` // the next token must follow without whitespace (call / index): a line break there changes the program
	// intended tree of the whole text
	Expect string `json:"expect"`
}

func parseDump(text string, lineMode bool) (string, front.Parsed) {
	p := front.Parse(text, lineMode)
	if !p.Accepted() {
		return "", p
	}
	d, _ := dump.Dump(p.Prog, dump.Options{})
	return d, p
}

func checkComplete(c Case) error {
	for _, lm := range []bool{false, true} {
		d, p := parseDump(c.Text, lm)
		mode := map[bool]string{false: "file", true: "line"}[lm]
		if !p.Accepted() {
			return fmt.Errorf("%s mode does not accept a complete program (%s):\n%s", mode, p.Why(), c.Text)
		}
		if c.Expect != "" && d != c.Expect {
			return fmt.Errorf("%s mode parses a complete program to a different tree than intended:\n%s\ngot:  %s\nwant: %s", mode, c.Text, d, c.Expect)
		}
	}
	return nil
}

func checkCut(c Case) error {
	prefix := c.Text[:c.Cut]
	p := front.Parse(prefix, true)
	if p.Panic != "" {
		return fmt.Errorf("line-mode parser panicked on the prefix %q: %s", prefix, p.Panic)
	}
	if len(p.Errs) > 0 {
		return fmt.Errorf("prefix cut %s is rejected instead of asking for more input:\nprefix: %q\nerrors: %v", c.Why, prefix, p.Errs)
	}
	if !p.Cont {
		return fmt.Errorf("prefix cut %s is silently accepted as complete instead of asking for more input:\nprefix: %q", c.Why, prefix)
	}
	// the REPL then feeds previous + "\n" + the next line(s)
	rest := c.Text[c.Cut:]
	joined := prefix + "\n" + rest
	if c.NoJoin || strings.HasPrefix(c.Why, "inside a string") || strings.HasPrefix(c.Why, "inside a block comment") {
		return nil // the added newline becomes part of the literal: the tree legitimately differs
	}
	d, p2 := parseDump(joined, true)
	if !p2.Accepted() {
		return fmt.Errorf("after the continuation the joined input is not accepted (%s):\n%q", p2.Why(), joined)
	}
	if c.Expect != "" && d != c.Expect {
		return fmt.Errorf("after the continuation the joined input parses to a different tree:\n%q\ngot:  %s\nwant: %s", joined, d, c.Expect)
	}
	return nil
}

func check(c Case) error {
	if c.Cut < 0 {
		return checkComplete(c)
	}
	return checkCut(c)
}

type cut struct {
	at     int
	why    string
	assert bool
	noJoin bool
}

// cuts lists the interesting cut positions of a printed program.
func cuts(toks []gen.Tok, offs [][2]int, text string) []cut {
	var out []cut
	for i, t := range toks {
		if i == len(toks)-1 {
			break
		}
		end := offs[i][1]
		var open, op, kw string
		for _, o := range t.Open {
			switch o {
			case "(", "[", "{block", "{map":
				open = o
			case "op":
				op = o
			case "kw":
				kw = o
			}
		}
		glue := toks[i+1].Glue
		switch {
		case op != "":
			out = append(out, cut{end, "right after the binary operator " + t.Text, true, glue})
		case open != "":
			out = append(out, cut{end, "inside an open " + open, true, glue})
		case kw != "":
			out = append(out, cut{end, "right after " + t.Text + " (not asserted)", false, glue})
		}
		// inside string literals and block comments: at every inner byte boundary (sampled by the caller)
		if len(t.Text) >= 2 && (t.Text[0] == '"' || t.Text[0] == '`') {
			for k := 1; k < len(t.Text); k++ {
				// not in the middle of an escape sequence
				if t.Text[0] == '"' && k >= 2 && t.Text[k-1] == '\\' && (k < 3 || t.Text[k-2] != '\\') {
					continue
				}
				out = append(out, cut{offs[i][0] + k, "inside a string literal", true, false})
			}
		}
		if strings.HasPrefix(t.Text, "/*") {
			for k := 2; k < len(t.Text)-1; k++ {
				out = append(out, cut{offs[i][0] + k, "inside a block comment", true, false})
			}
		}
	}
	return out
}

func hasNewlineInsideBracket(toks []gen.Tok, offs [][2]int, text string) bool {
	for i := 0; i+1 < len(toks); i++ {
		gap := text[offs[i][1]:offs[i+1][0]]
		if strings.Contains(gap, "\n") {
			for _, o := range toks[i].Open {
				if o == "(" || o == "[" || o == "{map" {
					return true
				}
			}
		}
	}
	return false
}

func TestParsing(t *testing.T) {
	pbt.Check(t, 2500, 250000, func(rt *rapid.T) {
		cfg := gen.SynCfg{MaxDepth: rapid.IntRange(1, 3).Draw(rt, "depth"), MaxStmts: 3, Comments: rapid.Bool().Draw(rt, "comments")}
		stmts := gen.SynProgram(rt, cfg)
		o := gen.PrintOptions{Choose: gen.RapidChooser(rt), RedundantParen: true}
		toks := gen.Tokens(stmts, o)
		text, offs := gen.Layout(toks, o.Choose)
		expect := gen.Expect(stmts, false)
		c := Case{Text: text, Cut: -1, Expect: expect}
		if err := check(c); err != nil {
			pbt.Fail(rt, "complete", c, "%v", err)
		}
		lbl := "complete:flat"
		nl := hasNewlineInsideBracket(toks, offs, text)
		if nl {
			lbl = "complete:newline-inside-bracket"
		}
		pbt.Case(nl, text, lbl)
		pbt.Sample("complete", text)
		// clause 2: up to 25 cuts of this program
		all := cuts(toks, offs, text)
		if len(all) == 0 {
			return
		}
		n := len(all)
		if n > 25 {
			n = 25
		}
		for k := 0; k < n; k++ {
			ct := all[rapid.IntRange(0, len(all)-1).Draw(rt, "cut")]
			cc := Case{Text: text, Cut: ct.at, Why: ct.why, Expect: expect, NoJoin: ct.noJoin}
			why := ct.why
			if i := strings.Index(why, " operator"); i >= 0 {
				why = why[:i+9]
			}
			if !ct.assert {
				p := front.Parse(text[:ct.at], true)
				switch {
				case len(p.Errs) > 0:
					pbt.Label("cut-not-asserted:rejected")
				case p.Cont:
					pbt.Label("cut-not-asserted:continuation")
				default:
					pbt.Label("cut-not-asserted:accepted")
				}
				continue
			}
			if ex := excludedCut(cc); ex != "" {
				pbt.Excluded(ex)
				continue
			}
			if err := check(cc); err != nil {
				pbt.Fail(rt, "cut", cc, "%v", err)
			}
			pbt.Case(true, fmt.Sprintf("%d|%s", ct.at, text), "cut:"+why)
			pbt.Sample("cut:"+why, map[string]any{"prefix": text[:ct.at], "rest": text[ct.at:]})
		}
	})
}

// ---- clause 3: chunked evaluation -----------------------------------------------------------------------------------------

type Script struct {
	Stmts  []string `json:"stmts"`  // printed top-level statements
	Splits []int    `json:"splits"` // chunk i is Stmts[Splits[i-1]:Splits[i]]
}

var scriptCfg = sess.Config{MaxDepth: 2000, MaxDuration: 5 * time.Second}

func checkScript(sc Script) (skipped bool, err error) {
	whole := strings.Join(sc.Stmts, "\n")
	a := sess.New(scriptCfg)
	a.Run(gen.TypedPrelude)
	ra := a.Run(whole)
	if ra.Cont || sess.TimedOut(ra) || sess.MemoryRefused(ra) {
		return true, nil
	}
	wholeFails := ra.Failed() // then the chunk holding the failing statement must fail too, after the same output
	b := sess.New(scriptCfg)
	b.Run(gen.TypedPrelude)
	var out strings.Builder
	prev := 0
	for _, sp := range append(append([]int{}, sc.Splits...), len(sc.Stmts)) {
		if sp <= prev {
			continue
		}
		chunk := strings.Join(sc.Stmts[prev:sp], "\n")
		prev = sp
		rb := b.Run(chunk)
		out.WriteString(rb.Out)
		if sess.TimedOut(rb) || sess.MemoryRefused(rb) {
			return true, nil
		}
		if wholeFails && rb.Failed() && !rb.Cont {
			if out.String() != ra.Out {
				return false, fmt.Errorf("the script fails when run at once and in chunks, but after different output: at once\n%q\nin chunks (split before statements %v)\n%q\nscript:\n%s", ra.Out, sc.Splits, out.String(), whole)
			}
			if ga, gb := a.Globals(), b.Globals(); ga != gb && !sess.GlobalsUnavailable(ga) && !sess.GlobalsUnavailable(gb) {
				return false, fmt.Errorf("globals differ after the failure, at once vs in chunks (split before statements %v):\n--- at once\n%s--- in chunks\n%s\nscript:\n%s", sc.Splits, ga, gb, whole)
			}
			return false, nil
		}
		if rb.Failed() || rb.Cont {
			return false, fmt.Errorf("the script runs without error at once, but fed in chunks the chunk %q fails: %v (continuation=%v)\nscript:\n%s", chunk, rb.Errs, rb.Cont, whole)
		}
	}
	if wholeFails {
		return false, fmt.Errorf("the script fails when run at once (%v) but every chunk succeeds (split before statements %v)\nscript:\n%s", ra.Errs, sc.Splits, whole)
	}
	if out.String() != ra.Out {
		return false, fmt.Errorf("output differs: at once\n%q\nin chunks (split before statements %v)\n%q\nscript:\n%s", ra.Out, sc.Splits, out.String(), whole)
	}
	if ga, gb := a.Globals(), b.Globals(); ga != gb && !sess.GlobalsUnavailable(ga) && !sess.GlobalsUnavailable(gb) {
		return false, fmt.Errorf("final globals differ between evaluation at once and in chunks (split before statements %v):\n--- at once\n%s--- in chunks\n%s\nscript:\n%s", sc.Splits, ga, gb, whole)
	}
	return false, nil
}

var macroDefs = []string{
	"unless = macro(cond, a, b) { quote(if !(unquote(cond)) { unquote(a) } else { unquote(b) }) }",
	"twice = macro(x) { quote(unquote(x) + unquote(x)) }",
	"show2 = macro(x) { quote(println(\"m:\", unquote(x))) }",
}
var macroUses = []string{"println(unless(1 > 2, \"no\", \"yes\"))", "println(twice(3 * 2))", "show2(1 + 1)", "mv = twice(\"ab\"); println(mv)"}

func TestScripts(t *testing.T) {
	pbt.Check(t, 1200, 120000, func(rt *rapid.T) {
		g := gen.NewTGen(rt, gen.TCfg{MaxDepth: 2, MaxStmts: 3, MaxBlockDepth: 2, MaxParams: 3, MaxLoopDepth: 2,
			Floats: true, Containers: true, Errors: true, Closures: true, Recursion: true, PrintEvery: true, IncrDecr: true, Variadics: true})
		stmts := g.Program(2, 14)
		var sc Script
		for _, s := range stmts {
			if s.K == gen.KReturn {
				continue // no top-level return
			}
			sc.Stmts = append(sc.Stmts, strings.TrimRight(gen.Print([]*gen.Node{s}, gen.PrintOptions{}), "\n"))
		}
		crossUse := false
		if rapid.Bool().Draw(rt, "macros") {
			// 1..3 macro definitions, adjacent or spread, each used after its definition
			ks := rapid.Permutation([]int{0, 1, 2}).Draw(rt, "macroorder")[:rapid.IntRange(1, 3).Draw(rt, "nmacros")]
			adjacent := rapid.Bool().Draw(rt, "adjacent")
			pos := rapid.IntRange(0, len(sc.Stmts)).Draw(rt, "defpos")
			insert := func(at int, what string) {
				sc.Stmts = append(sc.Stmts[:at], append([]string{what}, sc.Stmts[at:]...)...)
			}
			last := pos
			for i, k := range ks {
				at := pos + i
				if !adjacent && i > 0 {
					at = rapid.IntRange(last+1, len(sc.Stmts)).Draw(rt, "nextdefpos")
				}
				insert(at, macroDefs[k])
				last = at
			}
			for _, k := range ks {
				for u := rapid.IntRange(1, 2).Draw(rt, "uses"); u > 0; u-- {
					up := rapid.IntRange(last+1, len(sc.Stmts)).Draw(rt, "usepos")
					use := macroUses[k]
					if k == 1 && rapid.Bool().Draw(rt, "alt") {
						use = macroUses[3]
					}
					insert(up, use)
				}
			}
			crossUse = true
			if adjacent && len(ks) > 1 {
				pbt.Label("script:adjacent-macro-definitions")
			}
		}
		if rapid.IntRange(0, 2).Draw(rt, "redef") == 0 {
			// a remembered call, then what it depends on is redefined, then the same call again, anywhere in the script
			// (in this order): evaluated at once all of it happens inside one input
			seq := [][]string{
				{"hh = x => x + 1; ff = x => hh(x) * 2", "println(\"ff\", ff(3))", "hh = x => x + 100", "println(\"ff\", ff(3))"},
				{"KK = 2; gg = x => x * KK", "println(\"gg\", gg(5))", "del(KK); KK = 3", "println(\"gg\", gg(5))"},
				{"func h2(x) { x + 1 }; f2 = x => [h2(x)]", "println(f2(1))", "func h2(x) { x - 1 }", "println(f2(1))", "println(f2(1))"},
			}[rapid.IntRange(0, 2).Draw(rt, "redefkind")]
			pos := 0
			for _, st := range seq {
				pos = rapid.IntRange(pos, len(sc.Stmts)).Draw(rt, "redefpos")
				sc.Stmts = append(sc.Stmts[:pos], append([]string{st}, sc.Stmts[pos:]...)...)
				pos++
			}
			crossUse = true
			pbt.Label("script:dependency-redefined-between-equal-calls")
		}
		if len(sc.Stmts) < 2 {
			sc.Stmts = append(sc.Stmts, "println(\"end\")", "zz9 = 1")
		}
		nsp := rapid.IntRange(1, min(6, len(sc.Stmts)-1)).Draw(rt, "nsplits")
		set := map[int]bool{}
		for i := 0; i < nsp; i++ {
			set[rapid.IntRange(1, len(sc.Stmts)-1).Draw(rt, "split")] = true
		}
		for i := 1; i < len(sc.Stmts); i++ {
			if set[i] {
				sc.Splits = append(sc.Splits, i)
			}
		}
		for _, s := range sc.Stmts {
			if strings.HasPrefix(s, "func ") || strings.Contains(s, "=> {") || strings.Contains(s, "= (func") {
				crossUse = true
			}
		}
		skipped, err := checkScript(sc)
		if err != nil {
			pbt.Fail(rt, "script", sc, "%v", err)
		}
		lbl := "script:chunked"
		if skipped {
			lbl = "script:skipped(deadline or incomplete when run at once)"
		}
		pbt.Case(!skipped && crossUse, strings.Join(sc.Stmts, "\n")+fmt.Sprint(sc.Splits), lbl)
		pbt.Sample("script", sc)
	})
}

func oracle(kind string, raw json.RawMessage) error {
	if kind == "terminal" {
		return terminalOracle(raw)
	}
	if kind == "script" {
		var sc Script
		if err := json.Unmarshal(raw, &sc); err != nil {
			return err
		}
		_, err := checkScript(sc)
		return err
	}
	var c Case
	if err := json.Unmarshal(raw, &c); err != nil {
		return err
	}
	return check(c)
}

func TestReplay(t *testing.T)   { pbt.RunReplay(t, oracle) }
func TestARegress(t *testing.T) { pbt.RunRegress(t, "C15", oracle) }
