package c15

// excludedCut returns the id of the listed known finding whose class the cut belongs to ("" = none).
func excludedCut(c Case) string { return "" }
