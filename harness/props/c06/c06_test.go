// C06 — arrays and maps are values: no aliasing, at any size.
package c06

import (
	"encoding/json"
	"fmt"
	"sort"
	"strings"
	"testing"

	"pgregory.net/rapid"
	"verif/gv"
	"verif/pbt"
	"verif/sess"
	"verif/val"
)

func TestMain(m *testing.M) {
	sess.Init()
	pbt.Main(m, pbt.Meta{
		Property: "C06",
		Level:    "exploration",
		Rule: "stateful model-based test: sequences of 10..40 grol statements over 6 variables (bind a literal array/map of 0..20 elements, copy, store inside another container and read back, " +
			"index assignment incl. negative index and map key/field, append/concat/merge with +, appends from a shared base, del, slicing, rest, passing to a mutating function, mutation inside " +
			"a for loop over the container, ++ on an element copy); the model holds plain values with deep copy on every bind. Oracle: after EVERY statement every live variable evaluates to " +
			"the model's value (structure and types). Non-trivial: the history contains a copy/store/pass of a container followed by a mutation of one side while that container is above its " +
			"threshold (> 8 elements / > 4 pairs), or two appends from the same base; distinct by history text. " +
			"Second family (derived_test.go): shorter histories over 4 variables whose containers sit around the representation thresholds (arrays 7..10, maps 3..7) and in which a SECOND binding is " +
			"derived from a container that stays bound - x = rest(y), x = y[l:r] / y[l:] / y[-n:], x = first(y), a function or an inline loop stripping leading entries down to n (with or without " +
			"an index assignment inside the callee) - followed by index assignment / del on an EXISTING key or index, appends and merges on either side; the model says the " +
			"derived value shares the source's storage only when it is itself still large (then K-C06-1/2 apply), and is an independent value otherwise; same oracle after every statement.",
		Assumptions: []string{
			"m.v++ is documented as unsupported (TestIncrMatrix) and not generated; index bounds are generated in range (out of range is C07's subject)",
			"known findings K-C06-1 (index assignment / del mutate a large container in place) and K-C06-2 (appends from one base share spare capacity) are excluded by construction while listed: see known.go",
		},
	})
}

const nVars = 6

var varNames = []string{"a", "b", "c", "d", "e", "g"}

// Op is one step; the interpretation is in apply().
type Op struct {
	Kind string `json:"op"`
	X    int    `json:"x"` // target variable
	Y    int    `json:"y"` // source variable
	N    int    `json:"n"` // size / index / key selector
	V    int    `json:"v"` // value
	R    int    `json:"r"`
	F    bool   `json:"f,omitempty"` // run the statement inside an immediately called function literal: every variable is then reached through a reference to the top-level binding
}

type Case struct {
	Ops       []Op `json:"ops"`
	NoExclude bool `json:"no_exclude,omitempty"` // regression cases of the known findings run without the exclusions
}

var keys = []string{"k", "a", "b", "c", "d", "e", "f", "h", "i", "j", "l", "m"}

func arrLit(n, seed int) val.V {
	els := make([]val.V, n)
	for i := range els {
		els[i] = val.I(int64((seed*7 + i*3) % 10))
	}
	return val.A(els...)
}

func mapLit(n, seed int) val.V {
	m := val.M()
	for i := 0; i < n && i < len(keys); i++ {
		m = m.Set(val.S(keys[i]), val.I(int64((seed+i)%10)))
	}
	return m
}

type machine struct {
	s     *sess.S
	model map[string]val.V
	stmts []string
	nt    bool
	excl  map[string]int
	// provenance of large containers, used only to recognise the classes of the known findings:
	store      map[string]int          // variable -> id of the backing storage its (large) container value uses
	inner      map[string]map[int]bool // variable -> ids of the storages of the containers stored inside it
	spare      map[int]bool            // storage id -> the backing slice may have spare capacity (it was produced by +)
	nextID     int
	noExclude  bool
	bigRep     map[string]bool // variable -> its map value uses the large representation although it has <= 4 pairs (it shrank through del)
	inFunc     bool
	inFuncUsed int
	der        map[string]int // variable -> the storage id it had when it was the source or the result of a derivation (second family) from a container around a threshold
	ntDer      bool           // ... and one of those was mutated afterwards
}

const prelude = `func mut(p, i, v) { p[i] = v; p }
func mutmap(p, k, v) { p[k] = v; p }
func grow(p, v) { p = p + v; p }
func vmut(..) { v = ..; if len(v) > 0 { v[0] = 100 }; v }
func tbl(n) { {"cells": [0] * n, "n": n} }
func strip(p, n) { for len(p) > n { p = rest(p) }; p }
func stripmut(p, n, k, v) { for len(p) > n { p = rest(p) }; p[k] = v; p }`

func newMachine() *machine {
	m := &machine{s: sess.New(sess.Config{}), model: map[string]val.V{}, excl: map[string]int{}, store: map[string]int{}, inner: map[string]map[int]bool{}, spare: map[int]bool{}, bigRep: map[string]bool{}, der: map[string]int{}}
	if r := m.s.Run(prelude); r.Failed() {
		panic("harness: prelude failed: " + strings.Join(r.Errs, ";"))
	}
	// every variable exists at top level from the start, so that a statement run inside a function updates it
	if r := m.s.Run(strings.Join(varNames, " = nil; ") + " = nil"); r.Failed() {
		panic("harness: variable declarations failed: " + strings.Join(r.Errs, ";"))
	}
	return m
}

// bigc: the container of variable name uses the large (shared-storage) representation.
func (m *machine) bigc(name string, v val.V) bool {
	return big(v) || (v.K == val.Map && m.bigRep[name])
}

func big(v val.V) bool {
	return (v.K == val.Arr && len(v.A) > 8) || (v.K == val.Map && len(v.M) > 4)
}

func (m *machine) run(src string) error {
	if m.inFunc {
		src = "func(){ " + src + " }()"
		m.inFuncUsed++
	}
	m.stmts = append(m.stmts, src)
	r := m.s.Run(src)
	if r.Failed() {
		return fmt.Errorf("statement %q failed: %v", src, r.Errs)
	}
	return nil
}

func (m *machine) observe() error {
	names := make([]string, 0, len(m.model))
	for n := range m.model {
		names = append(names, n)
	}
	sort.Strings(names)
	for _, n := range names {
		o, err := m.s.Obj(n)
		if err != nil {
			return fmt.Errorf("cannot read %s: %v", n, err)
		}
		got, err := gv.FromObject(o)
		if err != nil {
			return fmt.Errorf("%s: %v", n, err)
		}
		if !val.Identical(got, m.model[n]) {
			return fmt.Errorf("after %q: %s = %s but value semantics say %s", m.stmts[len(m.stmts)-1], n, got.Inspect(), m.model[n].Inspect())
		}
	}
	return nil
}

func (m *machine) fresh(name string) {
	m.nextID++
	m.store[name] = m.nextID
	delete(m.inner, name)
}

// ids: every backing storage reachable from the variable (its own and those of containers stored inside it).
func (m *machine) ids(name string) map[int]bool {
	out := map[int]bool{}
	if id, ok := m.store[name]; ok {
		out[id] = true
	}
	for id := range m.inner[name] {
		out[id] = true
	}
	return out
}

// rederive: name now holds a new container derived from its old one (elements kept, so what was stored inside stays shared).
func (m *machine) rederive(name string) { m.derive(name, name) }

// derive: name holds a new container built from the elements of from.
func (m *machine) derive(name, from string) {
	in := m.inner[from]
	m.fresh(name)
	if len(in) > 0 {
		m.inner[name] = map[int]bool{}
		for id := range in {
			m.inner[name][id] = true
		}
	}
}

// alias: name uses the same backing storage as from (plain copy, or + / slice of a large array, which may
// keep using the operand's backing slice).
func (m *machine) alias(name, from string) {
	ids := m.ids(from)
	st, ok := m.store[from]
	if name != from {
		delete(m.inner, name)
		delete(m.store, name)
	}
	if ok {
		m.store[name] = st
	}
	for id := range ids {
		if id != st {
			if m.inner[name] == nil {
				m.inner[name] = map[int]bool{}
			}
			m.inner[name][id] = true
		}
	}
}

// contain: name is a new container holding (a reference to the storage of) from.
func (m *machine) contain(name, from string) {
	ids := m.ids(from)
	m.fresh(name)
	if len(ids) > 0 {
		m.inner[name] = ids
	}
}

// extract: name is an element taken out of from: it may be any of the containers stored inside it.
func (m *machine) extract(name, from string) {
	in := m.inner[from]
	m.fresh(name)
	if len(in) > 0 {
		m.inner[name] = map[int]bool{}
		for id := range in {
			m.inner[name][id] = true
			if m.spare[id] {
				m.spare[m.store[name]] = true // it may be that very storage: room after its end (K-C06-2)
			}
		}
	}
}

// sharedWithOthers: another live binding can reach a backing storage that name can reach.
func (m *machine) sharedWithOthers(name string) bool {
	mine := m.ids(name)
	for other := range m.model {
		if other == name {
			continue
		}
		for id := range m.ids(other) {
			if mine[id] {
				return true
			}
		}
	}
	return false
}

// markMutation records that container `name` is mutated while another binding may share its storage.
func (m *machine) markMutation(name string) {
	v := m.model[name]
	if id, ok := m.der[name]; ok && id == m.store[name] {
		m.ntDer = true
	}
	if !big(v) {
		return
	}
	for other, ov := range m.model {
		if other != name && contains(ov, v) {
			m.nt = true
		}
	}
}

func contains(hay, needle val.V) bool {
	if val.Identical(hay, needle) {
		return true
	}
	for _, e := range hay.A {
		if contains(e, needle) {
			return true
		}
	}
	for _, p := range hay.M {
		if contains(p.V, needle) {
			return true
		}
	}
	return false
}

// apply performs one op on the session and on the model. skip=true: the op does not apply in this state.
func (m *machine) apply(o Op) (skip bool, err error) {
	m.inFunc = o.F
	x, y := varNames[o.X%nVars], varNames[o.Y%nVars]
	xv, xok := m.model[x]
	yv, yok := m.model[y]
	switch o.Kind {
	case "bindarr":
		v := arrLit(o.N, o.V)
		m.model[x] = v
		m.fresh(x)
		return false, m.run(x + " = " + v.Src())
	case "bindmap":
		v := mapLit(o.N, o.V)
		m.model[x] = v
		m.fresh(x)
		return false, m.run(x + " = " + v.Src())
	case "copy":
		if !yok || x == y {
			return true, nil
		}
		m.model[x] = yv.Copy()
		m.alias(x, y)
		return false, m.run(x + " = " + y)
	case "wraparr":
		if !yok || x == y {
			return true, nil
		}
		m.model[x] = val.A(yv.Copy(), val.I(int64(o.V)))
		m.contain(x, y)
		return false, m.run(fmt.Sprintf("%s = [%s, %d]", x, y, o.V))
	case "wrapmap":
		if !yok || x == y {
			return true, nil
		}
		m.model[x] = val.M(val.KV{K: val.S("k"), V: yv.Copy()})
		m.contain(x, y)
		return false, m.run(fmt.Sprintf("%s = {\"k\": %s}", x, y))
	case "unwrap":
		if !yok || x == y {
			return true, nil
		}
		switch {
		case yv.K == val.Arr && len(yv.A) > 0:
			m.model[x] = yv.A[0].Copy()
			m.extract(x, y)
			return false, m.run(fmt.Sprintf("%s = %s[0]", x, y))
		case yv.K == val.Map:
			if inner, ok := yv.Get(val.S("k")); ok {
				m.model[x] = inner.Copy()
				m.extract(x, y)
				return false, m.run(fmt.Sprintf("%s = %s.k", x, y))
			}
		}
		return true, nil
	case "setidx":
		if !xok || xv.K != val.Arr || len(xv.A) == 0 {
			return true, nil
		}
		if m.excludedInPlace(x, xv, false) {
			m.excl[kInPlace]++
			return true, nil
		}
		i := o.N % len(xv.A)
		idx := i
		if o.R%2 == 1 {
			idx = i - len(xv.A) // negative index from the end
		}
		m.markMutation(x)
		nv := xv.Copy()
		nv.A[i] = val.I(int64(o.V))
		m.model[x] = nv
		return false, m.run(fmt.Sprintf("%s[%d] = %d", x, idx, o.V))
	case "setkey", "setat": // setat: an existing key, chosen by position
		if !xok || xv.K != val.Map {
			return true, nil
		}
		if m.excludedInPlace(x, xv, false) {
			m.excl[kInPlace]++
			return true, nil
		}
		k := keys[o.N%len(keys)]
		if o.Kind == "setat" {
			var ok bool
			if k, ok = existingKey(xv, o.N); !ok {
				return true, nil
			}
		}
		m.markMutation(x)
		m.model[x] = xv.Set(val.S(k), val.I(int64(o.V)))
		if o.R%2 == 1 {
			return false, m.run(fmt.Sprintf("%s.%s = %d", x, k, o.V))
		}
		return false, m.run(fmt.Sprintf("%s[%q] = %d", x, k, o.V))
	case "delkey", "delat": // delat: an existing key, chosen by position
		if !xok || xv.K != val.Map {
			return true, nil
		}
		if m.excludedInPlace(x, xv, false) {
			m.excl[kInPlace]++
			return true, nil
		}
		k := keys[o.N%len(keys)]
		if o.Kind == "delat" {
			var ok bool
			if k, ok = existingKey(xv, o.N); !ok {
				return true, nil
			}
		}
		m.markMutation(x)
		nv, _ := xv.Del(val.S(k))
		m.model[x] = nv
		return false, m.run(fmt.Sprintf("del(%s[%q])", x, k))
	case "appendself": // x = x + [v]  /  x = x + v
		if !xok || xv.K != val.Arr {
			return true, nil
		}
		if m.excludedSharedAppend(x, xv) && m.sharedWithOthers(x) {
			m.excl[kSharedAppend]++
			return true, nil
		}
		m.markMutation(x)
		nv := xv.Copy()
		nv.A = append(nv.A, val.I(int64(o.V)))
		m.model[x] = nv
		if big(nv) { // may reuse (and leave spare capacity in) the old backing slice
			if _, ok := m.store[x]; !ok {
				m.rederive(x)
			}
			m.spare[m.store[x]] = true
		} else {
			m.rederive(x)
		}
		if o.R%2 == 1 {
			return false, m.run(fmt.Sprintf("%s = %s + %d", x, x, o.V))
		}
		return false, m.run(fmt.Sprintf("%s = %s + [%d]", x, x, o.V))
	case "appendfrom": // x = y + [v]; a second binding z = y + [w] from the same base follows
		if !yok || yv.K != val.Arr || x == y {
			return true, nil
		}
		z := varNames[(o.X+1)%nVars]
		if z == y || z == x {
			return true, nil
		}
		if m.excludedSharedAppend(y, yv) {
			m.excl[kSharedAppend]++
			return true, nil
		}
		m.nt = true
		n1, n2 := yv.Copy(), yv.Copy()
		n1.A = append(n1.A, val.I(int64(o.V)))
		n2.A = append(n2.A, val.I(int64(o.V+1)))
		m.model[x], m.model[z] = n1, n2
		m.derive(x, y)
		m.derive(z, y)
		if big(n1) {
			m.spare[m.store[x]], m.spare[m.store[z]] = true, true
		}
		if err := m.run(fmt.Sprintf("%s = %s + [%d]", x, y, o.V)); err != nil {
			return false, err
		}
		return false, m.run(fmt.Sprintf("%s = %s + [%d]", z, y, o.V+1))
	case "mergemap":
		if !xok || xv.K != val.Map {
			return true, nil
		}
		other := mapLit(o.N%4+1, o.V)
		m.markMutation(x)
		m.model[x] = xv.Merge(other)
		m.rederive(x)
		return false, m.run(fmt.Sprintf("%s = %s + %s", x, x, other.Src()))
	case "emptyplus": // x = {} + y / x = [] + y: the accumulator idiom; x is a new container
		if !yok || x == y || (yv.K != val.Arr && yv.K != val.Map) {
			return true, nil
		}
		if big(yv) {
			m.nt = true
		}
		m.model[x] = yv.Copy()
		m.derive(x, y)
		if big(yv) && yv.K == val.Arr {
			m.spare[m.store[x]] = true // built by append: may have room after its end (K-C06-2)
		}
		if yv.K == val.Map {
			return false, m.run(fmt.Sprintf("%s = {} + %s", x, y))
		}
		return false, m.run(fmt.Sprintf("%s = [] + %s", x, y))
	case "setcont": // x[i] = <container>: the target is copied first (a container stored into a shared one must not build a cycle), whatever its size
		if !xok || (xv.K != val.Arr && xv.K != val.Map) || (xv.K == val.Arr && len(xv.A) == 0) {
			return true, nil
		}
		var cv val.V
		csrc := ""
		from := ""
		switch o.R % 4 {
		case 0:
			cv, csrc = val.A(), "[]"
		case 1:
			cv, csrc = val.M(), "{}"
		case 2:
			cv = val.A(val.I(int64(o.V)))
			csrc = cv.Src()
		default:
			if !yok || x == y || (yv.K != val.Arr && yv.K != val.Map) {
				return true, nil
			}
			cv, csrc, from = yv.Copy(), y, y
		}
		if big(xv) {
			m.markMutation(x)
		}
		var target string
		if xv.K == val.Arr {
			i := o.N % len(xv.A)
			nv := xv.Copy()
			nv.A[i] = cv
			m.model[x] = nv
			target = fmt.Sprintf("%s[%d]", x, i)
		} else {
			k := keys[o.N%len(keys)]
			m.model[x] = xv.Set(val.S(k), cv)
			target = fmt.Sprintf("%s[%q]", x, k)
		}
		inner := m.inner[x]
		var fromIDs map[int]bool
		if from != "" {
			fromIDs = m.ids(from)
		}
		m.fresh(x)
		if len(inner)+len(fromIDs) > 0 {
			m.inner[x] = map[int]bool{}
			for id := range inner {
				m.inner[x][id] = true
			}
			for id := range fromIDs {
				m.inner[x][id] = true
			}
		}
		if big(m.model[x]) && m.model[x].K == val.Arr {
			m.spare[m.store[x]] = true // the copy is made by append: may have room after its end (K-C06-2)
		}
		return false, m.run(target + " = " + csrc)
	case "passvar": // x = vmut(y): the array is spread over the variadic parameters; what the callee does to .. stays there
		if !yok || yv.K != val.Arr || x == y {
			return true, nil
		}
		if big(yv) {
			m.nt = true
		}
		nv := yv.Copy()
		if len(nv.A) > 0 {
			nv.A[0] = val.I(100)
		}
		m.model[x] = nv
		m.derive(x, y)
		if big(nv) {
			m.spare[m.store[x]] = true
		}
		return false, m.run(fmt.Sprintf("%s = vmut(%s)", x, y))
	case "cachedget": // x = tbl(n).cells: a result that may come from the function-result cache shares nothing with earlier ones
		n := []int{3, 9, 12}[o.N%3]
		cells := make([]val.V, n)
		for i := range cells {
			cells[i] = val.I(0)
		}
		m.model[x] = val.A(cells...)
		m.fresh(x)
		if n > 8 {
			m.nt = true
		}
		return false, m.run(fmt.Sprintf("%s = tbl(%d).cells", x, n))
	case "bareplus": // x + y as a bare expression must not modify anything
		if !xok || !yok || xv.K != yv.K || (xv.K != val.Arr && xv.K != val.Map) {
			return true, nil
		}
		if m.excludedSharedAppend(x, xv) && m.sharedWithOthers(x) {
			// the discarded sum is still built by appending into the left operand's spare capacity, which a part
			// taken from the same storage (rest, slice) may overlap: class of K-C06-2
			m.excl[kSharedAppend]++
			return true, nil
		}
		return false, m.run(fmt.Sprintf("%s + %s", x, y))
	case "slice":
		if !xok || (xv.K != val.Arr && xv.K != val.Map) || xv.Len() == 0 {
			return true, nil
		}
		n := xv.Len()
		l, r := o.N%(n+1), o.R%(n+1)
		if l > r {
			l, r = r, l
		}
		m.markMutation(x)
		nv := xv.Copy()
		if xv.K == val.Arr {
			nv.A = nv.A[l:r]
		} else {
			nv.M = nv.M[l:r]
		}
		m.model[x] = nv
		if !big(nv) {
			m.rederive(x)
		} else if st, ok := m.store[x]; ok {
			m.spare[st] = true // a sub-slice of a larger backing slice has room after its end
		}
		return false, m.run(fmt.Sprintf("%s = %s[%d:%d]", x, x, l, r))
	case "rest":
		if !xok || (xv.K != val.Arr && xv.K != val.Map) || xv.Len() < 2 {
			return true, nil
		}
		m.markMutation(x)
		nv := xv.Copy()
		if xv.K == val.Arr {
			nv.A = nv.A[1:]
		} else {
			nv.M = nv.M[1:]
		}
		m.model[x] = nv
		if !big(nv) {
			m.rederive(x)
		}
		return false, m.run(fmt.Sprintf("%s = rest(%s)", x, x))
	case "passmut": // x = mut(y, i, v): y must stay what it is
		if !yok || x == y {
			return true, nil
		}
		switch {
		case yv.K == val.Arr && len(yv.A) > 0:
			if m.excludedInPlace(y, yv, true) {
				m.excl[kInPlace]++
				return true, nil
			}
			if big(yv) {
				m.nt = true
			}
			i := o.N % len(yv.A)
			nv := yv.Copy()
			nv.A[i] = val.I(int64(o.V))
			m.model[x] = nv
			m.derive(x, y)
			return false, m.run(fmt.Sprintf("%s = mut(%s, %d, %d)", x, y, i, o.V))
		case yv.K == val.Map:
			if m.excludedInPlace(y, yv, true) {
				m.excl[kInPlace]++
				return true, nil
			}
			if big(yv) {
				m.nt = true
			}
			k := keys[o.N%len(keys)]
			m.model[x] = yv.Set(val.S(k), val.I(int64(o.V)))
			m.derive(x, y)
			return false, m.run(fmt.Sprintf("%s = mutmap(%s, %q, %d)", x, y, k, o.V))
		}
		return true, nil
	case "passgrow":
		if !yok || yv.K != val.Arr || x == y {
			return true, nil
		}
		if m.excludedSharedAppend(y, yv) {
			m.excl[kSharedAppend]++
			return true, nil
		}
		nv := yv.Copy()
		nv.A = append(nv.A, val.I(int64(o.V)))
		m.model[x] = nv
		m.derive(x, y)
		if big(nv) {
			m.spare[m.store[x]] = true
		}
		return false, m.run(fmt.Sprintf("%s = grow(%s, %d)", x, y, o.V))
	case "loopmut": // mutate the array while iterating over it: the iteration sees the value at loop start
		if !xok || xv.K != val.Arr || len(xv.A) == 0 {
			return true, nil
		}
		for _, e := range xv.A {
			if e.K != val.Int {
				return true, nil
			}
		}
		if m.excludedInPlace(x, xv, true) {
			m.excl[kInPlace]++
			return true, nil
		}
		m.markMutation(x)
		nv := xv.Copy()
		last := len(nv.A) - 1
		sum := int64(0)
		for _, e := range xv.A {
			sum += e.I
			nv.A[last] = val.I(sum)
		}
		m.model[x] = nv
		return false, m.run(fmt.Sprintf("zz = 0; for q = %s { zz = zz + q; %s[-1] = zz }", x, x))
	case "elemincr":
		if !yok || yv.K != val.Arr || len(yv.A) == 0 || yv.A[0].K != val.Int || x == y {
			return true, nil
		}
		m.model[x] = val.I(yv.A[0].I + 1)
		m.fresh(x)
		return false, m.run(fmt.Sprintf("%s = %s[0]; %s++", x, y, x))
	}
	return m.applyDerived(o) // the kinds of the second family (derived_test.go)
}

// trackRep keeps bigRep up to date after an op (only maps can be large with few pairs: Delete keeps the representation).
func (m *machine) trackRep(o Op) {
	x, y := varNames[o.X%nVars], varNames[o.Y%nVars]
	xv, ok := m.model[x]
	if !ok {
		return
	}
	if xv.K != val.Map {
		delete(m.bigRep, x)
		return
	}
	switch o.Kind {
	case "copy", "passmut":
		m.bigRep[x] = m.bigRep[y] || len(xv.M) > 4
	case "unwrap":
		m.bigRep[x] = true // unknown: assume the large representation
	case "setkey", "delkey", "setat", "delat", "mergemap", "setcont":
		m.bigRep[x] = m.bigRep[x] || len(xv.M) > 4
	case "emptyplus": // {} + y: built pair by pair, or as a copy of a large y
		m.bigRep[x] = m.bigRep[y] || len(xv.M) > 4
	case "bindmap", "wrapmap", "slice", "rest": // rebuilt with the representation its size asks for
		m.bigRep[x] = len(xv.M) > 4
	default:
		m.trackRepDerived(o, x, y, xv)
	}
}

var opKinds = []string{"bindarr", "bindarr", "bindmap", "copy", "copy", "copy", "wraparr", "wrapmap", "unwrap", "setidx", "setidx", "setkey", "setkey", "delkey",
	"appendself", "appendfrom", "mergemap", "emptyplus", "setcont", "setcont", "passvar", "cachedget", "cachedget", "bareplus", "slice", "rest", "passmut", "passgrow", "loopmut", "elemincr"}

var sizes = []int{0, 1, 3, 4, 5, 7, 8, 9, 10, 12, 20}

func runCase(c Case) (m *machine, err error) {
	m = newMachine()
	m.noExclude = c.NoExclude
	for _, o := range c.Ops {
		skip, err := m.apply(o)
		if !skip {
			m.trackRep(o)
		}
		if err != nil {
			return m, fmt.Errorf("%v\nhistory:\n%s", err, strings.Join(m.stmts, "\n"))
		}
		if skip {
			continue
		}
		if err := m.observe(); err != nil {
			return m, fmt.Errorf("%v\nhistory:\n%s", err, strings.Join(m.stmts, "\n"))
		}
	}
	return m, nil
}

func TestHistories(t *testing.T) {
	pbt.Check(t, 2500, 250000, func(rt *rapid.T) {
		n := rapid.IntRange(10, 40).Draw(rt, "steps")
		var c Case
		// start with two containers so copies have something to copy
		c.Ops = append(c.Ops, Op{Kind: "bindarr", X: 0, N: rapid.SampledFrom(sizes).Draw(rt, "n0"), V: 1},
			Op{Kind: "bindmap", X: 1, N: rapid.SampledFrom([]int{0, 2, 4, 5, 6, 9, 12}).Draw(rt, "n1"), V: 2})
		for i := 0; i < n; i++ {
			c.Ops = append(c.Ops, Op{
				Kind: rapid.SampledFrom(opKinds).Draw(rt, "kind"),
				X:    rapid.IntRange(0, nVars-1).Draw(rt, "x"), Y: rapid.IntRange(0, nVars-1).Draw(rt, "y"),
				N: rapid.SampledFrom(sizes).Draw(rt, "n"), V: rapid.IntRange(0, 99).Draw(rt, "v"), R: rapid.IntRange(0, 20).Draw(rt, "r"),
				F: rapid.IntRange(0, 2).Draw(rt, "infunc") == 0,
			})
		}
		m, err := runCase(c)
		if err != nil {
			pbt.Fail(rt, "history", c, "%v", err)
		}
		for k, v := range m.excl {
			for i := 0; i < v; i++ {
				pbt.Excluded(k)
			}
		}
		lbl := "history:small-or-unshared"
		if m.nt {
			lbl = "history:shared-large-container-mutated"
		}
		if m.inFuncUsed > 0 {
			pbt.Label("history:statements-inside-functions")
		}
		pbt.Case(m.nt, strings.Join(m.stmts, "\n"), lbl)
		pbt.Sample("history", m.stmts)
	})
}

func oracle(kind string, raw json.RawMessage) error {
	var c Case
	if err := json.Unmarshal(raw, &c); err != nil {
		return err
	}
	_, err := runCase(c)
	return err
}

func TestReplay(t *testing.T)   { pbt.RunReplay(t, oracle) }
func TestARegress(t *testing.T) { pbt.RunRegress(t, "C06", oracle) }
