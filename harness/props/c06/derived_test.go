// C06, second family: a second binding DERIVED from a container that stays bound (rest, slices, first, a loop
// stripping leading entries), around the sizes where the representation changes, then mutations of either side.
package c06

import (
	"fmt"
	"strings"
	"testing"

	"pgregory.net/rapid"
	"verif/pbt"
	"verif/val"
)

// existingKey: the key at position n (modulo the size) of map v.
func existingKey(v val.V, n int) (string, bool) {
	if v.K != val.Map || len(v.M) == 0 || n < 0 {
		return "", false
	}
	k := v.M[n%len(v.M)].K
	if k.K != val.Str {
		return "", false
	}
	return k.S, true
}

// part: elements / pairs l..r of container v, as a new model value.
func part(v val.V, l, r int) val.V {
	nv := v.Copy()
	if v.K == val.Arr {
		nv.A = nv.A[l:r]
	} else {
		nv.M = nv.M[l:r]
	}
	return nv
}

// stripTo: the sizes the stripping loop stops at (both thresholds, their neighbours, and a few others).
var stripTo = []int{4, 8, 5, 9, 3, 7, 1, 10, 6, 2}

func stripN(o Op) int { return stripTo[o.N%len(stripTo)] }

// shareOrDerive: x holds nv, a part of the container of y. A part that is still large keeps using the storage of
// y (a sub-slice of it: then K-C06-1 / K-C06-2 apply to the pair); a part at or below the threshold is rebuilt as
// a small by-value container and shares nothing but what was stored inside.
func (m *machine) shareOrDerive(x, y string, nv val.V, roomAfter bool) {
	if !big(nv) {
		m.derive(x, y)
		return
	}
	m.alias(x, y)
	if st, ok := m.store[x]; ok && roomAfter {
		m.spare[st] = true // a sub-slice ending before the end of the backing slice has room after its end
	}
}

// noteDerived: for the non-triviality label only.
func (m *machine) noteDerived(x, y string, yv val.V) {
	if !m.bigc(y, yv) {
		return
	}
	m.der[x], m.der[y] = m.store[x], m.store[y]
}

// applyDerived: the op kinds of the second family. In all of them y stays bound and x (another variable) receives
// something taken out of y's container.
func (m *machine) applyDerived(o Op) (skip bool, err error) {
	x, y := varNames[o.X%nVars], varNames[o.Y%nVars]
	yv, yok := m.model[y]
	if !yok || x == y || (yv.K != val.Arr && yv.K != val.Map) {
		return true, nil
	}
	n := yv.Len()
	switch o.Kind {
	case "restfrom": // x = rest(y)
		if n < 2 { // rest of a single element is nil: not a container
			return true, nil
		}
		nv := part(yv, 1, n)
		m.model[x] = nv
		m.shareOrDerive(x, y, nv, false)
		m.noteDerived(x, y, yv)
		return false, m.run(fmt.Sprintf("%s = rest(%s)", x, y))
	case "slicefrom": // x = y[l:r] / y[l:] / y[-k:]
		if n == 0 {
			return true, nil
		}
		l, r := o.N%(n+1), o.R%(n+1)
		if l > r {
			l, r = r, l
		}
		src := fmt.Sprintf("%s = %s[%d:%d]", x, y, l, r)
		switch {
		case o.V%3 == 1:
			r = n
			src = fmt.Sprintf("%s = %s[%d:]", x, y, l)
		case o.V%3 == 2 && l < n:
			r = n
			src = fmt.Sprintf("%s = %s[%d:]", x, y, l-n)
		}
		nv := part(yv, l, r)
		m.model[x] = nv
		m.shareOrDerive(x, y, nv, true)
		m.noteDerived(x, y, yv)
		return false, m.run(src)
	case "firstfrom": // x = first(y): the first element, or {"key": k, "value": v} for a map
		if n == 0 {
			return true, nil
		}
		if yv.K == val.Arr {
			m.model[x] = yv.A[0].Copy()
		} else {
			m.model[x] = yv.MapFirst().Copy()
		}
		m.extract(x, y)
		m.noteDerived(x, y, yv)
		return false, m.run(fmt.Sprintf("%s = first(%s)", x, y))
	case "stripcall": // leading entries dropped one rest() at a time until at most k are left, in a function or inline
		k := stripN(o)
		if n <= k {
			m.model[x] = yv.Copy()
			m.alias(x, y) // the very same value
		} else {
			nv := part(yv, n-k, n)
			m.model[x] = nv
			m.shareOrDerive(x, y, nv, false)
		}
		m.noteDerived(x, y, yv)
		if o.R%2 == 1 {
			return false, m.run(fmt.Sprintf("%s = %s; for len(%s) > %d { %s = rest(%s) }", x, y, x, k, x, x))
		}
		return false, m.run(fmt.Sprintf("%s = strip(%s, %d)", x, y, k))
	case "stripmut": // same, and the callee assigns to an element of what is left before returning it: y must stay what it is
		k := stripN(o)
		sv := yv.Copy()
		if n > k {
			sv = part(yv, n-k, n)
		}
		// what the callee assigns into is y's own storage when nothing was stripped or when what is left is still large
		if (n <= k || big(sv)) && m.excludedInPlace(y, yv, true) {
			m.excl[kInPlace]++
			return true, nil
		}
		var sel string
		if sv.K == val.Arr {
			if len(sv.A) == 0 {
				return true, nil
			}
			i := o.R % len(sv.A)
			sv.A[i] = val.I(int64(o.V))
			sel = fmt.Sprint(i)
		} else {
			key, ok := existingKey(sv, o.R)
			if !ok || o.R%3 == 0 {
				key = keys[o.R%len(keys)]
			}
			sv = sv.Set(val.S(key), val.I(int64(o.V)))
			sel = fmt.Sprintf("%q", key)
		}
		if big(yv) {
			m.nt = true
		}
		m.model[x] = sv
		m.derive(x, y)
		m.noteDerived(x, y, yv)
		if m.bigc(y, yv) {
			m.ntDer = true // the mutation is part of the op
		}
		return false, m.run(fmt.Sprintf("%s = stripmut(%s, %d, %s, %d)", x, y, k, sel, o.V))
	}
	return true, nil
}

// trackRepDerived: the representation of the map xv that a second-family op just bound to x.
func (m *machine) trackRepDerived(o Op, x, y string, xv val.V) {
	yv := m.model[y]
	switch o.Kind {
	case "restfrom", "slicefrom": // rebuilt with the representation its size asks for
		m.bigRep[x] = len(xv.M) > 4
	case "firstfrom": // an element of an array: unknown, assume large; of a map: a new two pair map
		m.bigRep[x] = yv.K == val.Arr
	case "stripcall", "stripmut":
		if yv.K == val.Map && len(yv.M) <= stripN(o) { // nothing stripped: y's own map (with one more pair, possibly)
			m.bigRep[x] = m.bigRep[y] || len(xv.M) > 4
		} else {
			m.bigRep[x] = len(xv.M) > 4
		}
	}
}

var derivedKinds = []string{
	"restfrom", "restfrom", "restfrom", "restfrom", "slicefrom", "slicefrom", "slicefrom", "firstfrom", "stripcall", "stripcall", "stripmut", "stripmut",
	"setat", "setat", "setat", "setat", "delat", "delat", "delat", "setidx", "setidx", "setidx", "setkey", "delkey",
	"copy", "copy", "rest", "slice", "appendself", "mergemap", "bindmap", "bindarr", "wrapmap", "wraparr", "unwrap", "setcont", "emptyplus", "passmut", "bareplus",
}

// sizes of the literals: dense around the thresholds (8 elements, 4 pairs), a few far from them.
var (
	nearArr = []int{7, 8, 8, 9, 9, 9, 10, 10, 11, 3, 13, 20}
	nearMap = []int{3, 4, 4, 5, 5, 5, 6, 6, 7, 2, 9, 12}
)

const nDerivedVars = 4 // fewer variables: most ops find their operands bound

func TestDerivedHistories(t *testing.T) {
	pbt.Check(t, 1500, 100000, func(rt *rapid.T) {
		steps := rapid.IntRange(8, 20).Draw(rt, "steps")
		var c Case
		c.Ops = append(c.Ops,
			Op{Kind: "bindarr", X: 0, N: rapid.SampledFrom(nearArr).Draw(rt, "n0"), V: rapid.IntRange(0, 9).Draw(rt, "v0")},
			Op{Kind: "bindmap", X: 1, N: rapid.SampledFrom(nearMap).Draw(rt, "n1"), V: rapid.IntRange(0, 9).Draw(rt, "v1")})
		for i := 0; i < steps; i++ {
			o := Op{
				Kind: rapid.SampledFrom(derivedKinds).Draw(rt, "kind"),
				X:    rapid.IntRange(0, nDerivedVars-1).Draw(rt, "x"), Y: rapid.IntRange(0, nDerivedVars-1).Draw(rt, "y"),
				N: rapid.IntRange(0, 20).Draw(rt, "n"), V: rapid.IntRange(0, 99).Draw(rt, "v"), R: rapid.IntRange(0, 20).Draw(rt, "r"),
				F: rapid.IntRange(0, 3).Draw(rt, "infunc") == 0,
			}
			switch o.Kind {
			case "bindarr":
				o.N = rapid.SampledFrom(nearArr).Draw(rt, "size")
			case "bindmap":
				o.N = rapid.SampledFrom(nearMap).Draw(rt, "size")
			}
			c.Ops = append(c.Ops, o)
		}
		m, err := runCase(c)
		if err != nil {
			pbt.Fail(rt, "derived", c, "%v", err)
		}
		for k, v := range m.excl {
			for i := 0; i < v; i++ {
				pbt.Excluded(k)
			}
		}
		lbl := "derived:no-mutation-after-a-derivation-from-a-large-container"
		if m.ntDer {
			lbl = "derived:part-of-a-large-container-then-one-side-mutated"
		}
		pbt.Case(m.ntDer, strings.Join(m.stmts, "\n"), lbl)
		pbt.Sample("derived", m.stmts)
	})
}
