package c06

import (
	"verif/pbt"
	"verif/val"
)

const (
	// Index assignment (a[i] = v, m[k] = v, m.k = v) and del(m[k]) write into the backing storage of a large
	// array (> 8 elements) / large map (> 4 pairs) in place, so every other binding that shares it changes too.
	kInPlace = "K-C06-1"
	// + on a large array appends into the spare capacity of the left operand's backing slice: two results
	// built from the same base share it, the second append overwrites the element of the first.
	kSharedAppend = "K-C06-2"
)

// excludedInPlace: the operation mutates the large container v of variable name in place while another live
// binding shares its storage (class of K-C06-1). always: the operation itself creates the second binding
// (argument passing, iteration over the container being mutated).
func (m *machine) excludedInPlace(name string, v val.V, always bool) bool {
	if m.noExclude || !pbt.KnownOpen(kInPlace) || !m.bigc(name, v) {
		return false
	}
	return always || m.sharedWithOthers(name)
}

// excludedSharedAppend: appending to the large array v of variable name may write into spare capacity that
// another result shares (class of K-C06-2).
func (m *machine) excludedSharedAppend(name string, v val.V) bool {
	if m.noExclude || !pbt.KnownOpen(kSharedAppend) || v.K != val.Arr || len(v.A) < 8 {
		return false
	}
	return m.spare[m.store[name]]
}
