package c01

import (
	"fmt"
	"testing"

	"pgregory.net/rapid"
	"verif/gen"
	"verif/pbt"
)

// ---- operator soup: precedence x associativity x unary operators ---------------------------------------

type soupGen struct {
	t *rapid.T
}

func (g *soupGen) n(k int, label string) int { return rapid.IntRange(0, k-1).Draw(g.t, label) }
func (g *soupGen) pick(l []string, label string) string {
	return rapid.SampledFrom(l).Draw(g.t, label)
}

var soupInts = []int64{0, 1, 2, 3, 5, 7, 8, 63, 64, 255, -1, -2, -7, 9223372036854775807, -9223372036854775808, 4611686018427387904, 9007199254740993}
var soupFloats = []string{"0.5", "1.5", "2.0", "0.25", "3.75", "1e3", "0.1", "9007199254740992.0", "9223372036854775808.0", "9223372036854775807.0", "1e300", "0.0"}
var soupStrs = []string{"", "a", "ab", "b", "é", "abc"}

func (g *soupGen) leaf(typ string) *gen.Node {
	switch typ {
	case "int":
		if g.n(3, "ivar") == 0 {
			return gen.Id(g.pick([]string{"i1", "i2", "i3"}, "iname"))
		}
		return gen.Int(rapid.SampledFrom(soupInts).Draw(g.t, "ilit"))
	case "float":
		if g.n(4, "fvar") == 0 {
			return gen.Id(g.pick([]string{"f1", "f2"}, "fname"))
		}
		return gen.FloatLit(g.pick(soupFloats, "flit"))
	case "bool":
		if g.n(4, "bvar") == 0 {
			return gen.Id(g.pick([]string{"b1", "b2"}, "bname"))
		}
		return gen.Bool(rapid.Bool().Draw(g.t, "blit"))
	case "str":
		if g.n(4, "svar") == 0 {
			return gen.Id("s1")
		}
		return gen.Str(g.pick(soupStrs, "slit"))
	default: // arr
		n := g.n(4, "alen")
		els := make([]*gen.Node, n)
		for i := range els {
			els[i] = gen.Int(int64(g.n(4, "el")))
		}
		return gen.Array(els...)
	}
}

var intOps = []string{"+", "-", "*", "/", "%", "&", "|", "^", "<<", ">>"}
var cmpOps = []string{"<", ">", "<=", ">=", "==", "!="}

func (g *soupGen) expr(typ string, depth int) *gen.Node {
	if depth <= 0 || g.n(5, "leaf") == 0 {
		return g.leaf(typ)
	}
	d := depth - 1
	switch typ {
	case "int":
		switch g.n(10, "iform") {
		case 0, 1, 2, 3, 4, 5:
			op := g.pick(intOps, "iop")
			r := g.expr("int", d)
			if (op == "<<" || op == ">>") && g.n(4, "bigshift") != 0 {
				r = gen.Int(int64(g.n(70, "shift")))
			}
			return gen.Infix(op, g.expr("int", d), r)
		case 6, 7:
			return gen.Prefix(g.pick([]string{"-", "~", "+", "^"}, "ipre"), g.expr("int", d))
		case 8:
			return gen.IfElse(g.expr("bool", d), []*gen.Node{g.expr("int", d)}, []*gen.Node{g.expr("int", d)})
		default:
			return gen.Builtin("len", g.expr(g.pick([]string{"str", "arr"}, "lentype"), d))
		}
	case "float":
		switch g.n(6, "fform") {
		case 0, 1, 2:
			return gen.Infix(g.pick([]string{"+", "-", "*", "/", "%"}, "fop"), g.expr("float", d), g.expr("float", d))
		case 3:
			return gen.Infix(g.pick([]string{"+", "-", "*", "/"}, "fop2"), g.expr("float", d), g.expr("int", d))
		case 4:
			return gen.Infix(g.pick([]string{"+", "-", "*", "/"}, "fop3"), g.expr("int", d), g.expr("float", d))
		default:
			return gen.Prefix(g.pick([]string{"-", "+"}, "fpre"), g.expr("float", d))
		}
	case "bool":
		switch g.n(10, "bform") {
		case 0, 1, 2:
			return gen.Infix(g.pick(cmpOps, "cmp"), g.expr("int", d), g.expr("int", d))
		case 3:
			return gen.Infix(g.pick(cmpOps, "cmpf"), g.expr(g.pick([]string{"int", "float"}, "lt"), d), g.expr("float", d))
		case 4, 5, 6:
			return gen.Infix(g.pick([]string{"&&", "||"}, "logic"), g.expr("bool", d), g.expr("bool", d))
		case 7:
			return gen.Prefix("!", g.expr("bool", d))
		case 8:
			return gen.Infix(g.pick(cmpOps, "cmps"), g.expr("str", d), g.expr("str", d))
		default:
			return gen.Infix(g.pick([]string{"==", "!="}, "eqb"), g.expr("bool", d), g.expr("bool", d))
		}
	case "str":
		switch g.n(4, "sform") {
		case 0, 1:
			return gen.Infix("+", g.expr("str", d), g.expr("str", d))
		case 2:
			return gen.Infix("*", g.expr("str", d), gen.Int(int64(g.n(4, "rep"))))
		default:
			return gen.Slice(g.expr("str", d), gen.Int(int64(g.n(3, "l"))), nil)
		}
	default:
		switch g.n(4, "aform") {
		case 0:
			return gen.Infix("+", g.expr("arr", d), g.expr("arr", d))
		case 1:
			return gen.Infix("+", g.expr("arr", d), g.expr("int", d))
		case 2:
			return gen.Infix("*", g.expr("arr", d), gen.Int(int64(g.n(3, "arep"))))
		default:
			return gen.Infix(":", gen.Int(int64(g.n(3, "from"))), gen.Int(int64(g.n(5, "to")+2)))
		}
	}
}

// wild: an operand of the wrong type somewhere, so that error / no error is compared too
func (g *soupGen) wild(depth int) *gen.Node {
	types := []string{"int", "float", "bool", "str", "arr"}
	l, r := g.pick(types, "wl"), g.pick(types, "wr")
	ops := append(append([]string{}, intOps...), cmpOps...)
	ops = append(ops, "&&", "||")
	return gen.Infix(g.pick(ops, "wop"), g.expr(l, depth-1), g.expr(r, depth-1))
}

func soupNesting(n *gen.Node) (maxNest int, rightNested bool) {
	var walk func(n *gen.Node, nest int)
	walk = func(n *gen.Node, nest int) {
		if n == nil {
			return
		}
		if n.K == gen.KInfix || n.K == gen.KPrefix {
			nest++
			if nest > maxNest {
				maxNest = nest
			}
			if n.K == gen.KInfix && n.Kids[1].K == gen.KInfix {
				rightNested = true
			}
		}
		for _, k := range n.Kids {
			walk(k, nest)
		}
		for _, k := range n.Body {
			walk(k, nest)
		}
		for _, k := range n.Else {
			walk(k, nest)
		}
	}
	walk(n, 0)
	return
}

func TestOperatorSoup(t *testing.T) {
	pbt.Check(t, 3000, 300000, func(rt_ *rapid.T) {
		g := &soupGen{t: rt_}
		prog := []*gen.Node{
			gen.Assign("i1", gen.Int(rapid.SampledFrom(soupInts).Draw(rt_, "i1"))),
			gen.Assign("i2", gen.Int(rapid.SampledFrom(soupInts).Draw(rt_, "i2"))),
			gen.Assign("i3", gen.Int(int64(g.n(9, "i3")-4))),
			gen.Assign("f1", gen.FloatLit(g.pick(soupFloats, "f1"))),
			gen.Assign("f2", gen.Prefix("-", gen.FloatLit(g.pick(soupFloats, "f2")))),
			gen.Assign("b1", gen.Bool(rapid.Bool().Draw(rt_, "b1"))),
			gen.Assign("b2", gen.Bool(rapid.Bool().Draw(rt_, "b2"))),
			gen.Assign("s1", gen.Str(g.pick(soupStrs, "s1"))),
		}
		nest, right := 0, false
		n := 2 + g.n(5, "nexprs")
		for i := 0; i < n; i++ {
			var e *gen.Node
			if g.n(8, "wild") == 0 {
				e = g.wild(3)
			} else {
				e = g.expr(g.pick([]string{"int", "int", "int", "bool", "bool", "float", "str", "arr"}, "type"), 2+g.n(4, "depth"))
			}
			mn, rn := soupNesting(e)
			if mn > nest {
				nest = mn
			}
			right = right || rn
			switch g.n(3, "how") {
			case 0:
				prog = append(prog, gen.Println(gen.Builtin("catch", e)))
			case 1:
				prog = append(prog, gen.Assign("r", gen.Builtin("catch", e)), gen.Println(gen.Dot(gen.Id("r"), "value")))
			default:
				prog = append(prog, gen.Println(gen.Dot(gen.Builtin("catch", e), "err"), gen.Builtin("catch", e)))
			}
		}
		prog = append(prog, gen.Builtin("catch", g.expr("int", 3)))
		c := Case{Prog: prog}
		o, err := check(c, false)
		if err != nil {
			report(rt_, "soup", c, err)
		}
		var extra []string
		if nest >= 2 {
			extra = append(extra, "soup:nested-operators")
		}
		if right {
			extra = append(extra, "soup:right-nested")
		}
		record("soup", c, o, extra...)
		pbt.Sample("soup", gen.Print(c.Prog[8:], gen.PrintOptions{}))
	})
}

// ---- indexing and slicing: negative indices x container kind x size around the thresholds -------------------

func TestIndexSlice(t *testing.T) {
	pbt.Check(t, 2000, 200000, func(rt_ *rapid.T) {
		g := &soupGen{t: rt_}
		mkArr := func(n int) *gen.Node {
			els := make([]*gen.Node, n)
			for i := range els {
				els[i] = gen.Int(int64(i * 10))
			}
			return gen.Array(els...)
		}
		mkMap := func(n int) *gen.Node {
			keys := []*gen.Node{gen.Str("a"), gen.Int(1), gen.Str("b"), gen.FloatLit("2.5"), gen.Bool(true), gen.Str("k"), gen.Int(-3), gen.Nil()}
			var kvs []*gen.Node
			for i := 0; i < n; i++ {
				kvs = append(kvs, keys[i], gen.Int(int64(i)))
			}
			return gen.Map(kvs...)
		}
		cont := func() *gen.Node {
			switch g.n(7, "ckind") {
			case 0, 1:
				return mkArr(rapid.SampledFrom([]int{0, 1, 2, 7, 8, 9, 12}).Draw(rt_, "alen"))
			case 2:
				return gen.Str(g.pick([]string{"", "a", "hello", "héllo wörld", "0123456789"}, "str"))
			case 3:
				return mkMap(rapid.SampledFrom([]int{0, 1, 3, 4, 5, 8}).Draw(rt_, "mlen"))
			case 4:
				return gen.Nil()
			case 5:
				return gen.Array(mkArr(3), gen.Str("xy"), mkMap(2), mkArr(9))
			default:
				return gen.Id(g.pick([]string{"a1", "a2", "m1", "s1"}, "cvar"))
			}
		}
		idx := func() *gen.Node {
			switch g.n(8, "ikind") {
			case 0:
				return gen.Nil()
			case 1:
				return gen.Str(g.pick([]string{"a", "b", "k", "zz"}, "skey"))
			case 2:
				return gen.FloatLit(g.pick([]string{"1.0", "2.5"}, "fkey"))
			case 3:
				return gen.Id("i1")
			case 4:
				return gen.Bool(true)
			default:
				return gen.Int(int64(g.n(29, "idx") - 14))
			}
		}
		bound := func() *gen.Node {
			if g.n(8, "wildbound") == 0 {
				return idx()
			}
			return gen.Int(int64(g.n(29, "bound") - 14))
		}
		prog := []*gen.Node{
			gen.Assign("a1", mkArr(rapid.SampledFrom([]int{3, 8}).Draw(rt_, "a1"))),
			gen.Assign("a2", mkArr(rapid.SampledFrom([]int{9, 12}).Draw(rt_, "a2"))),
			gen.Assign("m1", mkMap(rapid.SampledFrom([]int{2, 4, 6}).Draw(rt_, "m1"))),
			gen.Assign("s1", gen.Str("grol!")),
			gen.Assign("i1", gen.Int(int64(g.n(9, "i1")-4))),
		}
		n := 3 + g.n(6, "n")
		for i := 0; i < n; i++ {
			var e *gen.Node
			switch g.n(8, "form") {
			case 0, 1, 2:
				e = gen.Index(cont(), idx())
			case 3, 4:
				var hi *gen.Node
				if g.n(3, "open") != 0 {
					hi = bound()
				}
				e = gen.Slice(cont(), bound(), hi)
			case 5:
				e = gen.Index(gen.Index(cont(), idx()), idx())
			case 6:
				e = gen.Index(gen.Slice(cont(), bound(), nil), idx())
			default:
				e = gen.Dot(cont(), g.pick([]string{"a", "b", "k", "zz"}, "field"))
			}
			prog = append(prog, gen.Println(gen.Builtin("catch", e)))
			if g.n(4, "assign") == 0 {
				// index assignment on the small containers (the large ones: see K-C06-1)
				target := g.pick([]string{"a1", "m1"}, "target")
				prog = append(prog, gen.Println(gen.Builtin("catch", gen.Infix("=", gen.Index(gen.Id(target), idx()), gen.Int(int64(i+100))))), gen.Println(gen.Id(target)))
			}
		}
		prog = append(prog, gen.Array(gen.Id("a1"), gen.Id("m1")))
		c := Case{Prog: prog}
		o, err := check(c, false)
		if err != nil {
			report(rt_, "index", c, err)
		}
		record("index", c, o, "index:grid")
		pbt.Sample("index", gen.Print(c.Prog[5:], gen.PrintOptions{}))
	})
}

// ---- scoping: = vs := x nested functions x closures x recursion x constants -----------------------------

type fnInfo struct {
	name       string
	params     int
	retClosure bool // returns a zero-parameter closure
}

type scopeGen struct {
	t      *rapid.T
	nameN  int
	depth  int
	fns    [][]fnInfo // lexically visible functions, innermost last
	locals [][]string // names known to be bound in each function level (params and := locals)
}

func (g *scopeGen) n(k int, label string) int { return rapid.IntRange(0, k-1).Draw(g.t, label) }

var scopeVars = []string{"x", "y", "z"}

func (g *scopeGen) name() string {
	if l := g.locals[len(g.locals)-1]; len(l) > 0 && g.n(3, "local") == 0 {
		return l[g.n(len(l), "lname")]
	}
	return rapid.SampledFrom(scopeVars).Draw(g.t, "gname")
}

func (g *scopeGen) visibleFns() []fnInfo {
	var out []fnInfo
	for _, l := range g.fns {
		out = append(out, l...)
	}
	return out
}

func (g *scopeGen) expr(depth int) *gen.Node {
	if depth <= 0 || g.n(3, "leaf") == 0 {
		switch g.n(4, "leafkind") {
		case 0:
			return gen.Int(int64(g.n(6, "lit")))
		case 1:
			return gen.Id("K")
		default:
			return gen.Id(g.name())
		}
	}
	if fs := g.visibleFns(); len(fs) > 0 && g.n(3, "call") == 0 {
		return g.callOf(fs[g.n(len(fs), "fn")], depth-1)
	}
	return gen.Infix(rapid.SampledFrom([]string{"+", "-", "*"}).Draw(g.t, "op"), g.expr(depth-1), g.expr(depth-1))
}

func (g *scopeGen) callOf(f fnInfo, depth int) *gen.Node {
	args := make([]*gen.Node, f.params)
	for i := range args {
		args[i] = g.expr(depth)
	}
	c := gen.Call(gen.Id(f.name), args...)
	if f.retClosure {
		return gen.Call(c)
	}
	return c
}

func (g *scopeGen) dump(tag string) *gen.Node {
	args := []*gen.Node{gen.Str(tag)}
	for _, v := range scopeVars {
		args = append(args, gen.Id(v))
	}
	for _, l := range g.locals[len(g.locals)-1] {
		args = append(args, gen.Id(l))
	}
	return gen.Println(args...)
}

func (g *scopeGen) fresh(prefix string) string {
	g.nameN++
	return fmt.Sprintf("%s%d", prefix, g.nameN)
}

func (g *scopeGen) addLocal(name string) {
	top := len(g.locals) - 1
	for _, l := range g.locals[top] {
		if l == name {
			return
		}
	}
	g.locals[top] = append(g.locals[top], name)
}

func (g *scopeGen) stmts(n int) []*gen.Node {
	var out []*gen.Node
	for i := 0; i < n; i++ {
		out = append(out, g.stmt()...)
	}
	return out
}

func (g *scopeGen) stmt() []*gen.Node {
	switch g.n(16, "stmt") {
	case 0, 1, 2:
		return []*gen.Node{gen.Assign(g.name(), g.expr(2))}
	case 3, 4:
		v := g.name()
		if g.n(3, "newlocal") == 0 {
			v = rapid.SampledFrom([]string{"x", "y", "w", "t"}).Draw(g.t, "defname")
		}
		e := g.expr(2)
		if g.depth > 0 {
			g.addLocal(v)
		}
		return []*gen.Node{gen.Define(v, e)}
	case 5, 6:
		return []*gen.Node{g.dump(g.fresh("L"))}
	case 7, 8:
		if g.depth < 3 {
			return g.funcDef()
		}
	case 9:
		return []*gen.Node{gen.If(gen.Infix(rapid.SampledFrom([]string{"<", ">", "=="}).Draw(g.t, "cmp"), g.expr(1), g.expr(1)), g.stmts(1+g.n(2, "ifn")))}
	case 10:
		lv := g.fresh("lv")
		body := []*gen.Node{gen.Assign(g.name(), gen.Infix("+", gen.Id(g.name()), gen.Id(lv)))}
		if g.n(2, "loopdef") == 0 {
			body = append(body, g.stmt()...)
		}
		return []*gen.Node{gen.For(gen.Assign(lv, gen.Int(int64(1+g.n(3, "cnt")))), body...)}
	case 11:
		// constant: same or different value, maybe from an inner scope
		return []*gen.Node{gen.Println(gen.Dot(gen.Builtin("catch", gen.Assign("K", gen.Int(int64(7+g.n(2, "kval"))))), "err"))}
	case 12:
		return []*gen.Node{gen.Postfix(rapid.SampledFrom([]string{"++", "--"}).Draw(g.t, "incr"), g.name())}
	case 13:
		if fs := g.visibleFns(); len(fs) > 0 {
			f := fs[g.n(len(fs), "callfn")]
			return []*gen.Node{gen.Println(gen.Str("call "+f.name), gen.Builtin("catch", g.callOf(f, 1)))}
		}
	case 14:
		if g.depth < 3 {
			return g.recursion()
		}
	case 15:
		if g.depth < 3 {
			return g.counter()
		}
	}
	return []*gen.Node{gen.Assign(g.name(), g.expr(1))}
}

func (g *scopeGen) enter(params []string) {
	g.depth++
	g.fns = append(g.fns, nil)
	g.locals = append(g.locals, append([]string{}, params...))
}

func (g *scopeGen) leave() {
	g.depth--
	g.fns = g.fns[:len(g.fns)-1]
	g.locals = g.locals[:len(g.locals)-1]
}

func (g *scopeGen) declareFn(f fnInfo) {
	top := len(g.fns) - 1
	g.fns[top] = append(g.fns[top], f)
}

// funcDef: a nested function (named at top level, otherwise bound to a variable), possibly shadowing names
// with its parameters, possibly returning a closure over its locals.
func (g *scopeGen) funcDef() []*gen.Node {
	np := g.n(3, "np")
	pool := []string{"x", "y", "p", "q", "K2"}
	var params []string
	for len(params) < np {
		p := rapid.SampledFrom(pool).Draw(g.t, "param")
		dup := false
		for _, q := range params {
			dup = dup || q == p
		}
		if !dup {
			params = append(params, p)
		}
	}
	f := fnInfo{name: g.fresh("f"), params: np, retClosure: g.n(4, "retclosure") == 0}
	g.enter(params)
	body := g.stmts(1 + g.n(4, "bodyn"))
	body = append(body, g.dump("in "+f.name))
	if f.retClosure {
		inner := []*gen.Node{gen.Assign(g.name(), gen.Infix("+", gen.Id(g.name()), gen.Int(1)))}
		g.enter(nil)
		inner = append(inner, g.stmts(g.n(2, "innern"))...)
		inner = append(inner, g.dump("closure of "+f.name), g.expr(1))
		g.leave()
		body = append(body, gen.LambdaBlock(nil, false, inner...))
	} else {
		body = append(body, g.expr(2))
	}
	g.leave()
	g.declareFn(f)
	var def *gen.Node
	switch {
	case g.depth == 0 && g.n(2, "named") == 0:
		def = gen.Func(f.name, params, false, body...)
	case g.n(2, "lambda") == 0:
		def = gen.Assign(f.name, gen.LambdaBlock(params, false, body...))
	default:
		def = gen.Assign(f.name, gen.Func("", params, false, body...))
	}
	out := []*gen.Node{def}
	for i := g.n(3, "ncalls"); i > 0; i-- {
		out = append(out, gen.Println(gen.Str("call "+f.name), gen.Builtin("catch", g.callOf(f, 1))))
	}
	return out
}

// recursion: a function that sets a variable at one depth and reads it at another (the caller's scope is the
// parent when a function calls itself), in a few variations.
func (g *scopeGen) recursion() []*gen.Node {
	name := g.fresh("rec")
	v := g.name()
	setAt, readAt := g.n(3, "setat"), g.n(3, "readat")
	local := rapid.SampledFrom([]string{"w", "t", v}).Draw(g.t, "recvar")
	var setStmt *gen.Node
	if g.n(2, "define") == 0 {
		setStmt = gen.Define(local, gen.Infix("+", gen.Id("d"), gen.Int(100)))
	} else {
		setStmt = gen.Assign(local, gen.Infix("+", gen.Id("d"), gen.Int(100)))
	}
	body := []*gen.Node{
		gen.If(gen.Infix("==", gen.Id("d"), gen.Int(int64(setAt))), []*gen.Node{setStmt}),
		gen.If(gen.Infix("==", gen.Id("d"), gen.Int(int64(readAt))), []*gen.Node{gen.Println(gen.Str(name+" reads"), gen.Builtin("catch", gen.Id(local)))}),
		gen.If(gen.Infix("<=", gen.Id("d"), gen.Int(0)), []*gen.Node{gen.Return(gen.Id(v))}),
	}
	callee := gen.Id(name)
	if g.n(3, "self") == 0 {
		callee = gen.Id("self")
	}
	body = append(body, gen.Infix("+", gen.Call(callee, gen.Infix("-", gen.Id("d"), gen.Int(1))), gen.Int(1)))
	var def *gen.Node
	if g.depth == 0 && g.n(2, "named") == 0 {
		def = gen.Func(name, []string{"d"}, false, body...)
	} else {
		def = gen.Assign(name, gen.Func("", []string{"d"}, false, body...))
	}
	out := []*gen.Node{def, gen.Println(gen.Str("call "+name), gen.Builtin("catch", gen.Call(gen.Id(name), gen.Int(int64(1+g.n(3, "recdepth")))))), g.dump("after " + name)}
	if def.K == gen.KFunc && callee.S != "self" && g.n(2, "rebind") == 0 {
		// a named function still finds itself under its name after the name was bound to something else
		alias := g.fresh("alias")
		out = append(out, gen.Assign(alias, gen.Id(name)), gen.Assign(name, gen.Int(5)),
			gen.Println(gen.Str("call "+alias), gen.Builtin("catch", gen.Call(gen.Id(alias), gen.Int(2)))))
	}
	return out
}

// counter: the classic closure factory, two instances advanced independently
func (g *scopeGen) counter() []*gen.Node {
	mk := g.fresh("mk")
	c1, c2 := g.fresh("c"), g.fresh("c")
	v := rapid.SampledFrom([]string{"n", "x", "cnt"}).Draw(g.t, "cntvar")
	var init *gen.Node
	if g.n(2, "define") == 0 {
		init = gen.Define(v, gen.Id("start"))
	} else {
		init = gen.Assign(v, gen.Id("start"))
	}
	def := gen.Assign(mk, gen.Func("", []string{"start"}, false, init,
		gen.LambdaBlock(nil, false, gen.Assign(v, gen.Infix("+", gen.Id(v), gen.Int(1))), gen.Id(v))))
	out := []*gen.Node{def, gen.Assign(c1, gen.Call(gen.Id(mk), gen.Int(int64(g.n(3, "s1"))))), gen.Assign(c2, gen.Call(gen.Id(mk), gen.Int(10)))}
	for i := 2 + g.n(4, "ncalls"); i > 0; i-- {
		c := c1
		if g.n(2, "which") == 0 {
			c = c2
		}
		out = append(out, gen.Println(gen.Str(c), gen.Builtin("catch", gen.Call(gen.Id(c)))))
	}
	return append(out, g.dump("after counters"))
}

func TestScoping(t *testing.T) {
	pbt.Check(t, 3000, 300000, func(rt_ *rapid.T) {
		g := &scopeGen{t: rt_, fns: [][]fnInfo{nil}, locals: [][]string{nil}}
		prog := []*gen.Node{gen.Assign("x", gen.Int(1)), gen.Assign("y", gen.Int(2)), gen.Assign("z", gen.Int(3)), gen.Assign("K", gen.Int(7))}
		prog = append(prog, g.stmts(4+g.n(8, "ntop"))...)
		prog = append(prog, g.dump("end"), gen.Array(gen.Id("x"), gen.Id("y"), gen.Id("z")))
		c := Case{Prog: prog}
		o, err := check(c, false)
		if err != nil {
			report(rt_, "scoping", c, err)
		}
		record("scoping", c, o)
		pbt.Sample("scoping", gen.Print(c.Prog[4:], gen.PrintOptions{}))
	})
}

// ---- control flow: every loop form x break / continue / return / error x nesting x exit position ----------

type cfGen struct {
	t      *rapid.T
	nameN  int
	inFunc bool
}

func (g *cfGen) n(k int, label string) int { return rapid.IntRange(0, k-1).Draw(g.t, label) }
func (g *cfGen) fresh(p string) string {
	g.nameN++
	return fmt.Sprintf("%s%d", p, g.nameN)
}

// loop builds one loop; v is the loop's variable expression usable in conditions (an integer expression).
func (g *cfGen) loop(depth int) []*gen.Node {
	var pre []*gen.Node
	var header, v *gen.Node
	form := g.n(8, "form")
	switch form {
	case 0:
		header = gen.Int(int64(g.n(5, "count")))
		v = gen.Id("acc")
	case 1:
		name := g.fresh("lv")
		header = gen.Assign(name, gen.Int(int64(g.n(5, "count"))))
		v = gen.Id(name)
	case 2:
		name := g.fresh("lv")
		from := int64(g.n(5, "from") - 2)
		header = gen.Assign(name, gen.Infix(":", gen.Int(from), gen.Int(from+int64(g.n(5, "span")))))
		v = gen.Id(name)
	case 3:
		name := g.fresh("el")
		n := rapid.SampledFrom([]int{0, 1, 3, 8, 9}).Draw(g.t, "alen")
		els := make([]*gen.Node, n)
		for i := range els {
			els[i] = gen.Int(int64(g.n(7, "el")))
		}
		header = gen.Assign(name, gen.Array(els...))
		v = gen.Id(name)
	case 4:
		name := g.fresh("ch")
		header = gen.Assign(name, gen.Str(rapid.SampledFrom([]string{"", "a", "abc", "héé", "b-b"}).Draw(g.t, "str")))
		v = gen.Builtin("len", gen.Id(name))
	case 5:
		name := g.fresh("kv")
		n := rapid.SampledFrom([]int{0, 1, 3, 4, 5, 6}).Draw(g.t, "mlen")
		keys := []string{"d", "a", "c", "b", "f", "e"}
		var kvs []*gen.Node
		for i := 0; i < n; i++ {
			kvs = append(kvs, gen.Str(keys[i]), gen.Int(int64(g.n(7, "mv"))))
		}
		header = gen.Assign(name, gen.Map(kvs...))
		v = gen.Dot(gen.Id(name), "value")
	default: // condition loops
		name := g.fresh("c")
		pre = append(pre, gen.Assign(name, gen.Int(int64(g.n(5, "iters")))))
		header = gen.Infix(">", gen.Id(name), gen.Int(0))
		v = gen.Id(name)
	}
	var body []*gen.Node
	if form >= 6 {
		c := header.Kids[0].S
		if g.n(2, "decrform") == 0 {
			body = append(body, gen.Assign(c, gen.Infix("-", gen.Id(c), gen.Int(1))))
		} else {
			body = append(body, gen.Postfix("--", c))
		}
	}
	tag := g.fresh("t")
	for i := 1 + g.n(4, "nbody"); i > 0; i-- {
		switch g.n(10, "item") {
		case 0, 1:
			body = append(body, gen.Println(gen.Str(tag), v.Clone(), gen.Id("acc")))
		case 2:
			body = append(body, gen.Assign("acc", gen.Infix("+", gen.Id("acc"), v.Clone())))
		case 3, 4, 5:
			cond := gen.Infix(rapid.SampledFrom([]string{"==", ">", "<", ">="}).Draw(g.t, "cmp"), v.Clone(), gen.Int(int64(g.n(5, "k"))))
			if g.n(3, "acccond") == 0 {
				cond = gen.Infix("==", gen.Infix("%", gen.Id("acc"), gen.Int(2)), gen.Int(int64(g.n(2, "parity"))))
			}
			var exit *gen.Node
			switch g.n(7, "exit") {
			case 0, 1:
				exit = gen.Break()
			case 2, 3:
				exit = gen.Continue()
			case 4:
				exit = gen.Return(gen.Infix("*", gen.Id("acc"), gen.Int(10)))
				if g.n(3, "bare") == 0 {
					exit = gen.Return(nil)
				}
			case 5:
				exit = gen.Builtin("error", gen.Str("stop"), v.Clone())
			default:
				exit = gen.Println(gen.Str(tag + " hit"))
			}
			then := []*gen.Node{exit}
			if g.n(3, "traceexit") == 0 {
				then = []*gen.Node{gen.Println(gen.Str(tag + " exit")), exit}
			}
			if g.n(4, "else") == 0 {
				body = append(body, gen.IfElse(cond, then, []*gen.Node{gen.Assign("acc", gen.Infix("+", gen.Id("acc"), gen.Int(1)))}))
			} else {
				body = append(body, gen.If(cond, then))
			}
		case 6, 7:
			if depth < 3 {
				body = append(body, g.loop(depth+1)...)
			}
		case 8:
			body = append(body, gen.Assign("acc", gen.Infix("+", gen.Id("acc"), gen.Int(1))))
		default:
			// the value of the iteration, and so of the loop
			body = append(body, gen.Infix("*", v.Clone(), gen.Int(2)))
		}
	}
	return append(pre, gen.For(header, body...))
}

func (g *cfGen) use(loop []*gen.Node) []*gen.Node {
	last := loop[len(loop)-1]
	pre := loop[:len(loop)-1]
	switch g.n(4, "use") {
	case 0:
		return loop
	case 1:
		return append(append([]*gen.Node{}, pre...), gen.Assign("lval", last), gen.Println(gen.Str("loop value"), gen.Id("lval")))
	case 2:
		return append(append([]*gen.Node{}, pre...), gen.Println(gen.Str("loop value"), last))
	default:
		return append(append([]*gen.Node{}, loop...), gen.Println(gen.Str("after loop"), gen.Id("acc")))
	}
}

func TestControlFlow(t *testing.T) {
	pbt.Check(t, 3000, 300000, func(rt_ *rapid.T) {
		g := &cfGen{t: rt_}
		prog := []*gen.Node{gen.Assign("acc", gen.Int(0))}
		for i := 1 + g.n(3, "ntop"); i > 0; i-- {
			switch g.n(3, "where") {
			case 0:
				prog = append(prog, g.use(g.loop(0))...)
			default:
				// inside a function, so that return has a function to leave
				name := g.fresh("fn")
				var body []*gen.Node
				if g.n(2, "localacc") == 0 {
					body = append(body, gen.Define("acc", gen.Id("p")))
				}
				for j := 1 + g.n(2, "nloops"); j > 0; j-- {
					body = append(body, g.use(g.loop(0))...)
				}
				body = append(body, gen.Println(gen.Str("end of "+name), gen.Id("acc")), gen.Infix("+", gen.Id("acc"), gen.Id("p")))
				var def *gen.Node
				if g.n(2, "named") == 0 {
					def = gen.Func(name, []string{"p"}, false, body...)
				} else {
					def = gen.Assign(name, gen.LambdaBlock([]string{"p"}, false, body...))
				}
				prog = append(prog, def)
				for k := 1 + g.n(2, "ncalls"); k > 0; k-- {
					prog = append(prog, gen.Println(gen.Str("call "+name), gen.Builtin("catch", gen.Call(gen.Id(name), gen.Int(int64(g.n(4, "arg")))))))
				}
			}
		}
		prog = append(prog, gen.Println(gen.Str("end"), gen.Id("acc")), gen.Id("acc"))
		c := Case{Prog: prog}
		o, err := check(c, false)
		if err != nil {
			report(rt_, "control", c, err)
		}
		record("control", c, o)
		pbt.Sample("control", gen.Print(c.Prog, gen.PrintOptions{}))
	})
}
