package c01

import (
	"fmt"
	"testing"

	"pgregory.net/rapid"
	"verif/gen"
	"verif/pbt"
)

// ---- variadic calls: what ".." holds x a trailing array argument being spread x the same function called again ----
//
// A function whose last parameter is ".." receives the extra arguments as an array; a trailing array ARGUMENT is
// spread first, so f([X]) is f(X) when X is not an array but a different call when X is one (f([1,2]) is f(1,2),
// f([[1,2]]) is not). The family calls a few variadic functions several times in one program with argument lists
// that differ only by such a level of wrapping (X, [X], [[X]], X[0], X's elements listed one by one), as literals and
// through variables, in every order, with equal and with different leading arguments: whatever was called before, each
// call gives what the reference gives for it alone.

type vaFn struct {
	name  string
	leads []string    // names of the parameters before ".."
	usual []*gen.Node // the leading arguments most calls use (so that calls differing only in the last argument recur)
}

type vaGen struct {
	t     *rapid.T
	fns   []vaFn
	base  *gen.Node // X as a literal
	top   int       // v0 = X, v1 = [v0], ... v<top>
	nameN int
}

func (g *vaGen) n(k int, label string) int { return rapid.IntRange(0, k-1).Draw(g.t, label) }

func (g *vaGen) scalar() *gen.Node {
	switch g.n(7, "scalar") {
	case 0, 1:
		return gen.Int(int64(g.n(4, "int")))
	case 2:
		return gen.Str(rapid.SampledFrom([]string{"", "ab", "cde"}).Draw(g.t, "str"))
	case 3:
		return gen.FloatLit(rapid.SampledFrom([]string{"0.5", "2.0"}).Draw(g.t, "float"))
	case 4:
		return gen.Bool(rapid.Bool().Draw(g.t, "bool"))
	case 5:
		return gen.Nil()
	default:
		return gen.Int(int64(-1 - g.n(3, "neg")))
	}
}

func (g *vaGen) flat(n int) *gen.Node {
	els := make([]*gen.Node, n)
	strs := g.n(3, "strs") == 0
	for i := range els {
		if strs {
			els[i] = gen.Str(rapid.SampledFrom([]string{"ab", "cde", "", "f"}).Draw(g.t, "sel"))
		} else {
			els[i] = gen.Int(int64(g.n(5, "el")))
		}
	}
	return gen.Array(els...)
}

// value: what a call is given (before any wrapping): mostly arrays, on both sides of the small-array threshold
func (g *vaGen) value() *gen.Node {
	switch g.n(10, "value") {
	case 0, 1, 2, 3:
		return g.flat(rapid.SampledFrom([]int{0, 1, 2, 2, 3, 3, 8, 9}).Draw(g.t, "alen"))
	case 4:
		return gen.Array(g.scalar(), g.flat(1+g.n(3, "inner")), g.scalar())
	case 5:
		return gen.Array(g.flat(g.n(4, "only"))) // itself a one-element array holding an array
	case 6:
		return gen.Array(g.flat(1+g.n(2, "row1")), g.flat(1+g.n(3, "row2")))
	case 7:
		return gen.Map(gen.Str("a"), gen.Int(int64(g.n(3, "mv"))))
	default:
		return g.scalar()
	}
}

func wrap(x *gen.Node, levels int) *gen.Node {
	for ; levels > 0; levels-- {
		x = gen.Array(x)
	}
	return x
}

func vname(level int) string { return fmt.Sprintf("v%d", level) }

// last: X at some level of wrapping, written in one of the ways that give that value
func (g *vaGen) last() []*gen.Node {
	level := g.n(g.top+1, "level")
	switch g.n(8, "lastform") {
	case 0, 1:
		return []*gen.Node{gen.Id(vname(level))}
	case 2, 3:
		return []*gen.Node{wrap(g.base.Clone(), level)}
	case 4:
		if level < g.top {
			return []*gen.Node{gen.Index(gen.Id(vname(level+1)), gen.Int(int64(-g.n(2, "neg"))))} // [0] or [-1] of a one-element array
		}
		return []*gen.Node{gen.Index(gen.Id(vname(0)), gen.Int(0))} // an element of X (nil, or an error, when X has none)
	case 5:
		if level > 0 {
			return []*gen.Node{gen.Array(gen.Id(vname(level - 1)))}
		}
		if g.base.K == gen.KArray { // X's elements one by one: the spread, written out
			var out []*gen.Node
			for _, k := range g.base.Kids {
				out = append(out, k.Clone())
			}
			return out
		}
		return []*gen.Node{g.base.Clone()}
	case 6:
		return []*gen.Node{gen.Id("w")}
	default:
		return []*gen.Node{g.value()}
	}
}

func (g *vaGen) lead() *gen.Node {
	switch g.n(6, "lead") {
	case 0, 1:
		return gen.Int(int64(g.n(3, "leadint")))
	case 2:
		return gen.Str("s")
	case 3:
		return gen.Array(gen.Int(1)) // an array that is not last is not spread
	case 4:
		return gen.Id("w")
	default:
		return gen.Id(vname(g.n(g.top+1, "leadlevel")))
	}
}

func (g *vaGen) callOf(f vaFn) *gen.Node {
	var args []*gen.Node
	if g.n(5, "irregular") == 0 {
		// any number of arguments, the leading parameters possibly filled by the spread (or not at all: an error)
		for i := g.n(3, "nargs"); i > 0; i-- {
			args = append(args, g.lead())
		}
		if g.n(4, "nolast") != 0 {
			args = append(args, g.last()...)
		}
		return gen.Call(gen.Id(f.name), args...)
	}
	for i := range f.leads {
		if g.n(4, "otherlead") == 0 {
			args = append(args, g.lead())
		} else {
			args = append(args, f.usual[i].Clone())
		}
	}
	if g.n(4, "middle") == 0 {
		args = append(args, g.scalar())
	}
	if g.n(8, "nolast") != 0 {
		args = append(args, g.last()...)
	}
	return gen.Call(gen.Id(f.name), args...)
}

func ids(names []string) []*gen.Node {
	out := make([]*gen.Node, len(names))
	for i, s := range names {
		out[i] = gen.Id(s)
	}
	return out
}

func (g *vaGen) body(name string, leads []string) []*gen.Node {
	dots := func() *gen.Node { return gen.Id("..") }
	count := gen.Builtin("len", dots())
	switch form := g.n(12, "body"); form {
	case 0:
		return []*gen.Node{dots()}
	case 1:
		return []*gen.Node{gen.Array(append(ids(leads), count)...)}
	case 2:
		return []*gen.Node{gen.Array(append(ids(leads), dots())...)}
	case 3, 4:
		// the demo's shape: a total over the extra arguments (an error when one of them has no length)
		var init *gen.Node = gen.Int(0)
		if len(leads) > 0 && form == 3 {
			init = gen.Id(leads[0])
		}
		step := gen.Builtin("len", gen.Id("x"))
		if g.n(3, "countonly") == 0 {
			step = gen.Int(1)
		}
		return []*gen.Node{gen.Assign("t", init), gen.For(gen.Assign("x", dots()), gen.Assign("t", gen.Infix("+", gen.Id("t"), step))), gen.Id("t")}
	case 5:
		// printing: what a remembered call printed is printed again
		return []*gen.Node{gen.Println(append(append([]*gen.Node{gen.Str("in " + name)}, ids(leads)...), dots())...), count}
	case 6, 7:
		if len(g.fns) > 0 {
			// forwarding "..": spread again by the callee (or passed as one array when wrapped)
			p := g.fns[g.n(len(g.fns), "fwdto")]
			var args []*gen.Node
			for i := range p.leads {
				if i < len(leads) && g.n(2, "fwdlead") == 0 {
					args = append(args, gen.Id(leads[i]))
				} else {
					args = append(args, gen.Int(int64(g.n(2, "fwdint"))))
				}
			}
			if form == 6 {
				args = append(args, dots())
			} else {
				args = append(args, gen.Array(dots()))
			}
			return []*gen.Node{gen.Array(gen.Str(name), gen.Call(gen.Id(p.name), args...))}
		}
	case 8:
		return []*gen.Node{gen.Infix("+", count, gen.Id("g0"))} // reads an outer variable
	case 9:
		return []*gen.Node{gen.Index(dots(), gen.Int(int64(-g.n(2, "lastel"))))}
	case 10:
		return []*gen.Node{gen.Array(count, gen.Builtin("len", gen.Index(dots(), gen.Int(0))))}
	}
	return []*gen.Node{count}
}

func (g *vaGen) funcDef() *gen.Node {
	g.nameN++
	f := vaFn{name: fmt.Sprintf("va%d", g.nameN)}
	f.leads = [][]string{nil, nil, {"a"}, {"a"}, {"a", "b"}}[g.n(5, "nleads")]
	for range f.leads {
		f.usual = append(f.usual, g.lead())
	}
	params := append(append([]string{}, f.leads...), "..")
	body := g.body(f.name, f.leads)
	g.fns = append(g.fns, f)
	switch g.n(4, "deffrom") {
	case 0, 1:
		return gen.Func(f.name, params, true, body...)
	case 2:
		return gen.Assign(f.name, gen.Func("", params, true, body...))
	default:
		return gen.Assign(f.name, gen.LambdaBlock(params, true, body...))
	}
}

func TestVariadicCalls(t *testing.T) {
	pbt.Check(t, 1500, 150000, func(rt_ *rapid.T) {
		g := &vaGen{t: rt_}
		g.base = g.value()
		g.top = 1 + g.n(2, "top")
		prog := []*gen.Node{gen.Assign("g0", gen.Int(int64(g.n(3, "g0")))), gen.Assign("w", g.value()), gen.Assign(vname(0), g.base.Clone())}
		for l := 1; l <= g.top; l++ {
			if g.n(2, "viaVar") == 0 {
				prog = append(prog, gen.Assign(vname(l), gen.Array(gen.Id(vname(l-1)))))
			} else {
				prog = append(prog, gen.Assign(vname(l), wrap(g.base.Clone(), l)))
			}
		}
		defs := len(prog)
		for i := 1 + g.n(3, "nfns"); i > 0; i-- {
			prog = append(prog, g.funcDef())
		}
		// mostly one function, so that its calls follow each other
		favourite := g.fns[g.n(len(g.fns), "favourite")]
		pickFn := func() vaFn {
			if g.n(3, "otherfn") == 0 {
				return g.fns[g.n(len(g.fns), "fn")]
			}
			return favourite
		}
		for i := 3 + g.n(6, "ncalls"); i > 0; i-- {
			f := pickFn()
			call := gen.Builtin("catch", g.callOf(f))
			switch g.n(8, "how") {
			case 0:
				prog = append(prog, gen.Assign("r", call), gen.Println(gen.Str(f.name), gen.Dot(gen.Id("r"), "value")))
			case 1:
				// the variable now holds something else: calls through it are other calls
				prog = append(prog, gen.Assign(vname(g.n(g.top+1, "rebind")), g.value()), gen.Println(gen.Str(f.name), call))
			default:
				prog = append(prog, gen.Println(gen.Str(f.name), call))
			}
		}
		var final []*gen.Node
		for i := 2 + g.n(2, "nfinal"); i > 0; i-- {
			final = append(final, gen.Dot(gen.Builtin("catch", g.callOf(pickFn())), "value"))
		}
		prog = append(prog, gen.Array(final...))
		c := Case{Prog: prog}
		o, err := check(c, false)
		if err != nil {
			report(rt_, "variadic", c, err)
		}
		record("variadic", c, o, "variadic:repeated-calls")
		pbt.Sample("variadic", gen.Print(c.Prog[defs:], gen.PrintOptions{}))
	})
}
