// C01 — evaluation agrees with the language's reference semantics.
package c01

import (
	"encoding/json"
	"fmt"
	"os"
	"strconv"
	"strings"
	"testing"
	"time"

	"grol.io/grol/object"
	"pgregory.net/rapid"
	"verif/gen"
	"verif/gv"
	"verif/pbt"
	"verif/ref"
	"verif/sess"
	"verif/val"
)

func TestMain(m *testing.M) {
	sess.Init()
	pbt.Main(m, pbt.Meta{
		Property: "C01",
		Level:    "exploration",
		Rule: "programs drawn from the harness's typed grammar of the core language (own syntax tree, own printer: the intended tree is known without grol's parser) are evaluated by grol (fresh state, default " +
			"configuration, through lexer, parser and evaluator) and by the harness's reference evaluator (package ref: own scoping model, Go int64 arithmetic, own value order and printed form); oracle: the printed " +
			"text, the final value (structure and type, exact float bits) and error / no error are identical. Families: typed programs (functions, closures, recursion, variadics, all loop forms with " +
			"break/continue/return, = vs :=, ++/--, indexing, slicing, containers around the small/large thresholds, error()/catch()), operator soups (every infix/prefix operator nested both ways so that precedence " +
			"and associativity decide the value), scoping scenarios, index/slice grids, repeated variadic calls (a few functions with a \"..\" parameter called several times in one program with argument lists that differ " +
			"by one level of array wrapping - X, [X], [[X]], X[0], X's elements one by one - so that a spread trailing array and the same value passed whole are told apart whatever was called before). Non-trivial: the program printed something or produced a non-nil value AND exercised an interaction (a call, a loop exit, an " +
			"outer-scope read or write, a caught error, nested operators); distinct by program text.",
		Assumptions: []string{
			"the wording of interpreter-made error messages is not compared (a wildcard stands for it wherever it reaches the output through catch())",
			"programs the reference marks unspecified (printing functions, ordering functions, control values used as operands, operations on error message text) are skipped and counted",
			"type(), info and other introspection are not generated",
		},
	})
}

type Case struct {
	Prog []*gen.Node `json:"prog,omitempty"`
	Text string      `json:"text,omitempty"` // informational: the program as printed by the harness
	// Plain regression form (no generator, no reference evaluator): source text and what it must give.
	Src       string `json:"src,omitempty"`
	WantOut   string `json:"want_out,omitempty"`
	WantValue string `json:"want_value,omitempty"` // printed form of the final value
	WantFail  bool   `json:"want_fail,omitempty"`
}

func checkPlain(c Case) error {
	s := sess.New(cfg)
	obj, err := s.Obj(c.Src)
	got := s.Out.String()
	if got != c.WantOut {
		return fmt.Errorf("printed text differs\nexpected: %q\ngrol:     %q (error: %v)\nprogram:\n%s", c.WantOut, got, err, c.Src)
	}
	if (err != nil) != c.WantFail {
		return fmt.Errorf("expected failure: %v, grol: %v\nprogram:\n%s", c.WantFail, err, c.Src)
	}
	if err == nil && obj.Inspect() != c.WantValue {
		return fmt.Errorf("final value: expected %s, grol %s\nprogram:\n%s", c.WantValue, obj.Inspect(), c.Src)
	}
	return nil
}

var preludeNodes = []*gen.Node{gen.Func("ident", []string{"x"}, false, gen.Id("x"))}

var cfg = sess.Config{MaxDepth: 3000, MaxDuration: 5 * time.Second}

const (
	kInPlace     = "K-C06-1"
	kSpareAppend = "K-C06-2"
	kParenText   = "K-C02-1"
	kParamRetype = "K-C05-2"
)

type outcome struct {
	skipped  string // why the case does not count (unspecified / known finding)
	finding  string
	in       *ref.Interp
	failed   bool
	printed  bool
	nonNil   bool
	noExcl   bool
	grolText string
}

var quotedMark = strings.Trim(strconv.Quote(ref.ErrMark), `"`)

// matchWild compares want (which may contain ref.ErrMark wildcards) with got.
func matchWild(want, got string) bool {
	// inside a printed container the message is quoted
	want = strings.ReplaceAll(want, quotedMark, ref.ErrMark)
	parts := strings.Split(want, ref.ErrMark)
	if len(parts) == 1 {
		return want == got
	}
	if !strings.HasPrefix(got, parts[0]) {
		return false
	}
	got = got[len(parts[0]):]
	for i := 1; i < len(parts); i++ {
		p := parts[i]
		if i == len(parts)-1 {
			return strings.HasSuffix(got, p)
		}
		j := strings.Index(got, p)
		if j < 0 {
			return false
		}
		got = got[j+len(p):]
	}
	return true
}

func hasMark(v val.V) bool {
	switch v.K {
	case val.Str:
		return strings.Contains(v.S, ref.ErrMark)
	case val.Arr:
		for _, e := range v.A {
			if hasMark(e) {
				return true
			}
		}
	case val.Map:
		for _, p := range v.M {
			if hasMark(p.K) || hasMark(p.V) {
				return true
			}
		}
	}
	return false
}

func runRef(prog []*gen.Node) (in *ref.Interp, out ref.Outcome, unspec string) {
	in = ref.New()
	defer func() {
		if r := recover(); r != nil {
			if u, isU := r.(ref.Unspecified); isU {
				unspec = u.Why
				return
			}
			panic(r)
		}
	}()
	in.Run(preludeNodes)
	in.Out.Reset()
	out = in.Run(prog)
	return
}

func check(c Case, noExclude bool) (outcome, error) {
	pbt.InFlight("inflight", c)
	var o outcome
	text := gen.Print(c.Prog, gen.PrintOptions{})
	in, want, unspec := runRef(c.Prog)
	o.in = in
	if unspec != "" {
		o.skipped = "unspecified: " + unspec
		return o, nil
	}
	if !noExclude {
		switch {
		case in.BigIndexAssign && pbt.KnownOpen(kInPlace):
			o.skipped, o.finding = "index assignment to a large container", kInPlace
		case in.BigAppends > 0 && pbt.KnownOpen(kSpareAppend):
			o.skipped, o.finding = "append to a large array", kSpareAppend
		case in.Ambiguous && pbt.KnownOpen(kParenText):
			o.skipped, o.finding = "two functions whose texts differ only in parentheses", kParenText
		}
		if o.skipped != "" {
			return o, nil
		}
	}
	s := sess.New(cfg)
	if r := s.Run(gen.TypedPrelude); r.Failed() {
		return o, fmt.Errorf("prelude failed: %v", r.Errs)
	}
	s.Out.Reset()
	obj, err := s.Obj(text)
	got := s.Out.String()
	if err != nil && sess.TimedOut(sess.Res{Errs: []string{err.Error()}}) {
		o.skipped = "deadline"
		return o, nil
	}
	if err != nil && !noExclude && pbt.KnownOpen(kParamRetype) && strings.Contains(err.Error(), "register assignment of non integer") &&
		(strings.Contains(in.Out.String(), ref.ErrMark) || strings.HasPrefix(in.Out.String(), got)) { // what was printed before it is still checked
		// the generator steers around it by the types it tracks, but what a name holds also depends on the order of
		// calls (a function re-typing a global): the message comes from one site only, which is the listed finding
		o.skipped, o.finding = "non-integer assigned to an integer parameter", kParamRetype
		return o, nil
	}
	o.failed = want.Failed
	o.printed = in.Out.Len() > 0
	o.nonNil = !want.Failed && want.Value.K != val.Nil
	if err != nil && strings.HasPrefix(err.Error(), "parse errors") {
		return o, fmt.Errorf("grol does not parse the program: %v\nprogram:\n%s", err, text)
	}
	if !matchWild(in.Out.String(), got) {
		return o, fmt.Errorf("printed text differs\nreference: %q\ngrol:      %q\n(grol error: %v; reference failed: %v)\nprogram:\n%s", in.Out.String(), got, err, want.Failed, text)
	}
	if want.Failed != (err != nil) {
		return o, fmt.Errorf("reference ends in error: %v (%q), grol: %v\nprogram:\n%s", want.Failed, strings.ReplaceAll(want.ErrMsg, ref.ErrMark, "<interpreter message>"), err, text)
	}
	if want.Failed {
		if !strings.Contains(want.ErrMsg, ref.ErrMark) && !strings.Contains(err.Error(), want.ErrMsg) {
			return o, fmt.Errorf("the error raised by error() should carry %q, grol: %v\nprogram:\n%s", want.ErrMsg, err, text)
		}
		return o, nil
	}
	if want.Value.K == val.Fn {
		if obj.Type() != object.FUNC {
			return o, fmt.Errorf("final value should be a function, grol: %s %s\nprogram:\n%s", obj.Type(), obj.Inspect(), text)
		}
		return o, nil
	}
	gotV, cerr := gv.FromObject(obj)
	if cerr != nil {
		return o, fmt.Errorf("final value: reference %s, grol: %v\nprogram:\n%s", want.Value.Show(), cerr, text)
	}
	if hasMark(want.Value) {
		if !matchWild(want.Value.Inspect(), gotV.Inspect()) {
			return o, fmt.Errorf("final value differs: reference %s, grol %s\nprogram:\n%s", want.Value.Show(), gotV.Show(), text)
		}
		return o, nil
	}
	if !val.Identical(want.Value, gotV) {
		return o, fmt.Errorf("final value differs: reference %s, grol %s\nprogram:\n%s", want.Value.Show(), gotV.Show(), text)
	}
	return o, nil
}

var explore = os.Getenv("VERIF_EXPLORE") != ""
var seen = map[string]bool{}

func report(t pbt.TB, kind string, c Case, err error) {
	if explore {
		msg := err.Error()
		key := msg
		if i := strings.Index(msg, "\nprogram:"); i >= 0 {
			key = msg[:i]
		}
		k2 := key
		if len(k2) > 50 {
			k2 = k2[:50]
		}
		if !seen[k2] {
			seen[k2] = true
			fmt.Printf("EXPLORE %s: %s\n", kind, msg)
		}
		return
	}
	c.Text = gen.Print(c.Prog, gen.PrintOptions{})
	pbt.Fail(t, kind, c, "%v", err)
}

func record(kind string, c Case, o outcome, extra ...string) {
	text := gen.Print(c.Prog, gen.PrintOptions{})
	if o.skipped != "" {
		if o.finding != "" {
			pbt.Excluded(o.finding)
		}
		pbt.Case(false, text, kind+":skipped:"+strings.SplitN(o.skipped, ":", 2)[0])
		return
	}
	in := o.in
	inter := in.Calls > 0 || in.LoopExits > 0 || in.OuterRead || in.OuterWrite || in.CaughtErrors > 0
	labels := []string{kind}
	labels = append(labels, extra...)
	if in.Calls > 0 {
		labels = append(labels, "has:call")
	}
	if in.CallDepthMax > 1 {
		labels = append(labels, "has:nested-or-recursive-call")
	}
	if in.SameFuncScoping {
		labels = append(labels, "has:recursion-scoping")
	}
	if in.LoopExits > 0 {
		labels = append(labels, "has:loop-exit")
	}
	if in.OuterRead {
		labels = append(labels, "has:outer-read")
	}
	if in.OuterWrite {
		labels = append(labels, "has:outer-write")
	}
	if in.CaughtErrors > 0 {
		labels = append(labels, "has:catch")
	}
	if in.BigContainer {
		labels = append(labels, "has:large-container")
	}
	if o.failed {
		labels = append(labels, "ends:error")
	} else {
		labels = append(labels, "ends:value")
	}
	pbt.Case((o.printed || o.nonNil) && (inter || len(extra) > 0), text, labels...)
}

func cfgFor(rt_ *rapid.T) gen.TCfg {
	return gen.TCfg{
		MaxDepth: 3, MaxStmts: 4, MaxBlockDepth: 3,
		MaxParams:    rapid.SampledFrom([]int{2, 3, 5}).Draw(rt_, "maxparams"),
		MaxLoopDepth: rapid.SampledFrom([]int{2, 3}).Draw(rt_, "maxloops"),
		Floats:       true, Containers: true, Errors: true, Closures: true, Recursion: true, PrintEvery: true,
		UpperNames: true, ShadowNames: true, BoundaryInts: true, Variadics: true, IncrDecr: true,
		FreshLoopVars:      pbt.KnownOpen("K-C05-1"),
		NoLoopVarCapture:   pbt.KnownOpen("K-C05-3"),
		PureParamAssign:    pbt.KnownOpen("K-C05-2"),
		NoUpperInRecursion: pbt.KnownOpen("K-C04-1"),
	}
}

func TestPrograms(t *testing.T) {
	pbt.Check(t, 4000, 400000, func(rt_ *rapid.T) {
		g := gen.NewTGen(rt_, cfgFor(rt_))
		c := Case{Prog: g.Program(3, 10)}
		o, err := check(c, false)
		if err != nil {
			report(rt_, "program", c, err)
		}
		record("program", c, o)
		pbt.Sample("program", gen.Print(c.Prog, gen.PrintOptions{}))
	})
}

func oracle(kind string, raw json.RawMessage) error {
	var c Case
	if err := json.Unmarshal(raw, &c); err != nil {
		return err
	}
	if c.Src != "" {
		return checkPlain(c)
	}
	_, err := check(c, kind == "regress-noexclude")
	return err
}

func TestReplay(t *testing.T)   { pbt.RunReplay(t, oracle) }
func TestARegress(t *testing.T) { pbt.RunRegress(t, "C01", oracle) }
