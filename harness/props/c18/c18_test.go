// C18 — auto-save is crash-atomic.
package c18

import (
	"bytes"
	"context"
	"encoding/json"
	"errors"
	"fmt"
	"os"
	"os/exec"
	"path/filepath"
	"regexp"
	"strings"
	"testing"

	"fortio.org/log"
	"grol.io/grol/eval"
	"grol.io/grol/extensions"
	"grol.io/grol/repl"
	"pgregory.net/rapid"
	"verif/child"
	"verif/pbt"
	"verif/val"
)

func TestMain(m *testing.M) {
	child.Dispatch(map[string]child.Handler{"c18-session": sessionMain, "c18-dump": dumpMain})
	pbt.Main(m, pbt.Meta{
		Property: "C18",
		Level:    "fault_enumeration",
		Rule: "pairs (previous state A, new state B) of global environments (0..60 bindings: integers, strings from 0 to several KB, arrays, maps, functions; B larger / smaller / equal-sized / much larger than A; A absent); " +
			"for each pair EVERY crash point of the auto-save of B is enumerated (before and after creating the temporary file, after each written binding, after the last write, after the rename: hooks under the " +
			"verif build tag kill the child process with SIGKILL there) and write failures are injected at byte positions 0, 1, around every line boundary and size-1 (RLIMIT_FSIZE in the child). Oracle, " +
			"read from the disk after the child is dead: ./.gr is byte-identical to the file of A (or absent when A was absent) or to the file of B, A before the rename point and B after it; a fresh " +
			"process auto-loads it without error and its globals equal A's or B's; after a write failure ./.gr is A's file. Non-trivial: crash strictly inside the write phase or between write and rename, " +
			"with A != B and both non-empty; every (pair, point) is distinct by construction. " +
			"Saves that fail half way by themselves: the session giving B also binds a global that is cheap to build but whose printed form (50 MB and more: arrays of arrays of arrays, maps on the way, " +
			"a map nested into itself, under a name sorting before / between / after the other bindings) does not fit the memory limit of the child (GOMEMLIMIT 48..96 MiB), so that printing it is refused in the " +
			"middle of SaveGlobals; whether the process then dies or goes on, ./.gr must be byte-identical to A's file or hold every binding of the new state (the oversized one possibly left out), a fresh " +
			"process must restore that state from it, and a later complete save must not be affected by what was left behind.",
		Assumptions: []string{
			"process death, not power loss: no fsync semantics are checked",
			"left-over .grol*.tmp files are allowed and recorded (the property does not forbid them)",
			"crash points are the ones the hooks expose (between the steps of repl.AutoSave and after each binding in SaveGlobals), plus byte-granular write failures",
		},
	})
}

// ---- child roles ---------------------------------------------------------------------------------------------------

type SessionArgs struct {
	Program  string `json:"program"`
	AutoLoad bool   `json:"autoload"`
	AutoSave bool   `json:"autosave"`
}

type SessionOut struct {
	Errs    []string `json:"errs"`
	Globals string   `json:"globals"` // the session's globals when it ended (saved form), whatever was written to disk
}

func initChild() {
	log.SetLogLevelQuiet(log.Critical)
	_ = extensions.Init(nil)
}

func sessionMain(raw json.RawMessage) int {
	var a SessionArgs
	if json.Unmarshal(raw, &a) != nil {
		return 90
	}
	initChild()
	o := repl.EvalStringOptions()
	o.AutoLoad, o.AutoSave = a.AutoLoad, a.AutoSave
	var st *eval.State
	o.PreInput = func(s *eval.State) { st = s }
	_, errs, _ := repl.EvalStringWithOption(context.Background(), o, a.Program)
	var final bytes.Buffer
	if st != nil {
		_, _ = st.SaveGlobals(&final)
	}
	b, _ := json.Marshal(SessionOut{Errs: errs, Globals: final.String()})
	_, _ = os.Stdout.Write(b)
	return 0
}

type DumpOut struct {
	LoadErr string `json:"load_err"`
	Globals string `json:"globals"`
}

func dumpMain(_ json.RawMessage) int {
	initChild()
	s := eval.NewState()
	var out DumpOut
	if err := repl.AutoLoad(s, repl.Options{AutoLoad: true}); err != nil {
		out.LoadErr = err.Error()
	}
	var buf bytes.Buffer
	_, _ = s.SaveGlobals(&buf)
	out.Globals = buf.String()
	b, _ := json.Marshal(out)
	_, _ = os.Stdout.Write(b)
	return 0
}

// ---- the case ---------------------------------------------------------------------------------------------------------

type Case struct {
	ProgA   string `json:"prog_a"`   // "" = no previous state file
	ProgB   string `json:"prog_b"`   // evaluated in a session that auto-loaded A
	CrashAt string `json:"crash_at"` // "<point>:<n>" or "" ; or
	Fsize   int64  `json:"fsize"`    // >= 0: write failure injected after this many bytes (with CrashAt == "")
	// The saves that fail half way by themselves (c18_failsave_test.go): ProgB binds the global Oversized to a value
	// whose printed form does not fit the memory budget MemLimit (GOMEMLIMIT of the child); ProgBRef is ProgB
	// without that one binding.
	MemLimit  string `json:"mem_limit,omitempty"`
	Oversized string `json:"oversized,omitempty"`
	ProgBRef  string `json:"prog_b_ref,omitempty"`
}

type refs struct {
	bytesA, bytesB []byte
	hasA           bool
	globA, globB   string
}

func spawnIn(dir, role string, args any, env []string, fsize int64) child.Result {
	return child.Spawn(role, args, child.Opts{Dir: dir, Env: env, RlimitFsize: fsize})
}

func readGr(dir string) ([]byte, bool) {
	b, err := os.ReadFile(filepath.Join(dir, ".gr"))
	return b, err == nil
}

func dump(dir string) (DumpOut, error) {
	r := spawnIn(dir, "c18-dump", struct{}{}, nil, -1)
	var d DumpOut
	if r.Err != nil || r.Exit != 0 {
		return d, fmt.Errorf("dump child: %s %v %s", r, r.Err, r.Stderr)
	}
	if err := json.Unmarshal(r.Stdout, &d); err != nil {
		return d, err
	}
	return d, nil
}

// prepare builds the directory holding state A and computes the reference files.
func prepare(c Case) (dirA string, rf refs, err error) {
	dirA, rf, err = prepareA(c)
	if err != nil {
		return dirA, rf, err
	}
	return dirA, rf, refB(&rf, c.ProgB)
}

// prepareA: the directory holding state A, the file and the globals of A.
func prepareA(c Case) (dirA string, rf refs, err error) {
	dirA, err = os.MkdirTemp("", "verif-c18-a-")
	if err != nil {
		return "", rf, err
	}
	if c.ProgA != "" {
		r := spawnIn(dirA, "c18-session", SessionArgs{Program: c.ProgA, AutoSave: true}, nil, -1)
		if r.Err != nil || r.Exit != 0 {
			return dirA, rf, fmt.Errorf("harness: session A: %s %s", r, r.Stderr)
		}
		rf.bytesA, rf.hasA = readGr(dirA)
		if !rf.hasA {
			return dirA, rf, fmt.Errorf("harness: state A was not saved")
		}
		d, err := dump(dirA)
		if err != nil || d.LoadErr != "" {
			return dirA, rf, fmt.Errorf("harness: state A does not load back: %v %s", err, d.LoadErr)
		}
		rf.globA = d.Globals
	}
	return dirA, rf, nil
}

// refB: the file and the globals of the state a session auto-loading A and evaluating progB ends with (no fault).
func refB(rf *refs, progB string) error {
	dirB, err := os.MkdirTemp("", "verif-c18-b-")
	if err != nil {
		return err
	}
	defer os.RemoveAll(dirB)
	if rf.hasA {
		_ = os.WriteFile(filepath.Join(dirB, ".gr"), rf.bytesA, 0o644)
	}
	r := spawnIn(dirB, "c18-session", SessionArgs{Program: progB, AutoLoad: true, AutoSave: true}, nil, -1)
	if r.Err != nil || r.Exit != 0 {
		return fmt.Errorf("harness: session B: %s %s", r, r.Stderr)
	}
	rf.bytesB, _ = readGr(dirB)
	d, err := dump(dirB)
	if err != nil || d.LoadErr != "" {
		return fmt.Errorf("harness: state B does not load back: %v %s", err, d.LoadErr)
	}
	rf.globB = d.Globals
	// without any fault: what the next session restores is what this session ended with
	var so SessionOut
	if json.Unmarshal(r.Stdout, &so) == nil && so.Globals != "" && so.Globals != d.Globals {
		return fmt.Errorf("the session ended normally with these globals:\n%s\nbut the next session restores:\n%s\n(program: %s)", trunc([]byte(so.Globals)), trunc([]byte(d.Globals)), progB)
	}
	return nil
}

func leftovers(dir string) int {
	m, _ := filepath.Glob(filepath.Join(dir, ".grol*.tmp"))
	return len(m)
}

// runFault runs the save of B from state A with one fault and judges what is on the disk afterwards.
func runFault(dirA string, rf refs, c Case) (killed bool, err error) {
	dir, err := os.MkdirTemp("", "verif-c18-run-")
	if err != nil {
		return false, fmt.Errorf("harness: %v", err)
	}
	defer os.RemoveAll(dir)
	if rf.hasA {
		_ = os.WriteFile(filepath.Join(dir, ".gr"), rf.bytesA, 0o644)
	}
	var env []string
	fs := int64(-1)
	if c.CrashAt != "" {
		env = []string{"VERIF_CRASH_AT=" + c.CrashAt}
	} else if c.Fsize >= 0 {
		fs = c.Fsize
	}
	r := spawnIn(dir, "c18-session", SessionArgs{Program: c.ProgB, AutoLoad: true, AutoSave: true}, env, fs)
	if r.Err != nil || r.TimedOut {
		return false, fmt.Errorf("harness: child %s %v", r, r.Err)
	}
	killed = r.Signal != ""
	got, has := readGr(dir)
	isA := has == rf.hasA && bytes.Equal(got, rf.bytesA)
	isB := has && bytes.Equal(got, rf.bytesB)
	what := fmt.Sprintf("crash at %s", c.CrashAt)
	if c.CrashAt == "" {
		what = fmt.Sprintf("write failure after %d bytes", c.Fsize)
	}
	if !isA && !isB {
		return killed, fmt.Errorf("%s: ./.gr is neither the previous file (%d bytes, present=%v) nor the new one (%d bytes): it has %d bytes, present=%v:\n%q",
			what, len(rf.bytesA), rf.hasA, len(rf.bytesB), len(got), has, trunc(got))
	}
	if c.CrashAt != "" && killed {
		afterRename := strings.HasPrefix(c.CrashAt, "autosave.renamed")
		if afterRename && !isB {
			return killed, fmt.Errorf("%s: the rename happened but ./.gr is still the previous file", what)
		}
		if !afterRename && !isA && !bytes.Equal(rf.bytesA, rf.bytesB) {
			return killed, fmt.Errorf("%s: the process died before the rename but ./.gr already changed", what)
		}
	}
	if c.CrashAt == "" && c.Fsize >= 0 && c.Fsize < int64(len(rf.bytesB)) && !isA {
		return killed, fmt.Errorf("%s (the new file needs %d bytes): the previous ./.gr was replaced", what, len(rf.bytesB))
	}
	pbt.LabelN("leftover-tmp-files", int64(leftovers(dir)))

	// what the next session restores
	if has {
		d, derr := dump(dir)
		if derr != nil {
			return killed, fmt.Errorf("harness: %v", derr)
		}
		if d.LoadErr != "" {
			return killed, fmt.Errorf("%s: the next session fails to auto-load ./.gr: %s", what, d.LoadErr)
		}
		if d.Globals != rf.globA && d.Globals != rf.globB {
			return killed, fmt.Errorf("%s: the next session restores neither the previous nor the new state:\n%s", what, trunc([]byte(d.Globals)))
		}
	}
	if leftovers(dir) > 0 {
		// What an interrupted save left behind must not leak into a later, complete save: the same follow-up
		// session gives the same ./.gr here as in a directory holding nothing but the same ./.gr.
		if ferr := followUp(dir, got, has, what); ferr != nil {
			return killed, ferr
		}
	}
	return killed, nil
}

const followUpProgram = "zzfollow = 1"

func followUp(dir string, gr []byte, has bool, what string) error {
	clean, err := os.MkdirTemp("", "verif-c18-clean-")
	if err != nil {
		return fmt.Errorf("harness: %v", err)
	}
	defer os.RemoveAll(clean)
	if has {
		_ = os.WriteFile(filepath.Join(clean, ".gr"), gr, 0o644)
	}
	for _, d := range []string{dir, clean} {
		r := spawnIn(d, "c18-session", SessionArgs{Program: followUpProgram, AutoLoad: true, AutoSave: true}, nil, -1)
		if r.Err != nil || r.Exit != 0 {
			return fmt.Errorf("harness: follow-up session: %s %s", r, r.Stderr)
		}
	}
	a, hasA := readGr(dir)
	b, hasB := readGr(clean)
	pbt.Label("follow-up-save-after-leftover")
	if hasA != hasB || !bytes.Equal(a, b) {
		return fmt.Errorf("%s, then a later complete save in the same directory: ./.gr has %d bytes, in a clean directory the same session writes %d bytes:\n%q\nclean:\n%q", what, len(a), len(b), trunc(a), trunc(b))
	}
	return nil
}

func trunc(b []byte) []byte {
	if len(b) > 500 {
		return append(append([]byte{}, b[:500]...), "..."...)
	}
	return b
}

func points(rf refs) []string {
	n := bytes.Count(rf.bytesB, []byte("\n"))
	ps := []string{"autosave.begin:0", "autosave.tmp-created:0"}
	for k := 1; k <= n; k++ {
		ps = append(ps, fmt.Sprintf("saveglobals.binding:%d", k))
	}
	return append(ps, "autosave.written:0", "autosave.renamed:0")
}

func fsizes(rf refs) []int64 {
	set := map[int64]bool{0: true, 1: true}
	off := int64(0)
	for _, line := range bytes.SplitAfter(rf.bytesB, []byte("\n")) {
		off += int64(len(line))
		for _, k := range []int64{off - 1, off, off + 1} {
			if k >= 0 && k < int64(len(rf.bytesB)) {
				set[k] = true
			}
		}
	}
	if n := int64(len(rf.bytesB)); n > 0 {
		set[n-1] = true
	}
	var out []int64
	for k := range set {
		out = append(out, k)
	}
	return out
}

// check (for replay): one fault of one pair.
func check(c Case) error {
	dirA, rf, err := prepare(c)
	if dirA != "" {
		defer os.RemoveAll(dirA)
	}
	if err != nil {
		return err
	}
	_, err = runFault(dirA, rf, c)
	return err
}

// ---- generation of state pairs --------------------------------------------------------------------------------------------

func genBinding(t *rapid.T, i int) string {
	name := fmt.Sprintf("v%02d", i)
	switch rapid.IntRange(0, 7).Draw(t, "kind") {
	case 0:
		return fmt.Sprintf("%s = %d", name, rapid.Int64().Draw(t, "int"))
	case 1:
		n := rapid.SampledFrom([]int{0, 1, 10, 200, 3000, 9000}).Draw(t, "slen")
		return fmt.Sprintf("%s = %s", name, val.StrSrc(strings.Repeat(rapid.SampledFrom([]string{"a", "xy", "é", "\n", "\""}).Draw(t, "unit"), n)))
	case 2:
		return fmt.Sprintf("%s = [1, 2, %d] * %d", name, i, rapid.IntRange(0, 50).Draw(t, "rep"))
	case 3:
		return fmt.Sprintf("%s = {\"k\": %d, \"s\": \"%d\", \"a\": [%d]}", name, i, i, i)
	case 4:
		return fmt.Sprintf("func f%02d(a, b) { if a > b { return a } ; b + %d }", i, i)
	case 5:
		return fmt.Sprintf("%s = (x) => x * %d", name, i+1)
	case 6:
		return fmt.Sprintf("%s = %g", name, rapid.Float64Range(-1e6, 1e6).Draw(t, "float"))
	default:
		return fmt.Sprintf("%s = true", name)
	}
}

func genPair(t *rapid.T) (string, string) {
	na := rapid.SampledFrom([]int{0, 1, 3, 10, 30, 60}).Draw(t, "na")
	var a []string
	for i := 0; i < na; i++ {
		a = append(a, genBinding(t, i))
	}
	progA := strings.Join(a, "\n")
	if na > 0 && rapid.IntRange(0, 5).Draw(t, "noA") == 0 {
		progA = "" // no previous file at all
		na = 0
	}
	var b []string
	switch rapid.IntRange(0, 5).Draw(t, "shape") {
	case 5: // nothing but updates of elements of containers that exist already (large and small ones)
		if progA == "" {
			progA = "keepa = 1"
		}
		progA += "\nbigm = {\"a\": 1, \"b\": 2, \"c\": 3, \"d\": 4, \"e\": 5, \"f\": 6}\nbiga = 0:12\nsmallm = {\"k\": 1}\nsmalla = [1, 2, 3]"
		for i := rapid.IntRange(1, 3).Draw(t, "nupdates"); i > 0; i-- {
			b = append(b, rapid.SampledFrom([]string{"bigm.a = 100", "bigm[\"zz\"] = 42", "biga[3] = 99", "smallm.k = 2", "smalla[0] = 7", "bigm.b = [1]", "del(bigm.c)", "biga[-1] = \"s\""}).Draw(t, "update"))
		}
	case 0: // grow
		for i := na; i < na+rapid.IntRange(1, 30).Draw(t, "grow"); i++ {
			b = append(b, genBinding(t, i))
		}
	case 1: // shrink
		for i := 0; i < na; i += 2 {
			b = append(b, fmt.Sprintf("del(v%02d); del(f%02d)", i, i))
		}
		b = append(b, "keep = 1")
	case 2: // same size, other content
		for i := 0; i < na; i++ {
			b = append(b, fmt.Sprintf("v%02d = %d", i, i*7))
		}
		b = append(b, "touched = true")
	case 3: // one huge value
		b = append(b, "huge = \"0123456789\" * 3000")
	default: // mixed
		for i := 0; i < na+5; i += 3 {
			b = append(b, genBinding(t, i))
		}
		b = append(b, "del(v01)")
	}
	return progA, strings.Join(b, "\n")
}

// ---- system call level: what a save does to ./.gr --------------------------------------------------------------------
//
// The crash points the hooks expose sit before and after the rename; a window between two file system operations
// (unlink then rename, truncate then write) has none. Tracing the save shows such windows directly: apart from being
// read by the auto-load, ./.gr may only ever be the target of one rename. The same with the rename made to fail
// (strace's fault injection): a save that cannot rename must leave ./.gr alone.

var errNoTrace = errors.New("no system call trace")

var touchesGr = regexp.MustCompile(`^[0-9]+ +([a-z0-9_]+)\((.*)$`)

func tracedSave(dirA string, rf refs, c Case, failRename bool) error {
	dir, err := os.MkdirTemp("", "verif-c18-trace-")
	if err != nil {
		return fmt.Errorf("harness: %v", err)
	}
	defer os.RemoveAll(dir)
	if rf.hasA {
		_ = os.WriteFile(filepath.Join(dir, ".gr"), rf.bytesA, 0o644)
	}
	trace := filepath.Join(dir, "zz-trace.txt")
	prefix := []string{"strace", "-f", "-qq", "-o", trace, "-e", "trace=open,openat,creat,unlink,unlinkat,rename,renameat,renameat2,truncate,ftruncate,link,linkat,symlink,symlinkat"}
	if failRename {
		prefix = append(prefix, "-e", "inject=rename,renameat,renameat2:error=EBUSY")
	}
	r := child.Spawn("c18-session", SessionArgs{Program: c.ProgB, AutoLoad: true, AutoSave: true}, child.Opts{Dir: dir, RlimitFsize: -1, Prefix: prefix})
	if r.Err != nil || r.TimedOut {
		return fmt.Errorf("harness: traced child %s %v", r, r.Err)
	}
	tb, err := os.ReadFile(trace)
	if err != nil || len(tb) == 0 || r.Exit != 0 {
		// tracing is not possible here (ptrace not permitted, ...): nothing can be said, which is not a violation
		return errNoTrace
	}
	what := "a save"
	if failRename {
		what = "a save whose rename fails (EBUSY)"
	}
	renames := 0
	for _, line := range strings.Split(string(tb), "\n") {
		m := touchesGr.FindStringSubmatch(line)
		if m == nil || !(strings.Contains(m[2], "\".gr\"") || strings.Contains(m[2], "/.gr\"")) {
			continue
		}
		call, rest := m[1], m[2]
		switch {
		case strings.HasPrefix(call, "rename"):
			if !strings.Contains(rest[strings.Index(rest, ",")+1:], ".gr\"") {
				return fmt.Errorf("%s renames ./.gr away: %s", what, line)
			}
			renames++
		case call == "open" || call == "openat":
			if strings.Contains(rest, "O_WRONLY") || strings.Contains(rest, "O_RDWR") || strings.Contains(rest, "O_TRUNC") || strings.Contains(rest, "O_CREAT") {
				return fmt.Errorf("%s opens ./.gr for writing (it may only be replaced by a rename): %s", what, line)
			}
		default:
			return fmt.Errorf("%s does %s on ./.gr (it may only be replaced by a rename): %s", what, call, line)
		}
	}
	got, has := readGr(dir)
	if failRename {
		if has != rf.hasA || !bytes.Equal(got, rf.bytesA) {
			return fmt.Errorf("%s changed ./.gr: %d bytes, it had %d (present=%v/%v)", what, len(got), len(rf.bytesA), has, rf.hasA)
		}
		return nil
	}
	if renames > 1 {
		return fmt.Errorf("%s renames onto ./.gr %d times", what, renames)
	}
	if renames == 1 && !(has && bytes.Equal(got, rf.bytesB)) {
		return fmt.Errorf("%s: ./.gr is not the new state after the rename", what)
	}
	return nil
}

func TestTracedSaves(t *testing.T) {
	if _, err := exec.LookPath("strace"); err != nil {
		t.Skip("strace not available")
	}
	pbt.Check(t, 24, 240, func(rt *rapid.T) {
		progA, progB := genPair(rt)
		c := Case{ProgA: progA, ProgB: progB, Fsize: -1}
		dirA, rf, err := prepare(c)
		if dirA != "" {
			defer os.RemoveAll(dirA)
		}
		if err != nil {
			pbt.Fail(rt, "traced", c, "%v", err)
		}
		for _, failRename := range []bool{false, true} {
			err := tracedSave(dirA, rf, c, failRename)
			if errors.Is(err, errNoTrace) {
				pbt.Label("traced-save:tracing-not-possible")
				return
			}
			if err != nil {
				pbt.Fail(rt, "traced", c, "%v\nstate A:\n%s\nmutation giving B:\n%s", err, trunc([]byte(progA)), trunc([]byte(progB)))
			}
		}
		pbt.Case(rf.hasA, progA+"|"+progB, "traced-save", "traced-save-with-failing-rename")
	})
}

func TestCrashPoints(t *testing.T) {
	pbt.Check(t, 32, 320, func(rt *rapid.T) {
		progA, progB := genPair(rt)
		c := Case{ProgA: progA, ProgB: progB, Fsize: -1}
		dirA, rf, err := prepare(c)
		if dirA != "" {
			defer os.RemoveAll(dirA)
		}
		if err != nil {
			pbt.Fail(rt, "pair", c, "%v", err)
		}
		different := !bytes.Equal(rf.bytesA, rf.bytesB) && rf.hasA && len(rf.bytesB) > 0
		for _, p := range points(rf) {
			cc := c
			cc.CrashAt = p
			killed, err := runFault(dirA, rf, cc)
			if err != nil {
				pbt.Fail(rt, "crash", cc, "%v\nstate A:\n%s\nmutation giving B:\n%s", err, trunc([]byte(progA)), trunc([]byte(progB)))
			}
			inside := strings.HasPrefix(p, "saveglobals.binding") || strings.HasPrefix(p, "autosave.written")
			lbl := "crash:" + strings.Split(p, ":")[0]
			if !killed {
				lbl = "crash-point-not-reached"
			}
			pbt.CaseExact(killed && inside && different, lbl)
		}
		for _, k := range fsizes(rf) {
			cc := c
			cc.Fsize = k
			if _, err := runFault(dirA, rf, cc); err != nil {
				pbt.Fail(rt, "write-failure", cc, "%v\nstate A:\n%s\nmutation giving B:\n%s", err, trunc([]byte(progA)), trunc([]byte(progB)))
			}
			pbt.CaseExact(different, "write-failure")
		}
		pbt.Sample("pair", map[string]any{"A": string(trunc([]byte(progA))), "B": string(trunc([]byte(progB))), "points": len(points(rf)), "write_failures": len(fsizes(rf))})
	})
}

func oracle(kind string, raw json.RawMessage) error {
	var c Case
	if err := json.Unmarshal(raw, &c); err != nil {
		return err
	}
	if kind == "pair" {
		c.Fsize = -1
	}
	if c.MemLimit != "" {
		_, err := failingSave(c)
		return err
	}
	return check(c)
}

func TestReplay(t *testing.T)   { pbt.RunReplay(t, oracle) }
func TestARegress(t *testing.T) { pbt.RunRegress(t, "C18", oracle) }
