// C18 — saves that fail half way by themselves.
//
// The crash points kill the process and the file size limit makes a write fail; a third way for a save to stop in
// the middle needs no fault from outside: a global whose printed form does not fit the memory budget. The value
// itself is small (a container referenced from many places), printing it is refused by the allocation guard while
// the text grows, and that happens inside SaveGlobals after the bindings sorted before it went to the temporary file.
// The guard measures against the Go memory limit, so the child gets one (GOMEMLIMIT in its environment).
// Whatever the process does then (dies of the panic, reports an error, goes on), ./.gr must be the complete previous
// file or a complete new one.
package c18

import (
	"bytes"
	"fmt"
	"os"
	"path/filepath"
	"strings"
	"testing"

	"pgregory.net/rapid"
	"verif/child"
	"verif/pbt"
)

// dropBinding removes the saved line(s) of one global from a saved form.
func dropBinding(saved []byte, name string) []byte {
	var out []byte
	for _, line := range bytes.SplitAfter(saved, []byte("\n")) {
		if bytes.HasPrefix(line, []byte(name+"=")) {
			continue
		}
		out = append(out, line...)
	}
	return out
}

func firstLine(b []byte) string {
	s := strings.TrimSpace(string(b))
	if i := strings.IndexByte(s, '\n'); i >= 0 {
		s = s[:i]
	}
	if len(s) > 200 {
		s = s[:200] + "..."
	}
	return s
}

// lastName is the name of the last binding of a saved form ("" when empty).
func lastName(saved []byte) string {
	lines := bytes.Split(bytes.TrimRight(saved, "\n"), []byte("\n"))
	l := lines[len(lines)-1]
	if i := bytes.IndexAny(l, "=("); i >= 0 {
		l = l[:i]
	}
	if len(l) > 60 {
		l = l[:60]
	}
	return string(l)
}

type failOutcome struct {
	died       bool // the process did not end with status 0
	keptA      bool // ./.gr is the previous file
	partialTmp bool // a non-empty temporary file was left: the save stopped after it had written something
}

// failingSave runs, from state A, the session c.ProgB whose auto-save cannot complete within c.MemLimit and judges
// what is on the disk afterwards.
func failingSave(c Case) (out failOutcome, err error) {
	dirA, rf, err := prepareA(c)
	if dirA != "" {
		defer os.RemoveAll(dirA)
	}
	if err != nil {
		return out, err
	}
	dir, err := os.MkdirTemp("", "verif-c18-mem-")
	if err != nil {
		return out, fmt.Errorf("harness: %v", err)
	}
	defer os.RemoveAll(dir)
	if rf.hasA {
		_ = os.WriteFile(filepath.Join(dir, ".gr"), rf.bytesA, 0o644)
	}
	r := child.Spawn("c18-session", SessionArgs{Program: c.ProgB, AutoLoad: true, AutoSave: true},
		child.Opts{Dir: dir, Env: []string{"GOMEMLIMIT=" + c.MemLimit}, RlimitFsize: -1})
	if r.Err != nil || r.TimedOut {
		return out, fmt.Errorf("harness: child %s %v", r, r.Err)
	}
	out.died = r.Exit != 0 || r.Signal != ""
	tmps, _ := filepath.Glob(filepath.Join(dir, ".grol*.tmp"))
	for _, f := range tmps {
		if fi, serr := os.Stat(f); serr == nil && fi.Size() > 0 {
			out.partialTmp = true
		}
	}
	what := fmt.Sprintf("a save that fails half way (the printed form of the global %s does not fit GOMEMLIMIT=%s; the process ended with %s %q)",
		c.Oversized, c.MemLimit, r, firstLine(r.Stderr))
	got, has := readGr(dir)
	out.keptA = has == rf.hasA && bytes.Equal(got, rf.bytesA)
	if !out.keptA {
		// Then it has to be a complete new file: every binding of the new state, the oversized one possibly left out.
		if err := refB(&rf, c.ProgBRef); err != nil {
			return out, err
		}
		if !has || !bytes.Equal(dropBinding(got, c.Oversized), dropBinding(rf.bytesB, c.Oversized)) {
			return out, fmt.Errorf("%s: ./.gr is neither the previous file (%d bytes, %d lines, present=%v) nor a complete new one (%d bytes, %d lines without %s, last binding %q): "+
				"it has %d bytes, %d lines, present=%v, last binding %q:\n%q",
				what, len(rf.bytesA), bytes.Count(rf.bytesA, []byte("\n")), rf.hasA,
				len(rf.bytesB), bytes.Count(rf.bytesB, []byte("\n")), c.Oversized, lastName(rf.bytesB),
				len(got), bytes.Count(got, []byte("\n")), has, lastName(got), trunc(got))
		}
	}
	pbt.LabelN("leftover-tmp-files", int64(len(tmps)))

	// what the next session restores
	if has {
		d, derr := dump(dir)
		if derr != nil {
			return out, fmt.Errorf("harness: %v", derr)
		}
		if d.LoadErr != "" {
			return out, fmt.Errorf("%s: the next session fails to auto-load ./.gr: %s", what, d.LoadErr)
		}
		okA := out.keptA && d.Globals == rf.globA
		okB := !out.keptA && bytes.Equal(dropBinding([]byte(d.Globals), c.Oversized), dropBinding([]byte(rf.globB), c.Oversized))
		if !okA && !okB {
			return out, fmt.Errorf("%s: the next session restores neither the previous nor the new state:\n%s", what, trunc([]byte(d.Globals)))
		}
	}
	if len(tmps) > 0 {
		if ferr := followUp(dir, got, has, what); ferr != nil {
			return out, ferr
		}
	}
	return out, nil
}

// ---- generation -----------------------------------------------------------------------------------------------------------

// genOversized: statements binding the global `name` to a value that is cheap to build (a few thousand references)
// and whose printed form has at least 50 MB - several times what the guard lets a text grow to under the limits
// used here (about a quarter of the limit at most). Helper globals, when there are any, print in well under 1 MB.
func genOversized(t *rapid.T) (name, def string) {
	name = rapid.SampledFrom([]string{"Abig", "a0big", "ebig", "g7", "kilo", "u9", "v0big", "v2big", "v4big", "wide", "zzbig"}).Draw(t, "oversized-name")
	elem := rapid.SampledFrom([]string{"0", "-7", "true", "1.5", "\"ab\""}).Draw(t, "elem")
	dim := func(lo, hi int, label string) int { return rapid.IntRange(lo, hi).Draw(t, label) }
	switch rapid.IntRange(0, 4).Draw(t, "oversized-shape") {
	case 0: // three levels of arrays, in one expression
		return name, fmt.Sprintf("%s = [[[%s] * %d] * %d] * %d", name, elem, dim(300, 600, "n1"), dim(300, 600, "n2"), dim(300, 1000, "n3"))
	case 1: // the same through helper globals, which sort before or after it
		h := rapid.SampledFrom([]string{"b4", "x"}).Draw(t, "helper-prefix") + name
		return name, fmt.Sprintf("%s1 = [%s] * %d\n%s2 = [%s1] * %d\n%s = [%s2] * %d", h, elem, dim(100, 300, "n1"), h, h, dim(300, 600, "n2"), name, h, dim(1000, 3000, "n3"))
	case 2: // maps on the way
		return name, fmt.Sprintf("%sm = {\"k\": [%s] * %d, \"j\": 1}\n%s = {\"x\": [[%sm] * %d] * %d, \"y\": 2}", name, elem, dim(300, 600, "n1"), name, name, dim(300, 600, "n2"), dim(300, 1000, "n3"))
	case 3: // four levels
		return name, fmt.Sprintf("%s = [[[[%s] * %d] * %d] * %d] * %d", name, elem, dim(80, 150, "n1"), dim(80, 150, "n2"), dim(80, 150, "n3"), dim(80, 150, "n4"))
	default: // a small map nested into itself: two references per level
		var b strings.Builder
		fmt.Fprintf(&b, "%s = {\"a\": %s, \"b\": 2}", name, elem)
		for i := dim(24, 30, "levels"); i > 0; i-- {
			fmt.Fprintf(&b, "\n%s = {\"a\": %s, \"b\": %s}", name, name, name)
		}
		return name, b.String()
	}
}

// withoutBinding: def without the statements binding name (they are whole lines of def starting with "name =").
func withoutBinding(def, name string) string {
	var keep []string
	for _, l := range strings.Split(def, "\n") {
		if !strings.HasPrefix(l, name+" = ") {
			keep = append(keep, l)
		}
	}
	return strings.Join(keep, "\n")
}

func join(parts ...string) string {
	var ne []string
	for _, p := range parts {
		if p != "" {
			ne = append(ne, p)
		}
	}
	return strings.Join(ne, "\n")
}

func genFailingSave(t *rapid.T) Case {
	progA, progB := genPair(t)
	name, def := genOversized(t)
	// some bindings that certainly sort before and after it, so that the save stops in the middle
	around := ""
	if rapid.IntRange(0, 3).Draw(t, "around") > 0 {
		around = fmt.Sprintf("A0first = %d\nzzzlast = [%d, \"z\"]", rapid.IntRange(0, 999).Draw(t, "first"), rapid.IntRange(0, 999).Draw(t, "last"))
	}
	c := Case{ProgA: progA, Fsize: -1, Oversized: name,
		MemLimit: rapid.SampledFrom([]string{"48MiB", "64MiB", "96MiB"}).Draw(t, "memlimit")}
	ref := withoutBinding(def, name)
	// The session must not end with the oversized value: the result of the last statement is printed, the refusal
	// of that counts as a failed evaluation and no save is attempted after one.
	tail := around
	if tail == "" {
		tail = "0"
	}
	switch rapid.IntRange(0, 2).Draw(t, "where") {
	case 0:
		c.ProgB, c.ProgBRef = join(def, progB, around), join(ref, progB, around)
	case 1:
		c.ProgB, c.ProgBRef = join(progB, def, tail), join(progB, ref, tail)
	default:
		c.ProgB, c.ProgBRef = join(around, def, progB), join(around, ref, progB)
	}
	return c
}

func TestFailingSaves(t *testing.T) {
	pbt.Check(t, 6, 80, func(rt *rapid.T) {
		c := genFailingSave(rt)
		out, err := failingSave(c)
		if err != nil {
			pbt.Fail(rt, "failing-save", c, "%v\nstate A:\n%s\nmutation giving B:\n%s", err, trunc([]byte(c.ProgA)), trunc([]byte(c.ProgB)))
		}
		lbl := "failing-save:process-went-on"
		if out.died {
			lbl = "failing-save:process-died"
		}
		kept := "failing-save:new-file-complete"
		if out.keptA {
			kept = "failing-save:previous-file-kept"
		}
		// non-trivial: there was a previous file to damage and the save stopped after it had written something
		if !out.partialTmp {
			pbt.Label("failing-save:no-partial-temporary-file-left")
		}
		pbt.Case(c.ProgA != "" && out.partialTmp, c.ProgA+"|"+c.ProgB+"|"+c.MemLimit, lbl, kept)
		pbt.Sample("failing-save", map[string]any{"A": string(trunc([]byte(c.ProgA))), "B": string(trunc([]byte(c.ProgB))), "memlimit": c.MemLimit, "oversized": c.Oversized})
	})
}
