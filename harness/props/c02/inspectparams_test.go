package c02

import (
	"testing"

	"pgregory.net/rapid"
	"verif/gen"
	"verif/pbt"
)

// ---- Function.Inspect: parameter lists ---------------------------------------------------------------------
//
// Whether the text of a function value reads back as the same function also depends on how its parameter list is
// written: a lambda with exactly one parameter drops the parentheses (x=>.., and ..=>.. when that parameter is the
// variadic marker), every other list keeps them, a named function always does.

// paramList draws n distinct names, followed by the variadic marker when variadic.
func paramList(names []string, n int, variadic bool) []string {
	ps := append([]string(nil), names[:n]...)
	if variadic {
		ps = append(ps, "..")
	}
	return ps
}

// functionForm builds the literal in one of the four written forms (the last three are the same value: a lambda).
func functionForm(form int, params []string, variadic bool, body []*gen.Node) *gen.Node {
	switch form {
	case 0:
		return gen.Func("fn", params, variadic, body...)
	case 1:
		return gen.Func("", params, variadic, body...)
	case 2:
		return gen.LambdaBlock(params, variadic, body...)
	}
	return gen.Lambda(params, variadic, body[0])
}

// Enumerated: 0..3 named parameters x with/without a trailing '..' x the four forms x a few bodies (using the
// parameters, the variadic marker, nothing).
func TestInspectParameterLists(t *testing.T) {
	names := []string{"a", "b", "c"}
	idx := 0
	var total int64
	for n := 0; n <= len(names); n++ {
		for _, variadic := range []bool{false, true} {
			params := paramList(names, n, variadic)
			bodies := [][]*gen.Node{
				{gen.IntLit("1")},
				{gen.Builtin("len", gen.Id("x"))},
				{gen.Infix("+", gen.Id("x"), gen.IntLit("1")), gen.Id("x")}, // two statements: not for the => expr form
				{gen.Array(gen.Id("x"), gen.Str("s"))},
			}
			if variadic {
				bodies = append(bodies,
					[]*gen.Node{gen.Builtin("len", gen.Id(".."))},
					[]*gen.Node{gen.Index(gen.Id(".."), gen.IntLit("0"))},
					[]*gen.Node{gen.Call(gen.Id("f"), gen.Id(".."))})
			}
			if n > 0 {
				bodies = append(bodies, []*gen.Node{gen.Infix("*", gen.Id(params[0]), gen.Id(params[n-1]))})
			}
			for _, body := range bodies {
				for form := 0; form < 4; form++ {
					idx++
					if !pbt.Mine(idx) || (form == 3 && len(body) != 1) {
						continue
					}
					ic := inspectOf(functionForm(form, params, variadic, body))
					if err := checkInspect(ic); err != nil {
						pbt.Fail(t, "inspect", ic, "%d named parameters, variadic %v, form %d: %v", n, variadic, form, err)
					}
					total++
					pbt.SampleEvery("inspect-params", idx, func() any { return ic.Text })
				}
			}
		}
	}
	pbt.AddExact(total, total, "inspect:parameter-lists")
}

// Generated: random parameter names and counts, with and without the variadic marker, around random bodies.
func TestInspectParameters(t *testing.T) {
	pool := []string{"a", "b", "x", "n", "N", "foo", "_", "k1", "AB", "self"}
	pbt.Check(t, 800, 60000, func(rt_ *rapid.T) {
		cfg := gen.SynCfg{MaxDepth: rapid.IntRange(1, 2).Draw(rt_, "depth"), MaxStmts: 2, Comments: rapid.Bool().Draw(rt_, "comments"), NoQuote: true}
		n := rapid.IntRange(0, 4).Draw(rt_, "nparams")
		off := rapid.IntRange(0, len(pool)-1).Draw(rt_, "first")
		var params []string
		for i := 0; i < n; i++ {
			params = append(params, pool[(off+i)%len(pool)]) // distinct names
		}
		variadic := rapid.Bool().Draw(rt_, "variadic")
		if variadic {
			params = append(params, "..")
		}
		form := rapid.IntRange(0, 3).Draw(rt_, "form")
		var body []*gen.Node
		if form == 3 {
			body = []*gen.Node{gen.SynExpr(rt_, cfg, cfg.MaxDepth)}
		} else {
			body = gen.SynBlock(rt_, cfg, cfg.MaxDepth)
			if variadic && rapid.Bool().Draw(rt_, "usevariadic") {
				body = append([]*gen.Node{gen.Builtin("len", gen.Id(".."))}, body...) // in front: a bare return may only come last
			}
			if len(body) == 0 {
				body = []*gen.Node{gen.Id("a")}
			}
		}
		fn := functionForm(form, params, variadic, body)
		if ex := excludedTree([]*gen.Node{fn}); ex != "" {
			pbt.Excluded(ex)
			fn = repair([]*gen.Node{fn})[0]
		}
		ic := inspectOf(fn)
		if err := checkInspect(ic); err != nil {
			pbt.Fail(rt_, "inspect", ic, "%v", err)
		}
		lbl := "inspect:params"
		if variadic {
			lbl = "inspect:params-variadic"
		}
		pbt.Case(n != 1 || variadic, ic.Text, lbl)
		pbt.Sample("inspect-params", ic.Text)
	})
}
