// C02 — formatting preserves the program: print then parse gives the same tree (normal and compact).
package c02

import (
	"encoding/json"
	"fmt"
	"os"
	"path/filepath"
	"sort"
	"strings"
	"testing"

	"grol.io/grol/object"
	"pgregory.net/rapid"
	"verif/dump"
	"verif/front"
	"verif/gen"
	"verif/pbt"
	"verif/rt"
	"verif/sess"
)

func TestMain(m *testing.M) {
	sess.Init()
	pbt.Main(m, pbt.Meta{
		Property: "C02",
		Level:    "exploration",
		Rule: "source texts printed from trees the harness owns (own printer, own precedence table, random layout and redundant parentheses) plus mutated/fuzzed accepted texts; " +
			"oracle: the parser accepts the text and builds exactly the intended tree (canonical dump), and for normal and compact mode format(parse(t)) is accepted again and " +
			"parses to the same dump (comments dropped for compact); also parse(Function.Inspect()) == the function literal's tree. Enumerated completely: every (operand position x operand construct) " +
			"pair of the grammar (62 contexts x 56 child templates) and every ordered pair of 36 statement shapes at top level and inside a block. Plus rapid-generated programs of depth <= 4 with comments. " +
			"Trees whose only listed class is K-C02-2 (a statement starting with a unary sign after another statement, a normal-mode finding) are checked in compact mode only, and through Function.Inspect: " +
			"generated blocks where such a statement follows a statement ending with a closing brace (if/else, for, func, lambda, macro, map literals, bound or returned), any other statement, or comments, at every nesting level, " +
			"plus every statement shape followed by every sign-leading one (directly, after a line comment, after a block comment; top level, function block, else block). " +
			"Function.Inspect is also checked over parameter lists: 0..4 named parameters with and without the trailing variadic marker '..' in the four written forms (func name, func, => block, => expression), enumerated and generated. " +
			"Non-trivial: accepted program with a nested operator pair or >= 2 statements in a row; enumeration distinct by construction, generated programs by text.",
		Assumptions: []string{
			"texts with a comment in operand position (a = /* c */ 1) are skipped and counted: 'the tree without comments' is undefined for them",
			"the intended-tree oracle trusts the harness's printer (gen.Print) and precedence table, written from the documentation and parser tests",
		},
		Exhaustive:      true,
		ExhaustiveBound: "all 62 x 56 context/child trees and all 36 x 36 x 2 statement adjacencies listed in harness/rt",
	})
}

type Case struct {
	Text     pbt.Txt `json:"text"`
	Expect   string  `json:"expect,omitempty"`
	ExpectNC string  `json:"expect_nc,omitempty"`
}

func check(c Case) (rt.Result, error) { return rt.RoundTrip(string(c.Text), c.Expect, c.ExpectNC) }

func caseOf(stmts []*gen.Node, o gen.PrintOptions) Case {
	return Case{Text: pbt.Txt(gen.Print(stmts, o)), Expect: gen.Expect(stmts, false), ExpectNC: gen.Expect(stmts, true)}
}

// ---- known findings: classes excluded by construction while listed in KNOWN_FINDINGS.txt -----------------
// (filled in by triage; each predicate recognises the class on the harness's own tree before anything is run)

func TestPairs(t *testing.T) {
	idx := 0
	for _, ctx := range rt.Contexts() {
		for _, ch := range rt.Children() {
			idx++
			if !pbt.Mine(idx) {
				continue
			}
			stmts := []*gen.Node{ctx.Wrap(ch.Make())}
			if ex := excludedTree(stmts); ex != "" {
				pbt.Excluded(ex)
				continue
			}
			c := caseOf(stmts, gen.PrintOptions{})
			if _, err := check(c); err != nil {
				if os.Getenv("VERIF_EXPLORE") != "" {
					fmt.Printf("EXPLORE pair %s / %s: %s\n", ctx.Name, ch.Name, strings.ReplaceAll(err.Error(), "\n", " | "))
					continue
				}
				pbt.Fail(t, "pair", c, "context %s, child %s: %v", ctx.Name, ch.Name, err)
			}
			pbt.CaseExact(true, "pair")
			pbt.SampleEvery("pair", idx, func() any { return string(c.Text) })
		}
	}
}

func TestAdjacency(t *testing.T) {
	idx := 0
	sts := rt.Statements()
	for _, a := range sts {
		for _, b := range sts {
			for _, inBlock := range []bool{false, true} {
				idx++
				if !pbt.Mine(idx) {
					continue
				}
				stmts := []*gen.Node{a.Make(), b.Make()}
				if inBlock {
					stmts = []*gen.Node{gen.Func("w", nil, false, stmts...)}
				}
				if ex := excludedTree(stmts); ex != "" {
					pbt.Excluded(ex)
					continue
				}
				c := caseOf(stmts, gen.PrintOptions{})
				if _, err := check(c); err != nil {
					if os.Getenv("VERIF_EXPLORE") != "" {
						fmt.Printf("EXPLORE adj %s / %s / block=%v: %s\n", a.Name, b.Name, inBlock, strings.ReplaceAll(err.Error(), "\n", " | "))
						continue
					}
					pbt.Fail(t, "adjacency", c, "statements %s then %s (in block: %v): %v", a.Name, b.Name, inBlock, err)
				}
				pbt.CaseExact(true, "adjacency")
				pbt.SampleEvery("adjacency", idx, func() any { return string(c.Text) })
			}
		}
	}
}

func nested(stmts []*gen.Node) bool {
	found := false
	gen.WalkAll(stmts, func(n *gen.Node) {
		if n.K == gen.KInfix || n.K == gen.KPrefix {
			for _, k := range n.Kids {
				if k != nil && (k.K == gen.KInfix || k.K == gen.KPrefix || k.K == gen.KLambda || k.K == gen.KIf) {
					found = true
				}
			}
		}
		if len(n.Body) >= 2 || len(n.Else) >= 2 {
			found = true
		}
	})
	return found || len(stmts) >= 2
}

func TestGenerated(t *testing.T) {
	pbt.Check(t, 6000, 500000, func(rt_ *rapid.T) {
		cfg := gen.SynCfg{MaxDepth: rapid.IntRange(1, 4).Draw(rt_, "depth"), MaxStmts: 3, Comments: rapid.Bool().Draw(rt_, "comments")}
		stmts := gen.SynProgram(rt_, cfg)
		if ex := excludedTree(stmts); ex != "" {
			pbt.Excluded(ex)
			stmts = repair(stmts)
		}
		o := gen.PrintOptions{}
		if rapid.Bool().Draw(rt_, "randomlayout") {
			o = gen.PrintOptions{Choose: gen.RapidChooser(rt_), RedundantParen: true}
		}
		c := caseOf(stmts, o)
		res, err := check(c)
		if err != nil {
			pbt.Fail(rt_, "generated", c, "%v", err)
		}
		lbl := "generated:flat"
		nt := nested(stmts)
		if nt {
			lbl = "generated:nested-or-multi-statement"
		}
		if res.OperandComments {
			lbl = "generated:skipped-operand-comment"
			nt = false
		}
		pbt.Case(nt, string(c.Text), lbl)
		pbt.Sample("generated", string(c.Text))
	})
}

// ---- Function.Inspect -----------------------------------------------------------------------------------

type InspectCase struct {
	Text   string `json:"text"`   // f = <function literal>
	Expect string `json:"expect"` // intended tree of the literal, comments dropped, anonymous func normalised to lambda form
}

func checkInspect(c InspectCase) error {
	s := sess.New(sess.Config{})
	o, err := s.Obj(c.Text)
	if err != nil {
		return fmt.Errorf("cannot evaluate %q: %v", c.Text, err)
	}
	f, ok := o.(object.Function)
	if !ok {
		return fmt.Errorf("%q evaluates to %s, not a function", c.Text, o.Type())
	}
	ins := f.Inspect()
	p := front.Parse(ins, false)
	if !p.Accepted() {
		return fmt.Errorf("Inspect() of the function is not accepted by the parser (%s)\nsource:  %q\ninspect: %q", p.Why(), c.Text, ins)
	}
	got, _ := dump.Dump(p.Prog, dump.Options{DropComments: true})
	if got != c.Expect {
		return fmt.Errorf("Inspect() parses to a different function\nsource:  %q\ninspect: %q\ngot:  %s\nwant: %s", c.Text, ins, got, c.Expect)
	}
	return nil
}

func TestFunctionInspect(t *testing.T) {
	pbt.Check(t, 2500, 150000, func(rt_ *rapid.T) {
		cfg := gen.SynCfg{MaxDepth: rapid.IntRange(1, 3).Draw(rt_, "depth"), MaxStmts: 3, Comments: rapid.Bool().Draw(rt_, "comments"), NoQuote: true}
		body := gen.SynBlock(rt_, cfg, cfg.MaxDepth)
		if len(body) == 0 {
			body = []*gen.Node{gen.Id("a")}
		}
		params := []string{"a", "b"}[:rapid.IntRange(0, 2).Draw(rt_, "np")]
		var fn *gen.Node
		name := ""
		switch rapid.IntRange(0, 2).Draw(rt_, "form") {
		case 0:
			name = "fn"
			fn = gen.Func(name, params, false, body...)
		case 1:
			fn = gen.Func("", params, false, body...)
		default:
			fn = gen.LambdaBlock(params, false, body...)
		}
		if ex := excludedTree([]*gen.Node{fn}); ex != "" {
			pbt.Excluded(ex)
			fn = repair([]*gen.Node{fn})[0]
		}
		norm := fn.Clone()
		if name == "" { // an anonymous func(){} is the same value as a lambda and prints as one
			norm.K = gen.KLambda
			norm.Block = true
		}
		text := gen.Print([]*gen.Node{gen.Assign("zz", fn)}, gen.PrintOptions{})
		if name != "" {
			text = gen.Print([]*gen.Node{fn}, gen.PrintOptions{})
		}
		c := InspectCase{Text: text, Expect: gen.Expect([]*gen.Node{norm}, true)}
		if err := checkInspect(c); err != nil {
			pbt.Fail(rt_, "inspect", c, "%v", err)
		}
		pbt.Case(len(body) >= 2, c.Text, "inspect")
		pbt.Sample("inspect", c.Text)
	})
}

// Single-statement lambda bodies whose printed form starts with each kind of operand, reached through every chain
// (up to 3 links) of index, field, call and left-operand positions: whether such a body can follow => without braces
// is decided by what its text starts with ({ would open a block) and how loosely it binds.
func TestLambdaBodies(t *testing.T) {
	bases := []func() *gen.Node{
		func() *gen.Node {
			return gen.Map(gen.Str("inc"), gen.Lambda([]string{"n"}, false, gen.Infix("+", gen.Id("n"), gen.IntLit("1"))))
		},
		func() *gen.Node { return gen.Map() },
		func() *gen.Node { return gen.Map(gen.Str("a"), gen.IntLit("1"), gen.Str("b"), gen.IntLit("2")) },
		func() *gen.Node { return gen.Array(gen.IntLit("1"), gen.Id("a")) },
		func() *gen.Node { return gen.Id("a") },
		func() *gen.Node { return gen.IntLit("1") },
		func() *gen.Node { return gen.Str("s") },
		func() *gen.Node { return gen.Lambda([]string{"x"}, false, gen.Id("x")) },
		func() *gen.Node {
			return gen.IfElse(gen.Id("a"), []*gen.Node{gen.IntLit("1")}, []*gen.Node{gen.IntLit("2")})
		},
		func() *gen.Node { return gen.Prefix("-", gen.Id("a")) },
		func() *gen.Node { return gen.Prefix("!", gen.Id("a")) },
		func() *gen.Node { return gen.Func("", []string{"y"}, false, gen.Id("y")) },
	}
	links := []func(n *gen.Node) *gen.Node{
		func(n *gen.Node) *gen.Node { return gen.Index(n, gen.Id("k")) },
		func(n *gen.Node) *gen.Node { return gen.Dot(n, "k") },
		func(n *gen.Node) *gen.Node { return gen.Call(n, gen.Id("v")) },
		func(n *gen.Node) *gen.Node { return gen.Infix("+", n, gen.Id("b")) },
		func(n *gen.Node) *gen.Node { return gen.Infix("==", n, gen.Id("b")) },
		func(n *gen.Node) *gen.Node { return gen.Infix("&&", n, gen.Id("b")) },
		func(n *gen.Node) *gen.Node { return gen.Slice(n, gen.IntLit("1"), nil) },
	}
	var chains [][]int
	var rec func(prefix []int, depth int)
	rec = func(prefix []int, depth int) {
		chains = append(chains, append([]int{}, prefix...))
		if depth == 0 {
			return
		}
		for i := range links {
			rec(append(prefix, i), depth-1)
		}
	}
	rec(nil, pbt.N(2, 3))
	idx := 0
	var total, nontriv int64
	for bi := range bases {
		for _, ch := range chains {
			idx++
			if !pbt.Mine(idx) {
				continue
			}
			for form := 0; form < 3; form++ {
				body := bases[bi]()
				for _, l := range ch {
					body = links[l](body)
				}
				var fn *gen.Node
				switch form {
				case 0:
					fn = gen.Lambda([]string{"k", "v"}, false, body)
				case 1:
					fn = gen.LambdaBlock([]string{"k", "v"}, false, body)
				default:
					fn = gen.Func("", []string{"k", "v"}, false, body)
				}
				if ex := excludedTree([]*gen.Node{fn}); ex != "" {
					pbt.Excluded(ex)
					continue
				}
				norm := fn.Clone()
				norm.K = gen.KLambda
				norm.Block = true
				c := InspectCase{Text: gen.Print([]*gen.Node{gen.Assign("zz", fn)}, gen.PrintOptions{}), Expect: gen.Expect([]*gen.Node{norm}, true)}
				if err := checkInspect(c); err != nil {
					pbt.Fail(t, "inspect", c, "%v", err)
				}
				total++
				if len(ch) > 0 {
					nontriv++
				}
			}
		}
	}
	pbt.AddExact(total, nontriv, "inspect:lambda-body-chains")
}

// ---- mutations of shipped examples and native fuzzing ---------------------------------------------------------

var corpus = func() []string {
	var out []string
	for _, g := range []string{"/repo/examples/*.gr", "/repo/tests/*.gr"} {
		files, _ := filepath.Glob(g)
		sort.Strings(files)
		for _, f := range files {
			if b, err := os.ReadFile(f); err == nil && len(b) < 8000 {
				out = append(out, string(b))
			}
		}
	}
	return out
}()

func TestExamples(t *testing.T) {
	if len(corpus) < 5 {
		t.Fatalf("harness: shipped examples not found")
	}
	for i, src := range corpus {
		if !pbt.Mine(i) {
			continue
		}
		if ex := excludedText(src); ex != "" {
			pbt.Excluded(ex)
			continue
		}
		c := Case{Text: pbt.Txt(src)}
		res, err := check(c)
		if err != nil {
			pbt.Fail(t, "example", c, "%v", err)
		}
		pbt.CaseExact(res.Accepted && !res.OperandComments, "example")
	}
}

func FuzzRoundTrip(f *testing.F) {
	for _, c := range corpus {
		f.Add(c)
	}
	f.Add("a = 1 - (2 - 3); b = -(-a); f = x => x + 1; if a { b } else { [1,2][0] }")
	f.Fuzz(func(t *testing.T, in string) {
		if len(in) > 3000 || excludedText(in) != "" {
			return
		}
		if _, err := check(Case{Text: pbt.Txt(in)}); err != nil {
			pbt.Fail(t, "fuzz", Case{Text: pbt.Txt(in)}, "%v", err)
		}
	})
}

func oracle(kind string, raw json.RawMessage) error {
	if kind == "inspect" {
		var c InspectCase
		if err := json.Unmarshal(raw, &c); err != nil {
			return err
		}
		return checkInspect(c)
	}
	var c Case
	if err := json.Unmarshal(raw, &c); err != nil {
		return err
	}
	if kind == "compact" { // a tree of the K-C02-2 class: only the compact-mode half holds (compactsign_test.go)
		_, err := checkCompact(c)
		return err
	}
	_, err := check(c)
	return err
}

func TestReplay(t *testing.T)   { pbt.RunReplay(t, oracle) }
func TestARegress(t *testing.T) { pbt.RunRegress(t, "C02", oracle) }

var _ = strings.Contains
