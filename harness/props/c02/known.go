package c02

import (
	"verif/front"
	"verif/gen"
	"verif/known"
)

// excludedTree returns the id of the listed known finding whose class the tree belongs to ("" = none).
func excludedTree(stmts []*gen.Node) string { return known.Tree(stmts) }

// excludedText does the same for raw texts (examples, fuzz inputs).
func excludedText(text string) string {
	p := front.Parse(text, false)
	if !p.Accepted() {
		return ""
	}
	return known.Ast(p.Prog)
}

// repair rewrites a generated tree so that it leaves every listed class (construction instead of rejection).
func repair(stmts []*gen.Node) []*gen.Node { return known.Repair(stmts) }
