package c02

import (
	"fmt"
	"os"
	"strings"
	"testing"

	"pgregory.net/rapid"
	"verif/dump"
	"verif/front"
	"verif/gen"
	"verif/known"
	"verif/pbt"
	"verif/rt"
)

// ---- statements that start with a unary sign, in compact mode ---------------------------------------------
//
// The listed finding K-C02-2 (a statement starting with - + ^ ++ -- printed bare after another statement) only
// concerns the NORMAL mode. The other families leave its whole class out; the compact-mode half of the property
// holds for that class on the correct code and is checked here: the compact output (and Function.Inspect, which
// reuses the compact printer) must keep such a statement apart from whatever statement precedes it.

// checkCompact is the compact-mode half of rt.RoundTrip: the text is accepted and is the intended tree, and its
// compact formatting is accepted again and parses to the same tree once comments are dropped.
func checkCompact(c Case) (rt.Result, error) {
	var res rt.Result
	text := string(c.Text)
	p0 := front.Parse(text, false)
	if p0.Panic != "" {
		return res, fmt.Errorf("parser panicked on %q: %s", text, p0.Panic)
	}
	if !p0.Accepted() {
		if c.Expect != "" {
			return res, fmt.Errorf("text printed from a valid tree is not accepted by the parser (%s):\n%s", p0.Why(), text)
		}
		return res, nil
	}
	res.Accepted = true
	info := dump.DumpInfo(p0.Prog, dump.Options{})
	res.Tree = info.Text
	res.OperandComments = info.OperandComments > 0
	if len(info.Missing) > 0 {
		return res, fmt.Errorf("accepted text %q has missing children in its tree: %v", text, info.Missing)
	}
	if c.Expect != "" && info.Text != c.Expect {
		return res, fmt.Errorf("the parser built a different tree than the one the text was printed from:\ntext: %s\ngot:  %s\nwant: %s", text, info.Text, c.Expect)
	}
	if res.OperandComments {
		return res, nil
	}
	t0nc, _ := dump.Dump(p0.Prog, dump.Options{DropComments: true})
	if c.ExpectNC != "" && t0nc != c.ExpectNC {
		return res, fmt.Errorf("tree without comments differs from the intended one:\ntext: %s\ngot:  %s\nwant: %s", text, t0nc, c.ExpectNC)
	}
	f, err := front.Format(p0.Prog, true)
	if err != nil {
		return res, fmt.Errorf("compact mode: %v (input %q)", err, text)
	}
	p1 := front.Parse(f, false)
	if !p1.Accepted() {
		return res, fmt.Errorf("compact-mode output is not accepted by the parser (%s)\ninput:  %q\noutput: %q", p1.Why(), text, f)
	}
	t1, _ := dump.Dump(p1.Prog, dump.Options{DropComments: true})
	if t1 != t0nc {
		return res, fmt.Errorf("compact-mode output parses to a different program\ninput:  %q\noutput: %q\ngot:  %s\nwant: %s", text, f, t1, t0nc)
	}
	return res, nil
}

// checkSignClass runs the strongest oracle that holds for the tree: both modes when it is in no listed class,
// compact mode only when its only class is K-C02-2. (kind, skip) tell the caller what was done.
func checkSignClass(stmts []*gen.Node, c Case) (kind string, skipped string, err error) {
	cl := known.Classes(stmts)
	switch {
	case cl[known.RightAssocParens]:
		return "", known.RightAssocParens, nil // wrong in both modes
	case cl[known.SignStartStatement]:
		_, err = checkCompact(c)
		return "compact", "", err
	}
	_, err = check(c)
	return "generated", "", err
}

// inspectOf builds the Inspect case of a function literal (see TestFunctionInspect).
func inspectOf(fn *gen.Node) InspectCase {
	norm := fn.Clone()
	if !(fn.K == gen.KFunc && fn.S != "") { // an anonymous func(){} is the same value as a lambda and prints as one
		norm.K = gen.KLambda
		norm.Block = true
	}
	text := gen.Print([]*gen.Node{gen.Assign("zz", fn)}, gen.PrintOptions{})
	if fn.K == gen.KFunc && fn.S != "" {
		text = gen.Print([]*gen.Node{fn}, gen.PrintOptions{})
	}
	return InspectCase{Text: text, Expect: gen.Expect([]*gen.Node{norm}, true)}
}

var signOps = []string{"-", "+", "^", "++", "--"}

func macroLit(params []string, body ...*gen.Node) *gen.Node {
	return &gen.Node{K: gen.KMacro, Params: params, Body: body}
}

// repaired1 takes one drawn statement/expression out of the K-C02-1 class (and, inside its own nested blocks, out
// of K-C02-2: the family builds its own sign statements at every level instead).
func repaired1(n *gen.Node) *gen.Node { return repair([]*gen.Node{n})[0] }

// signStatement draws a statement whose text starts with a unary sign.
func signStatement(t *rapid.T, cfg gen.SynCfg) *gen.Node {
	operand := func() *gen.Node {
		if rapid.IntRange(0, 2).Draw(t, "leafoperand") > 0 {
			return rapid.SampledFrom([]*gen.Node{gen.Id("a"), gen.Id("x"), gen.IntLit("1"), gen.IntLit("42"), gen.FloatLit(".5"), gen.FloatLit("1.5"),
				gen.Str("s"), gen.Bool(true), gen.Call(gen.Id("f"), gen.Id("a")), gen.Index(gen.Id("arr"), gen.IntLit("0")), gen.Dot(gen.Id("m"), "k")}).Draw(t, "operand").Clone()
		}
		return gen.SynExpr(t, cfg, rapid.IntRange(0, cfg.MaxDepth).Draw(t, "operanddepth"))
	}
	var s *gen.Node
	if rapid.IntRange(0, 7).Draw(t, "minint") == 0 {
		s = gen.IntLit("-9223372036854775808")
	} else {
		s = gen.Prefix(rapid.SampledFrom(signOps).Draw(t, "sign"), operand())
	}
	// the sign may be the start of a longer statement: -a * b, -a == b || c, ++i < n ...
	for n := rapid.IntRange(0, 2).Draw(t, "tail"); n > 0; n-- {
		s = gen.Infix(rapid.SampledFrom(gen.InfixOps).Draw(t, "tailop"), s, operand())
	}
	return repaired1(s)
}

// braceEnder draws a statement whose text ends with a closing brace; inner() gives the statements of its block.
func braceEnder(t *rapid.T, cfg gen.SynCfg, inner func() []*gen.Node) *gen.Node {
	cond := func() *gen.Node { return repaired1(gen.SynExpr(t, cfg, rapid.IntRange(0, 1).Draw(t, "conddepth"))) }
	params := [][]string{nil, {"x"}, {"x", "y"}, {".."}, {"x", ".."}}[rapid.IntRange(0, 4).Draw(t, "params")]
	variadic := len(params) > 0 && params[len(params)-1] == ".."
	mapLit := func() *gen.Node {
		n := rapid.IntRange(0, 2).Draw(t, "npairs")
		var kvs []*gen.Node
		for i := 0; i < n; i++ {
			kvs = append(kvs, gen.Str([]string{"k", "v"}[i]), cond())
		}
		return gen.Map(kvs...)
	}
	var n *gen.Node
	switch rapid.IntRange(0, 11).Draw(t, "ender") {
	case 0:
		n = gen.If(cond(), inner())
	case 1:
		n = gen.IfElse(cond(), inner(), inner())
	case 2:
		n = gen.If(cond(), inner())
		n.ElseIf = gen.If(cond(), inner())
		if rapid.Bool().Draw(t, "elseifelse") {
			n.ElseIf = gen.IfElse(cond(), inner(), inner())
		}
	case 3:
		forms := []*gen.Node{gen.IntLit("3"), gen.Infix("<", gen.Id("i"), gen.Id("n")), gen.Assign("i", gen.Infix(":", gen.IntLit("1"), gen.IntLit("4"))), gen.Bool(true)}
		n = gen.For(rapid.SampledFrom(forms).Draw(t, "forcond").Clone(), inner()...)
	case 4:
		n = gen.Func(rapid.SampledFrom([]string{"f", "g", "helper"}).Draw(t, "fname"), params, variadic, inner()...)
	case 5:
		n = gen.Func("", params, variadic, inner()...)
	case 6:
		n = gen.LambdaBlock(params, variadic, inner()...)
	case 7:
		n = mapLit()
	case 8:
		n = macroLit([]string{"x"}, inner()...)
	case 9: // an operator expression whose last operand is a map
		n = gen.Infix(rapid.SampledFrom(gen.InfixOps).Draw(t, "mapop"), gen.Id("a"), mapLit())
	case 10:
		n = gen.Prefix(rapid.SampledFrom([]string{"!", "-", "~"}).Draw(t, "mappre"), mapLit())
	default:
		n = gen.Return(mapLit())
	}
	if n.K != gen.KReturn && !(n.K == gen.KFunc && n.S != "") {
		switch rapid.IntRange(0, 4).Draw(t, "bound") {
		case 0:
			n = gen.Assign(gen.SynIdent().Draw(t, "lhs"), n)
		case 1:
			n = gen.Define(gen.SynIdent().Draw(t, "lhs"), n)
		case 2:
			if n.K != gen.KMacro {
				n = gen.Return(n)
			}
		}
	}
	return n
}

// signBlock draws a statement list in which at least one statement that is not the first starts with a sign;
// what precedes it is mostly a statement ending with a closing brace (whose own block is, while nest > 0, another
// such list), otherwise any statement; comments may stand between the two.
func signBlock(t *rapid.T, cfg gen.SynCfg, nest int) []*gen.Node {
	inner := func() []*gen.Node {
		switch k := rapid.IntRange(0, 5).Draw(t, "inner"); {
		case k == 0:
			return nil
		case k <= 2 && nest > 0:
			return signBlock(t, cfg, nest-1)
		case k == 3:
			return []*gen.Node{signStatement(t, cfg)} // first of its block: printed bare
		default:
			return repair(gen.SynBlock(t, cfg, 1))
		}
	}
	var out []*gen.Node
	groups := rapid.IntRange(1, 2).Draw(t, "groups")
	for g := 0; g < groups; g++ {
		switch k := rapid.IntRange(0, 9).Draw(t, "pred"); {
		case k <= 5:
			out = append(out, braceEnder(t, cfg, inner))
		case k == 6 && len(out) > 0:
			// nothing new in between: sign statement directly after the previous group's sign statement
		case k <= 7:
			out = append(out, rt.Statements()[rapid.IntRange(0, len(rt.Statements())-1).Draw(t, "shape")].Make())
		default:
			out = append(out, repaired1(gen.SynStmt(t, cfg, cfg.MaxDepth)))
		}
		if last := out[len(out)-1]; last.K == gen.KReturn && len(last.Kids) == 0 {
			out[len(out)-1] = gen.Return(gen.Id("nil")) // a bare return takes what follows as its value
		}
		if cfg.Comments {
			for n := rapid.IntRange(0, 3).Draw(t, "ncomments") - 1; n > 0; n-- {
				out = append(out, gen.Comment(rapid.SampledFrom([]string{"// c", "/* block */", "//", "/**/", "/* multi\n line */", "// done: -1"}).Draw(t, "comment")))
			}
		}
		out = append(out, signStatement(t, cfg))
	}
	if rapid.IntRange(0, 2).Draw(t, "trailer") == 0 {
		out = append(out, repaired1(gen.SynStmt(t, cfg, 1)))
	}
	return out
}

func TestCompactSignStatements(t *testing.T) {
	pbt.Check(t, 1500, 120000, func(rt_ *rapid.T) {
		cfg := gen.SynCfg{MaxDepth: rapid.IntRange(1, 2).Draw(rt_, "depth"), MaxStmts: 2, Comments: rapid.Bool().Draw(rt_, "comments"), NoQuote: true}
		block := signBlock(rt_, cfg, rapid.IntRange(0, 2).Draw(rt_, "nest"))
		var stmts []*gen.Node
		var fn *gen.Node // set when the program is one function literal: its value is also printed through Inspect
		switch rapid.IntRange(0, 7).Draw(rt_, "where") {
		case 0, 1:
			stmts = block
		case 2:
			fn = gen.Func("fn", []string{"a", "b"}[:rapid.IntRange(0, 2).Draw(rt_, "np")], false, block...)
		case 3:
			fn = gen.Func("", []string{"a", "b"}[:rapid.IntRange(0, 2).Draw(rt_, "np")], false, block...)
		case 4:
			fn = gen.LambdaBlock([]string{"a", "b"}[:rapid.IntRange(0, 2).Draw(rt_, "np")], false, block...)
		case 5:
			stmts = []*gen.Node{gen.IfElse(gen.Id("a"), []*gen.Node{gen.Id("b")}, block)}
		case 6:
			stmts = []*gen.Node{gen.For(gen.IntLit("3"), block...)}
		default:
			stmts = []*gen.Node{gen.Println(gen.Call(gen.LambdaBlock(nil, false, block...)))}
		}
		if fn != nil {
			stmts = []*gen.Node{gen.Assign("zz", fn)}
			if fn.S != "" {
				stmts = []*gen.Node{fn}
			}
		}
		o := gen.PrintOptions{}
		if rapid.IntRange(0, 2).Draw(rt_, "randomlayout") == 0 {
			o = gen.PrintOptions{Choose: gen.RapidChooser(rt_), RedundantParen: true}
		}
		c := caseOf(stmts, o)
		kind, skipped, err := checkSignClass(stmts, c)
		if skipped != "" {
			pbt.Excluded(skipped)
			return
		}
		if err != nil {
			pbt.Fail(rt_, kind, c, "%v", err)
		}
		lbl := "signstmt:" + kind
		if fn != nil {
			hasMacro := false
			gen.Walk(fn, func(n *gen.Node) { hasMacro = hasMacro || n.K == gen.KMacro })
			if !hasMacro { // macro literals are taken out of a program before it is evaluated
				ic := inspectOf(fn)
				if err := checkInspect(ic); err != nil {
					pbt.Fail(rt_, "inspect", ic, "%v", err)
				}
				lbl = "signstmt:" + kind + "+inspect"
			}
		}
		pbt.Case(true, string(c.Text), lbl)
		pbt.Sample("signstmt", string(c.Text))
	})
}

// Every statement shape of the adjacency family followed by every sign-leading one, directly and with a line or a
// block comment in between, at top level, in a named function's block (also through Inspect) and in an else block.
func TestCompactSignAdjacency(t *testing.T) {
	sts := rt.Statements()
	signs := []rt.Named{
		{Name: "minint", Make: func() *gen.Node { return gen.IntLit("-9223372036854775808") }},
		{Name: "neg-product", Make: func() *gen.Node { return gen.Infix("*", gen.Prefix("-", gen.Id("a")), gen.Id("b")) }},
		{Name: "negint", Make: func() *gen.Node { return gen.Int(-1) }},
	}
	for _, s := range sts {
		if n := s.Make(); n.K == gen.KPrefix && n.S != "!" {
			signs = append(signs, s)
		}
	}
	preds := append([]rt.Named{
		{Name: "elseif", Make: func() *gen.Node {
			n := gen.If(gen.Id("a"), []*gen.Node{gen.Id("b")})
			n.ElseIf = gen.If(gen.Id("c"), []*gen.Node{gen.Id("d")})
			return n
		}},
		{Name: "if-return", Make: func() *gen.Node {
			return gen.If(gen.Infix(">", gen.Id("x"), gen.IntLit("0")), []*gen.Node{gen.Return(gen.IntLit("1"))})
		}},
		{Name: "emptymap", Make: func() *gen.Node { return gen.Map() }},
		{Name: "lambdablock", Make: func() *gen.Node { return gen.LambdaBlock([]string{"x"}, false, gen.Id("x")) }},
		{Name: "assign-func", Make: func() *gen.Node { return gen.Assign("g", gen.Func("", nil, false, gen.Id("x"))) }},
		{Name: "assign-if", Make: func() *gen.Node { return gen.Assign("g", gen.If(gen.Id("a"), []*gen.Node{gen.Id("b")})) }},
		{Name: "macro", Make: func() *gen.Node { return gen.Assign("mm", macroLit([]string{"x"}, gen.Id("x"))) }},
		{Name: "return-map", Make: func() *gen.Node { return gen.Return(gen.Map(gen.Id("a"), gen.Id("b"))) }},
		{Name: "sum-map", Make: func() *gen.Node { return gen.Infix("+", gen.Id("a"), gen.Map(gen.Id("b"), gen.Id("c"))) }},
	}, sts...)
	between := []string{"", "// c", "/* c */"}
	idx := 0
	for _, a := range preds {
		for _, b := range signs {
			for _, cm := range between {
				for where := 0; where < 3; where++ {
					idx++
					if !pbt.Mine(idx) {
						continue
					}
					pred := a.Make()
					if pred.K == gen.KReturn && len(pred.Kids) == 0 {
						continue
					}
					block := []*gen.Node{pred}
					if cm != "" {
						block = append(block, gen.Comment(cm))
					}
					block = append(block, b.Make())
					stmts := block
					var fn *gen.Node
					switch where {
					case 1:
						fn = gen.Func("w", []string{"x"}, false, block...)
						stmts = []*gen.Node{fn}
					case 2:
						stmts = []*gen.Node{gen.IfElse(gen.Id("x"), []*gen.Node{gen.Id("y")}, block)}
					}
					c := caseOf(stmts, gen.PrintOptions{})
					kind, skipped, err := checkSignClass(stmts, c)
					if skipped != "" {
						pbt.Excluded(skipped)
						continue
					}
					if err == nil && fn != nil && a.Name != "macro" {
						ic := inspectOf(fn)
						if err = checkInspect(ic); err != nil {
							if os.Getenv("VERIF_EXPLORE") == "" {
								pbt.Fail(t, "inspect", ic, "statements %s then %s (comment %q): %v", a.Name, b.Name, cm, err)
							}
						}
					}
					if err != nil {
						if os.Getenv("VERIF_EXPLORE") != "" {
							fmt.Printf("EXPLORE signadj %s / %s / %q / where=%d: %s\n", a.Name, b.Name, cm, where, strings.ReplaceAll(err.Error(), "\n", " | "))
							continue
						}
						pbt.Fail(t, kind, c, "statements %s then %s (comment %q, position %d): %v", a.Name, b.Name, cm, where, err)
					}
					pbt.CaseExact(true, "signadjacency:"+kind)
					pbt.SampleEvery("signadjacency", idx, func() any { return string(c.Text) })
				}
			}
		}
	}
}
