// C05 — values that leave a register: the variable of a counted loop as the value that leaves the loop, and bare
// integer parameters / loop variables handed to library functions.
package c05

import (
	"fmt"
	"strings"
	"testing"

	"pgregory.net/rapid"
	"verif/pbt"
)

// Names. While K-C05-1 is listed a counted loop's variable must not coincide with another binding and is not read
// after its loop: top-level loops use i j k w (left out of the comparison of globals, see known.go), loops inside
// the function number f use lv<f><level> (local to each call, and never a name of a top-level loop that may be
// running when the function is called), nothing else is called like that.
var topLoopVars = []string{"i", "j", "k", "w"}

type eg struct {
	rt      *rapid.T
	bare    bool // the value that leaves a loop / the library argument is the bare register variable
	intArgs bool // the function being written is only called with integers
	anyT    bool // a bare variable is handed to a library function declared with ANY-typed (or untyped extra) arguments
}

func (g *eg) pick(label string, xs ...string) string { return rapid.SampledFrom(xs).Draw(g.rt, label) }
func (g *eg) n(label string, lo, hi int) int         { return rapid.IntRange(lo, hi).Draw(g.rt, label) }
func (g *eg) chance(label string, pct int) bool      { return rapid.IntRange(0, 99).Draw(g.rt, label) < pct }
func fnLoopVar(fn, level int) string                 { return fmt.Sprintf("lv%d%d", fn, level) }
func extraParams(n int) (names []string) {
	for i := 0; i < n; i++ {
		names = append(names, fmt.Sprintf("q%d", i))
	}
	return names
}

// leaving draws the value that leaves a loop, given the loop variables in scope (outermost first): mostly one of
// them as it is (what stays a register until somebody copies it), else an expression or container over them.
func (g *eg) leaving(vars []string, others ...string) string {
	v := vars[g.n("leave-var", 0, len(vars)-1)]
	if g.chance("leave-bare", 65) {
		g.bare = true
		return v
	}
	forms := append([]string{v + " + 0", v + " * 2", "[" + strings.Join(vars, ", ") + "]", "str(" + v + ")", "-" + v, "{\"v\": " + v + "}"}, others...)
	return g.pick("leave-expr", forms...)
}

// ---- a function that leaves a nest of counted loops through return -------------------------------------------

// searchFunc: func f<fn>(n, a, x, q0..) with a nest of 1..4 counted loops; at one level of the nest sits
// "if COND { return VALUE }", the deeper levels only accumulate. extra integer parameters take registers of
// the same environment (8 per environment: with many of them the loops fall back to plain variables).
func (g *eg) searchFunc(fn int) (def string, nextra int) {
	nextra = rapid.SampledFrom([]int{0, 0, 1, 3, 5, 6, 7, 8, 9}).Draw(g.rt, "nextra")
	params := append([]string{"n", "a", "x"}, extraParams(nextra)...)
	depth := rapid.SampledFrom([]int{1, 1, 1, 2, 2, 3, 4}).Draw(g.rt, "depth")
	retLevel := g.n("ret-level", 1, depth)
	var vars []string
	for l := 1; l <= depth; l++ {
		vars = append(vars, fnLoopVar(fn, l))
	}
	bounds := make([]string, depth) // "V = BOUND" per level
	for l := 1; l <= depth; l++ {
		v := vars[l-1]
		if l == 1 {
			bounds[0] = v + " = " + g.pick("bound1", "n", "n", "1:n", "len(a)", "4", "2:6", "0:n", "n + 1")
			continue
		}
		up := vars[l-2]
		bounds[l-1] = v + " = " + g.pick("bound", "2", "3", up, up+" + 1", up+":4", "1:3", "n")
	}
	inScope := vars[:retLevel]
	v := inScope[g.n("cond-var", 0, retLevel-1)]
	u := inScope[g.n("cond-var2", 0, retLevel-1)]
	c := g.n("cond-const", 0, 4)
	cond := g.pick("cond",
		fmt.Sprintf("%s == %d", v, c),
		fmt.Sprintf("%s + %s == %d", v, u, c),
		fmt.Sprintf("%s * %s >= x", v, v),
		fmt.Sprintf("%s %% 2 == 1", v),
		fmt.Sprintf("%s >= n - 1", v),
		fmt.Sprintf("acc > %d", c),
		"true")
	if strings.HasSuffix(bounds[0], "len(a)") && g.chance("needle", 80) {
		cond = "a[" + vars[0] + "] == x" // linear search
	}
	var sb strings.Builder
	head := g.pick("fn-form", "func f%d(%s) {\n", "func f%d(%s) {\n", "f%d = func(%s) {\n")
	fmt.Fprintf(&sb, head, fn, strings.Join(params, ", "))
	sb.WriteString("acc = 0\n")
	if nextra > 0 && g.chance("touch-extra", 50) {
		q := params[3+g.n("extra", 0, nextra-1)]
		sb.WriteString(g.pick("extra-stmt", q+"++\n", q+" = "+q+" + 1\n", "acc = "+q+"\n", "println("+q+")\n"))
	}
	for l := 1; l <= retLevel; l++ {
		sb.WriteString("for " + bounds[l-1] + " {\n")
		if g.chance("loop-stmt", 40) {
			sb.WriteString(g.pick("stmt", "acc = acc + "+vars[l-1]+"\n", "println("+vars[l-1]+")\n", "acc++\n"))
		}
	}
	ret := "if " + cond + " { return " + g.leaving(inScope, "acc", "a", "n") + " }\n"
	inner := ""
	if depth > retLevel {
		var ib strings.Builder
		for l := retLevel + 1; l <= depth; l++ {
			ib.WriteString("for " + bounds[l-1] + " {\n")
		}
		ib.WriteString("acc = acc + " + vars[depth-1] + "\n")
		ib.WriteString(strings.Repeat("}\n", depth-retLevel))
		inner = ib.String()
	}
	if g.chance("inner-first", 50) {
		sb.WriteString(inner + ret)
	} else {
		sb.WriteString(ret + inner)
	}
	sb.WriteString(strings.Repeat("}\n", retLevel))
	sb.WriteString(g.pick("fallback", "return -1\n", "-1\n", "acc\n", "", "[acc, n]\n"))
	sb.WriteString("}")
	return sb.String(), nextra
}

func (g *eg) searchCall(fn, nextra int) string {
	arr := g.pick("arr", "[5, 7, 9, 11]", "[]", "[7]", `["a", "b", "c"]`, "[1, 2, 3, 4, 5, 6]")
	needle := g.pick("needle", "9", "7", "4", `"b"`, "1", "6", "50", "0")
	n := g.pick("n", "0", "1", "2", "3", "4", "5", "6", "3", "4")
	if g.chance("odd-n", 6) {
		n = g.pick("odd", "-1", "2.5", `"ab"`, "nil", "[4, 5]")
	}
	args := []string{n, arr, needle}
	for i := 0; i < nextra; i++ {
		args = append(args, g.pick("q", "1", "2", "0", "-1", "7", "1", "2", "1.5", `"s"`))
	}
	return fmt.Sprintf("f%d(%s)", fn, strings.Join(args, ", "))
}

// ---- a counted loop whose value is used ---------------------------------------------------------------------

// loopExpr: "for V = BOUND { stmts; for V2 = ... { stmts; VALUE } }": the value of the innermost loop is the value of
// every loop around it. bounds lists what the outermost bound may be, stmtVar is the variable of the loops that are
// mere statements of a body. The loop is only left through break/continue when its value is not the bare
// loop variable: see the comment at the exclusion.
func (g *eg) loopExpr(vars []string, bounds []string, acc, stmtVar string) string {
	depth := rapid.SampledFrom([]int{1, 1, 1, 2, 2, 3}).Draw(g.rt, "vdepth")
	if depth > len(vars) {
		depth = len(vars)
	}
	vars = vars[:depth]
	wasBare := g.bare
	g.bare = false
	value := g.leaving(vars, acc)
	bareHere := g.bare
	g.bare = wasBare || bareHere
	var sb strings.Builder
	for l := 1; l <= depth; l++ {
		v := vars[l-1]
		b := g.pick("vbound", bounds...)
		if l > 1 {
			b = g.pick("vbound-in", "2", "3", "1:3", vars[l-2]+" + 1", "4")
		}
		sb.WriteString("for " + v + " = " + b + " { ")
		for s, ns := 0, g.n("nstmts", 0, 2); s < ns; s++ {
			st := g.pick("vstmt", acc+" = "+acc+" + "+v, "println("+v+")", "for "+stmtVar+" = 2 { "+acc+" = "+acc+" + "+stmtVar+" }", "CTL")
			if st == "CTL" {
				// (repaired in grol, found by this family: the loop kept the live register as its value, so a later
				// break / continue changed it: "x = for k = 4 { if k == 2 { break }; k }; println(x)" printed 2 with
				// registers and 1 without)
				st = fmt.Sprintf("if %s == %d { %s }", v, g.n("ctl-at", 0, 3), g.pick("ctl", "break", "continue"))
			}
			sb.WriteString(st + "; ")
		}
	}
	sb.WriteString(value)
	sb.WriteString(strings.Repeat(" }", depth))
	return sb.String()
}

// TestLoopValue: every way the variable of a counted loop can be the value that leaves the loop.
func TestLoopValue(t *testing.T) {
	pbt.Check(t, 500, 60000, func(rt_ *rapid.T) {
		g := &eg{rt: rt_}
		c := Case{Inputs: []string{"acc = 0"}}
		nparts := g.n("nparts", 1, 4)
		for p := 0; p < nparts; p++ {
			switch g.n("part", 0, 2) {
			case 0: // return from inside the nest
				def, nextra := g.searchFunc(p)
				c.Inputs = append(c.Inputs, def)
				for k, nk := 0, g.n("ncalls", 1, 3); k < nk; k++ {
					call := g.searchCall(p, nextra)
					c.Inputs = append(c.Inputs, g.useOf(call, g.searchCall(p, nextra), p))
				}
			case 1: // the value of a top-level loop
				vars := append([]string{}, topLoopVars...)
				first := g.n("first-var", 0, 3)
				vars[0], vars[first] = vars[first], vars[0]
				loop := g.loopExpr(vars, []string{"4", "3", "1", "0", "2:5", "1:2", "6"}, "acc", "lv")
				// (repaired in grol, found by this family: a second counted loop took over the released register before
				// the first one's value was copied: "x = (for k = 4 { k }) + (for j = 2 { j }); println(x)" printed 2
				// with registers and 4 without)
				c.Inputs = append(c.Inputs, g.useOf(loop, "for lv = 2 { lv }", p))
				c.Inputs = append(c.Inputs, fmt.Sprintf("x%d = (%s) %s (for lv = %d { lv })\nprintln(x%d)", p, loop, g.pick("loop-op", "+", "-", "*"), g.n("loop2", 0, 3), p))
			default: // the value of a loop is the value of a function
				lvs := []string{fnLoopVar(p, 1), fnLoopVar(p, 2), fnLoopVar(p, 3)}
				nextra := rapid.SampledFrom([]int{0, 0, 2, 6, 7, 8}).Draw(rt_, "vextra")
				params := append([]string{"n"}, extraParams(nextra)...)
				fbounds := []string{"n", "n", "1:n", "n + 1", "3", "0:n"}
				var def string
				if nextra == 0 && g.chance("lambda", 25) {
					def = fmt.Sprintf("g%d = n => %s", p, g.loopExpr(lvs, fbounds, "acc", fnLoopVar(p, 9)))
				} else {
					body := g.pick("vbody", "LOOP", "return LOOP", "r = LOOP\nr", "r = LOOP\n[r, t]", "if n > 0 { LOOP } else { -1 }", "println(LOOP)\nt", "(LOOP) + 1", "[LOOP, n]")
					body = strings.Replace(body, "LOOP", g.loopExpr(lvs, fbounds, "t", fnLoopVar(p, 9)), 1)
					def = fmt.Sprintf("func g%d(%s) {\nt = 0\n%s\n}", p, strings.Join(params, ", "), body)
				}
				c.Inputs = append(c.Inputs, def)
				for k, nk := 0, g.n("ncalls", 1, 3); k < nk; k++ {
					args := []string{g.pick("n", "0", "1", "2", "3", "4", "5")}
					for i := 0; i < nextra; i++ {
						args = append(args, g.pick("q", "1", "2", "0", "-1", "7", "1.5"))
					}
					call := fmt.Sprintf("g%d(%s)", p, strings.Join(args, ", "))
					c.Inputs = append(c.Inputs, g.useOf(call, call, p))
				}
			}
		}
		c.Inputs = append(c.Inputs, "println(acc)")
		if err := check(c); err != nil {
			report(rt_, "loop-value", c, err)
		}
		lbl := "loop-value:expression"
		if g.bare {
			lbl = "loop-value:bare-variable"
		}
		pbt.Case(g.bare, strings.Join(c.Inputs, "\n"), lbl)
		pbt.Sample("loop-value", c.Inputs)
	})
}

// useOf: one input that consumes the value e (a call or a parenthesisable loop expression); e2 is a second value
// that may sit next to it in a list or an argument list, x<p> a fresh global. Of what catch() returns only .err is
// used: the other field is the text of the message, whose wording is not compared (it names the operand types, and
// says REGISTER where the other mode says INTEGER: "unknown operator: STRING PLUS REGISTER").
func (g *eg) useOf(e, e2 string, p int) string {
	x := fmt.Sprintf("x%d", p)
	forms := []string{
		"println(E)", "println(E)", "X = E\nprintln(X)", "E", "[E, 1]", "[E, E2]", "X = (E) + 1\nprintln(X)", "println(1 + (E))",
		"println(\"v\", E, E2)", "X = {\"k\": E}\nprintln(X)", "println(ident(E))", "if (E) == 2 { println(\"two\") } else { println(\"other\") }",
		"X = (E) * 2\nX", "println((E) + (X = 5), X)", "println(str(E) + \"!\")", "X = catch(E).err\nprintln(X)", "println(max(E, E2))",
		"X = [E]\nprintln(X[0])", "println(-(E))",
	}
	f := g.pick("use", forms...)
	f = strings.ReplaceAll(f, "E2", "\x00")
	f = strings.ReplaceAll(f, "E", e)
	f = strings.ReplaceAll(f, "\x00", e2)
	return strings.ReplaceAll(f, "X", x)
}

// ---- bare register variables handed to library functions -----------------------------------------------------

// libCall draws a call of a library function on the bare variables x (and y). intOnly: only forms whose result is an
// integer when x and y are. The ones declared with ANY-typed arguments (int, min, max, json, json_go) and the untyped
// extra arguments of sprintf receive their arguments "as they are"; some return what they were given.
func (g *eg) libCall(x, y string, intOnly bool) string {
	c := fmt.Sprint(g.n("lib-const", -1, 5))
	anyInt := []string{
		"int(" + x + ")", "int(" + x + ")", "max(" + x + ", " + y + ")", "min(" + x + ", " + y + ")", "max(" + x + ")", "min(" + x + ")",
		"max(" + x + ", " + c + ")", "min(" + c + ", " + x + ")", "max(" + c + ", " + x + ", " + y + ")", "min(" + y + ", " + x + ", " + c + ")",
		"int(max(" + x + ", " + y + "))", "max(int(" + x + "), " + y + ")",
	}
	otherInt := []string{"abs(" + x + ")", "ident(" + x + ")", "len(str(" + x + "))"}
	anyOther := []string{
		"json(" + x + ")", "json_go(" + x + ")", "sprintf(\"%d\", " + x + ")", "sprintf(\"%v/%v\", " + x + ", " + y + ")", "sprintf(\"%03d|%x\", " + x + ", " + y + ")",
		"json([" + x + ", " + y + "])", "json(max(" + x + ", " + y + "))",
	}
	other := []string{"str(" + x + ")", "sqrt(" + x + ")", "pow(" + x + ", 2)", "round(" + x + ")", "catch(" + x + ")", "first([" + x + "])", "[" + x + "]"}
	k := g.n("lib-kind", 0, 9)
	switch {
	case k < 5 || intOnly && k < 8:
		g.anyT, g.bare = true, true
		return g.pick("lib-any-int", anyInt...)
	case intOnly:
		g.bare = true
		return g.pick("lib-int", otherInt...)
	case k < 8:
		g.anyT, g.bare = true, true
		return g.pick("lib-any", anyOther...)
	default:
		g.bare = true
		return g.pick("lib-other", append(other, otherInt...)...)
	}
}

// write draws an expression that writes the integer variable v (it stays an integer: K-C05-2).
func (g *eg) write(v string) string {
	return g.pick("write", "("+v+" = 10)", "("+v+" = -3)", v+"++", v+"--", "("+v+" = "+v+" + 2)")
}

// libStmt: one statement over the variables vs (parameters and/or loop variables). writable: those that may be
// written. A library call is the left operand of an operator whose right operand writes one of the call's
// arguments, and so is the bare variable itself (repaired in grol, found while building this family:
// "func f(a) { a + (a = 5) }; f(3)" gave 10 with registers and 8 without).
func (g *eg) libStmt(vs, writable []string, local string, depth, fn int) string {
	x := vs[g.n("x", 0, len(vs)-1)]
	y := vs[g.n("y", 0, len(vs)-1)]
	op := g.pick("op", "+", "-", "*")
	form := g.n("lib-form", 0, 11)
	if len(writable) == 0 && (form == 3 || form == 4 || form == 5) {
		form = 0
	}
	var wv string
	if len(writable) > 0 {
		wv = writable[g.n("wv", 0, len(writable)-1)]
	}
	switch form {
	case 0:
		return "println(" + g.libCall(x, y, false) + ", " + g.libCall(y, x, false) + ")"
	case 1:
		return "r = " + g.libCall(x, y, false) + "\nprintln(r)"
	case 2:
		return local + " = " + local + " " + op + " " + g.libCall(x, y, true)
	case 3: // the call, then a write to one of its arguments in the same expression
		if g.chance("bare-left", 40) {
			return "println(" + wv + " " + op + " " + g.write(wv) + ", " + wv + ")"
		}
		return "println(" + g.libCall(x, wv, true) + " " + op + " " + g.write(wv) + ", " + wv + ")"
	case 4:
		return "println([" + g.libCall(wv, y, false) + ", " + g.write(wv) + ", " + g.libCall(wv, x, false) + ", " + g.write(wv) + ", " + g.libCall(x, wv, true) + "])"
	case 5:
		return "r = " + g.libCall(wv, x, true) + "\n" + g.write(wv) + "\nprintln(r, " + wv + ")"
	case 6:
		return "if " + g.libCall(x, y, true) + " > " + fmt.Sprint(g.n("cmp", 0, 3)) + " { println(\"gt\", " + x + ") }"
	case 7, 8:
		if depth >= 3 {
			return "println(" + g.libCall(x, y, false) + ")"
		}
		lv := fnLoopVar(fn, depth+1)
		if fn < 0 {
			lv = topLoopVars[depth]
		}
		b := g.pick("lbound", "3", "2", "1:4", "4")
		// a bound is an integer ("for v = true" never ends): loop variables always are, parameters when the calls say so.
		// A parameter only bounds the outermost loop of a statement: the bodies write them.
		isLoopVar := loopVarName.MatchString
		if (g.intArgs && depth == 0) || isLoopVar(x) && isLoopVar(y) {
			b = g.pick("lbound-var", b, "min("+x+", 3)", "0:max("+y+", 1)", x, x+" + 1", "0:"+x)
		} else if g.intArgs {
			b = g.pick("lbound-lib", b, "min("+x+", 3)", "1:min(4, "+y+")")
		}
		var body []string
		for s, ns := 0, g.n("lstmts", 1, 2); s < ns; s++ {
			body = append(body, g.libStmt(append(append([]string{}, vs...), lv, lv), writable, local, depth+1, fn))
		}
		return "for " + lv + " = " + b + " {\n" + strings.Join(body, "\n") + "\n}"
	case 9:
		return "println(ident(" + g.libCall(x, y, false) + "), " + x + ")"
	case 10:
		return "m = {\"k\": " + g.libCall(x, y, false) + "}\nprintln(m)"
	default:
		return "println(" + g.libCall(x, y, true) + " " + op + " " + g.libCall(y, x, true) + ")"
	}
}

// TestLibraryArgs: integer parameters and counted-loop variables as they are as arguments of library functions.
func TestLibraryArgs(t *testing.T) {
	pbt.Check(t, 500, 60000, func(rt_ *rapid.T) {
		g := &eg{rt: rt_}
		c := Case{Inputs: []string{"total = 0"}}
		nparts := g.n("nparts", 1, 3)
		for p := 0; p < nparts; p++ {
			if g.chance("top-level", 35) { // loops of the top-level environment
				var body []string
				for s, ns := 0, g.n("nstmts", 1, 3); s < ns; s++ {
					body = append(body, g.libStmt([]string{"i"}, nil, "total", 1, -1))
				}
				c.Inputs = append(c.Inputs, "for i = "+g.pick("tbound", "4", "3", "2:5", "1", "0:3", "-2:2")+" {\n"+strings.Join(body, "\n")+"\n}", "println(total)")
				continue
			}
			np := rapid.SampledFrom([]int{1, 2, 2, 3, 4, 7, 8, 9, 12}).Draw(rt_, "np")
			var params []string
			for i := 0; i < np; i++ {
				params = append(params, fmt.Sprintf("p%d", i))
			}
			g.intArgs = g.chance("allints", 70)
			var body []string
			for s, ns := 0, g.n("nstmts", 1, 4); s < ns; s++ {
				body = append(body, g.libStmt(params, params, "t", 0, p))
			}
			x, y := params[g.n("lx", 0, np-1)], params[g.n("ly", 0, np-1)]
			last := g.pick("last", "["+strings.Join(params, ", ")+", t]", g.libCall(x, y, false), g.libCall(x, y, true)+" + "+g.write(y), "return "+g.libCall(x, y, false), "t")
			def := fmt.Sprintf("func h%d(%s) {\nt = 0\n%s\n%s\n}", p, strings.Join(params, ", "), strings.Join(body, "\n"), last)
			if np <= 2 && g.chance("lambda", 25) {
				def = fmt.Sprintf("h%d = (%s) => %s", p, strings.Join(params, ", "), g.libCall(x, y, true)+" "+g.pick("op", "+", "-", "*")+" "+g.write(y))
			}
			c.Inputs = append(c.Inputs, def)
			for k, nk := 0, g.n("ncalls", 1, 3); k < nk; k++ {
				var args []string
				for i := 0; i < np; i++ {
					if g.intArgs {
						args = append(args, g.pick("intarg", "1", "2", "0", "-1", "7", "3", "4", "5")) // (small: they bound loops)
					} else {
						args = append(args, g.pick("arg", "1", "2", "0", "-1", "7", "1.5", `"12"`, `"a"`, "[1]", "nil", "true", "-2.5"))
					}
				}
				c.Inputs = append(c.Inputs, fmt.Sprintf("println(h%d(%s))", p, strings.Join(args, ", ")))
			}
		}
		if err := check(c); err != nil {
			report(rt_, "library-args", c, err)
		}
		lbl := "library-args:other"
		if g.anyT {
			lbl = "library-args:any-typed"
		}
		pbt.Case(g.anyT, strings.Join(c.Inputs, "\n"), lbl)
		pbt.Sample("library-args", c.Inputs)
	})
}
