package c05

import "regexp"

// Known findings of C05 (listed in /verif/KNOWN_FINDINGS.txt). The register optimisation is observable in
// these classes by design of the optimisation; each is excluded from generation by construction while listed.
const (
	// A counted loop's variable (for i = n, for i = a:b) lives in a register: it is not bound after the loop and
	// an existing binding of that name is neither read nor overwritten; without registers the loop assigns the
	// ordinary variable, which stays (and clobbers an existing one).
	kLoopVarScope = "K-C05-1"
	// Assigning a non-integer to an integer parameter / loop variable fails with "register assignment of non
	// integer" only with registers.
	kParamRetype = "K-C05-2"
	// A function literal inside a counted loop that uses the loop variable fails with "for loop register ...
	// shouldn't be modified inside the loop" only with registers.
	kLoopVarCapture = "K-C05-3"
	// An upper-case (constant style) integer parameter or loop variable bypasses the constant check only with registers.
	kConstNames = "K-C05-4"
)

var loopVarName = regexp.MustCompile(`^(lv[0-9]+|kv[0-9]+|i|j|k|w|lv)$`) // (kvN: map loops, which run as counted loops when the generated operand turns out to be an integer at run time)

// ignoreGlobal: while K-C05-1 is listed, the loop variables themselves (fresh names lvN in generated programs,
// i j k w lv in the hand-written loop sessions) are left out of the comparison of final globals.
func ignoreGlobal(name string) bool {
	return loopVarName.MatchString(name)
}
