// C05 — integer registers are unobservable.
package c05

import (
	"encoding/json"
	"fmt"
	"os"
	"strings"
	"testing"
	"time"

	"pgregory.net/rapid"
	"verif/gen"
	"verif/pbt"
	"verif/sess"
)

func TestMain(m *testing.M) {
	sess.Init()
	pbt.Main(m, pbt.Meta{
		Property: "C05",
		Level:    "exploration",
		Rule: "typed-grammar programs and multi-input sessions run on two fresh interpreter states, registers enabled vs State.NoReg; oracle: per input the printed output, the echoed " +
			"result, error/no error, the panicked flag, and the final globals are identical. Generators are biased to functions with 0..12 parameters of mixed types called with integer and " +
			"non-integer arguments, parameter mutation (=, ++, --), closures and nested literals over parameters, counted loops nested up to depth 10, loop variables shadowing other bindings, every way " +
			"of leaving a loop (end, break, continue, return, error) and sessions of up to 40 top-level loops. Non-trivial: the register path is taken (a function called with an integer argument whose body uses it, or a " +
			"'for i = n' loop) AND one of: a non-normal loop exit, > 8 integer bindings in one environment, a nested function literal in a rewritten body, >= 9 loops in the session; distinct by program text. " +
			"Two families of sessions built from templates cover what leaves a register: (loop-value) nests of 1..4 counted loops, in functions of 3..12 parameters and at top level, left through 'return V' or ending with V as the " +
			"last body value where V is a loop variable as it is (or an expression over it), the function result / loop value then consumed by println, assignment, list, map, operator, call argument or the top-level echo; " +
			"(library-args) integer parameters and counted-loop variables as they are as arguments of library functions (int, min, max, json, json_go, sprintf, str, abs, sqrt, pow, round, catch, first), alone, nested, in " +
			"loop bounds, and as the left operand of an operator whose right operand writes the argument (=, ++, --). Non-trivial there: the leaving value is the bare loop variable / a bare variable reaches an ANY-typed argument.",
		Assumptions: []string{
			"type and info are never generated (excluded by the property); del(<integer parameter>) is documented as unsupported (tests/delete.gr) and not generated",
			"the wording of error messages is not compared, only their presence",
		},
	})
}

type Case struct {
	Inputs []string `json:"inputs"`
}

func check(c Case) error { return checkWith(c, true) }

// checkWith: exclude=false for replayed and regression cases, which are judged as they are.
func checkWith(c Case, exclude bool) error {
	pbt.InFlight("inflight", c)
	// depth and duration limits are safety nets only: generated programs terminate by construction
	a, ga, _ := sess.RunAll(sess.Config{MaxDepth: 2000, MaxDuration: 4 * time.Second}, []string{gen.TypedPrelude}, c.Inputs)
	b, gb, _ := sess.RunAll(sess.Config{NoReg: true, MaxDepth: 2000, MaxDuration: 4 * time.Second}, []string{gen.TypedPrelude}, c.Inputs)
	if exclude && pbt.KnownOpen(kParamRetype) {
		// K-C05-2 is recognised by its call site: the one place that raises this message. The generators steer
		// around it by the types they track, but what a name holds also depends on the order of calls (a function
		// re-typing a global). Everything up to the failing assignment is still compared.
		for i, r := range a {
			if !hasRetypeError(r) {
				continue
			}
			if d := sess.CompareRuns(c.Inputs[:i], a[:i], b[:i], "", "", "registers", "no registers", sess.DiffOptions{SkipGlobals: true}); d != "" {
				return fmt.Errorf("%s\nall inputs:\n%s", d, strings.Join(c.Inputs, "\n---\n"))
			}
			if !strings.HasPrefix(b[i].Out, r.Out) && !sess.TimedOut(b[i]) && !sess.MemoryRefused(b[i]) {
				return fmt.Errorf("input #%d %q prints\n  %q with registers (up to a non-integer assigned to an integer parameter) but\n  %q with no registers\nall inputs:\n%s",
					i, c.Inputs[i], r.Out, b[i].Out, strings.Join(c.Inputs, "\n---\n"))
			}
			pbt.Excluded(kParamRetype)
			return nil
		}
	}
	if d := sess.CompareRuns(c.Inputs, a, b, ga, gb, "registers", "no registers", sess.DiffOptions{IgnoreGlobal: ignoreGlobal}); d != "" {
		return fmt.Errorf("%s\nall inputs:\n%s", d, strings.Join(c.Inputs, "\n---\n"))
	}
	return nil
}

func hasRetypeError(r sess.Res) bool {
	for _, e := range r.Errs {
		if strings.Contains(e, "register assignment of non integer") {
			return true
		}
	}
	return false
}

type shape struct {
	regPath, abnormalExit, manyInts, nestedLit bool
	loops                                      int
}

func analyse(stmts []*gen.Node) shape {
	var sh shape
	var walk func(n *gen.Node, inCountedLoop bool, inFunc bool)
	walk = func(n *gen.Node, inLoop, inFunc bool) {
		if n == nil {
			return
		}
		switch n.K {
		case gen.KFor:
			sh.loops++
			c := n.Kids[0]
			counted := c.K == gen.KInt || (c.K == gen.KInfix && c.S == "=") || c.K == gen.KInfix && c.S == "%"
			if counted {
				sh.regPath = true
			}
			for _, b := range n.Body {
				walk(b, inLoop || counted, inFunc)
			}
			return
		case gen.KCtl:
			if inLoop {
				sh.abnormalExit = true
			}
		case gen.KReturn:
			if inLoop {
				sh.abnormalExit = true
			}
		case gen.KBuiltin:
			if n.S == "error" && inLoop {
				sh.abnormalExit = true
			}
		case gen.KFunc, gen.KLambda:
			if inLoop || inFunc {
				sh.nestedLit = true
			}
			if len(n.Params) > 8 {
				sh.manyInts = true
			}
			if len(n.Params) > 0 {
				sh.regPath = true
			}
			for _, b := range n.Body {
				walk(b, false, true)
			}
			return
		}
		for _, k := range n.Kids {
			walk(k, inLoop, inFunc)
		}
		for _, k := range n.Body {
			walk(k, inLoop, inFunc)
		}
		for _, k := range n.Else {
			walk(k, inLoop, inFunc)
		}
		walk(n.ElseIf, inLoop, inFunc)
	}
	for _, s := range stmts {
		walk(s, false, false)
	}
	return sh
}

func (s shape) nontrivial() bool {
	return s.regPath && (s.abnormalExit || s.manyInts || s.nestedLit || s.loops >= 9)
}

var explore = os.Getenv("VERIF_EXPLORE") != ""
var seen = map[string]bool{}

func report(t pbt.TB, kind string, c Case, err error) {
	if explore {
		msg := err.Error()
		key := msg
		if i := strings.Index(msg, "\nall inputs"); i >= 0 {
			key = msg[:i]
		}
		k2 := key
		if len(k2) > 60 {
			k2 = k2[:60]
		}
		if !seen[k2] {
			seen[k2] = true
			all := strings.Join(c.Inputs, " ;; ")
			if len(all) > 1500 {
				all = all[:1500] + "..."
			}
			fmt.Printf("EXPLORE %s: %s\n   INPUTS: %s\n", kind, strings.ReplaceAll(key, "\n", " | "), strings.ReplaceAll(all, "\n", " ; "))
		}
		return
	}
	pbt.Fail(t, kind, c, "%v", err)
}

func cfgFor(rt_ *rapid.T) gen.TCfg {
	return gen.TCfg{
		MaxDepth: 3, MaxStmts: 4, MaxBlockDepth: 3,
		MaxParams:    rapid.SampledFrom([]int{2, 3, 5, 9, 12}).Draw(rt_, "maxparams"),
		MaxLoopDepth: rapid.SampledFrom([]int{2, 3, 10}).Draw(rt_, "maxloops"),
		Floats:       true, Containers: true, Errors: true, Closures: true, Recursion: true, PrintEvery: true,
		UpperNames: !pbt.KnownOpen(kConstNames), ShadowNames: true, BoundaryInts: true, Variadics: true, IncrDecr: true,
		FreshLoopVars:    pbt.KnownOpen(kLoopVarScope) || pbt.KnownOpen(kConstNames),
		NoLoopVarCapture: pbt.KnownOpen(kLoopVarCapture),
		PureParamAssign:  pbt.KnownOpen(kParamRetype),
	}
}

func TestPrograms(t *testing.T) {
	pbt.Check(t, 3000, 400000, func(rt_ *rapid.T) {
		g := gen.NewTGen(rt_, cfgFor(rt_))
		stmts := g.Program(3, 10)
		var c Case
		if rapid.Bool().Draw(rt_, "split") {
			for _, s := range stmts {
				c.Inputs = append(c.Inputs, gen.Print([]*gen.Node{s}, gen.PrintOptions{}))
			}
		} else {
			c.Inputs = []string{gen.Print(stmts, gen.PrintOptions{})}
		}
		if err := check(c); err != nil {
			report(rt_, "program", c, err)
		}
		sh := analyse(stmts)
		lbl := "program:plain"
		if sh.nontrivial() {
			lbl = "program:register-path+stress"
		}
		if sh.abnormalExit {
			pbt.Label("program:abnormal-loop-exit")
		}
		if sh.nestedLit {
			pbt.Label("program:nested-literal")
		}
		pbt.Case(sh.nontrivial(), strings.Join(c.Inputs, "\n"), lbl)
		pbt.Sample("program", c.Inputs)
	})
}

// sessions of many top-level loops, each left in a drawn way
func TestManyLoops(t *testing.T) {
	exits := []string{
		"for %s = %d { %s }",
		"for %s = %d { if %s == 1 { break }; println(%s) }",
		"for %s = %d { if %s == 0 { continue }; println(%s) }",
		"println(catch(func(){ for %s = %d { if %s == 1 { error(\"stop\") } } }()).err)",
		"func early%d() { for %s = %d { if %s == 1 { return %s * 10 } } }; println(early%d())",
		"for %s = 1:%d { println(%s) }",
		"for %d { println(\"tick\") }",
		"for %s = %d { error(\"top level error\") }",
		// an inner loop left through an error that is caught while the outer loop (same environment) goes on
		"for %s = %d { println(catch(for lv = 3 { if lv == 1 { error(\"inner\") } }).err, %s) }",
		"for %s = %d { r = catch(for lv = 1:4 { for lv2 = 2 { if lv2 == 1 { error(\"inner\", lv) } } }); println(r.err) }",
	}
	pbt.Check(t, 600, 60000, func(rt_ *rapid.T) {
		n := rapid.IntRange(3, 40).Draw(rt_, "nloops")
		var c Case
		for i := 0; i < n; i++ {
			v := rapid.SampledFrom([]string{"i", "j", "k", "w"}).Draw(rt_, "var")
			cnt := rapid.IntRange(0, 4).Draw(rt_, "count")
			switch e := rapid.IntRange(0, len(exits)-1).Draw(rt_, "exit"); e {
			case 0:
				c.Inputs = append(c.Inputs, fmt.Sprintf(exits[0], v, cnt, "println("+v+")"))
			case 1, 2:
				c.Inputs = append(c.Inputs, fmt.Sprintf(exits[e], v, cnt, v, v))
			case 3:
				c.Inputs = append(c.Inputs, fmt.Sprintf(exits[3], v, cnt, v))
			case 4:
				c.Inputs = append(c.Inputs, fmt.Sprintf(exits[4], i, v, cnt, v, v, i))
			case 5:
				c.Inputs = append(c.Inputs, fmt.Sprintf(exits[5], v, cnt+1, v))
			case 6:
				c.Inputs = append(c.Inputs, fmt.Sprintf(exits[6], cnt))
			case 7:
				c.Inputs = append(c.Inputs, fmt.Sprintf(exits[7], v, cnt))
			case 8:
				c.Inputs = append(c.Inputs, fmt.Sprintf(exits[8], v, cnt, v))
			default:
				c.Inputs = append(c.Inputs, fmt.Sprintf(exits[9], v, cnt))
			}
		}
		if !pbt.KnownOpen(kLoopVarScope) {
			c.Inputs = append(c.Inputs, "println(i, j, k, w)")
		}
		if err := check(c); err != nil {
			report(rt_, "many-loops", c, err)
		}
		pbt.Case(n >= 9, strings.Join(c.Inputs, "\n"), "many-loops")
		pbt.Sample("many-loops", c.Inputs[:3])
	})
}

// functions of 0..12 parameters of mixed types, called with integer and non-integer arguments, with bodies that mutate them
func TestManyParams(t *testing.T) {
	pbt.Check(t, 1200, 100000, func(rt_ *rapid.T) {
		np := rapid.IntRange(0, 12).Draw(rt_, "np")
		var params, uses []string
		for i := 0; i < np; i++ {
			params = append(params, fmt.Sprintf("p%d", i))
		}
		var body []string
		nst := rapid.IntRange(1, 6).Draw(rt_, "nstmts")
		for i := 0; i < nst && np > 0; i++ {
			p := params[rapid.IntRange(0, np-1).Draw(rt_, "p")]
			q := params[rapid.IntRange(0, np-1).Draw(rt_, "q")]
			switch rapid.IntRange(0, 9).Draw(rt_, "form") {
			case 0:
				body = append(body, p+" = "+p+" + 1")
			case 1:
				body = append(body, p+"++")
			case 2:
				body = append(body, "println(++"+p+")")
			case 3:
				body = append(body, p+"--")
			case 4:
				body = append(body, "println("+p+", "+q+")")
			case 5:
				body = append(body, fmt.Sprintf("for lv = %d { %s = %s + lv }", rapid.IntRange(0, 3).Draw(rt_, "cnt"), p, p))
			case 6:
				body = append(body, "inner = func() { "+p+" }; println(inner())")
			case 7:
				body = append(body, "println((x => x + "+p+")(1))")
			case 8:
				if pbt.KnownOpen(kParamRetype) {
					pbt.Excluded(kParamRetype)
					body = append(body, p+" = 7")
				} else {
					body = append(body, p+" = \"s\"")
				}
			default:
				body = append(body, "if "+p+" == "+q+" { println(\"eq\") }")
			}
			uses = append(uses, p)
		}
		body = append(body, "["+strings.Join(params, ", ")+"]")
		def := "func many(" + strings.Join(params, ", ") + ") {\n" + strings.Join(body, "\n") + "\n}"
		c := Case{Inputs: []string{def}}
		allInts := rapid.Bool().Draw(rt_, "allints") // every parameter then wants a register (there are 8 per environment)
		for k := 0; k < 3; k++ {
			var args []string
			for i := 0; i < np; i++ {
				if allInts {
					args = append(args, rapid.SampledFrom([]string{"1", "2", "0", "-1", "7", "9223372036854775807"}).Draw(rt_, "intarg"))
					continue
				}
				args = append(args, rapid.SampledFrom([]string{"1", "2", "0", "-1", "1.5", `"a"`, "[1]", "nil", "true", "9223372036854775807"}).Draw(rt_, "arg"))
			}
			c.Inputs = append(c.Inputs, "println(many("+strings.Join(args, ", ")+"))")
		}
		if err := check(c); err != nil {
			report(rt_, "many-params", c, err)
		}
		pbt.Case(np > 0, strings.Join(c.Inputs, "\n"), fmt.Sprintf("many-params:%d", np/3*3))
		pbt.Sample("many-params", c.Inputs)
	})
}

func oracle(kind string, raw json.RawMessage) error {
	var c Case
	if err := json.Unmarshal(raw, &c); err != nil {
		return err
	}
	return checkWith(c, false)
}

func TestReplay(t *testing.T)   { pbt.RunReplay(t, oracle) }
func TestARegress(t *testing.T) { pbt.RunRegress(t, "C05", oracle) }
