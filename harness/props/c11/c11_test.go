// C11 — maps behave as finite maps in key order, whatever their history.
package c11

import (
	"encoding/json"
	"fmt"
	"strings"
	"testing"

	"grol.io/grol/object"
	"pgregory.net/rapid"
	"verif/gv"
	"verif/pbt"
	"verif/sess"
	"verif/val"
)

func TestMain(m *testing.M) {
	sess.Init()
	pbt.Main(m, pbt.Meta{
		Property: "C11",
		Level:    "exploration",
		Rule: "object.Map operation sequences (Set, Delete, Rest, First, Range, Append, Get, Len, Inspect, Equals/Cmp) and the same operations through grol " +
			"source on one variable (m[k]=v, del(m[k]), m=m+{..}, m=rest(m), m=m[l:r], first(m), len(m), m[k], m==n, for kv=m, literals with duplicate keys), " +
			"each observation compared with a sorted association-list model (package val). Enumerated completely: breadth-first exploration of every reachable " +
			"(model contents x internal representation) state over a 7-key universe of mixed types (incl. the equivalent keys 2 and 2.0) and 2 values, every operation " +
			"applied in every state (states/transitions in coverage). Plus rapid sequences of 10..60 source operations over a 45-key universe. Non-trivial: the sequence crosses " +
			"the 4-pair threshold (grows past it or shrinks back below it); enumeration transitions are distinct by construction, random sequences by their text.",
		Assumptions: []string{
			"handles are used linearly at API level (a large map is mutated in place by Set/Delete; aliasing is C06's subject): every expansion rebuilds its state from the empty map",
			"range bounds are generated within [-len, len]; out-of-range bounds are C07's subject",
			"when an existing key is set again through an order-equivalent key (2 vs 2.0) the stored key is the one inserted first",
		},
		Exhaustive:      true,
		ExhaustiveBound: "all reachable states of maps over 7 keys {1, 2|2.0, 0.5, \"a\", true, nil, [1]} x 2 values, all operations from every state",
	})
}

// ---- exhaustive exploration at API level -----------------------------------------------------

var keyTokens = []val.V{val.I(1), val.I(2), val.F(2.0), val.F(0.5), val.S("a"), val.B(true), val.N(), val.A(val.I(1))}
var valTokens = []val.V{val.I(0), val.S("x")}

type Op struct {
	Kind string `json:"op"` // set del rest range append rappend
	K    int    `json:"k,omitempty"`
	V    int    `json:"v,omitempty"`
	L    int    `json:"l,omitempty"`
	R    int    `json:"r,omitempty"`
	P    int    `json:"p,omitempty"` // pool index for append
}

func (o Op) String() string {
	switch o.Kind {
	case "set":
		return fmt.Sprintf("Set(%s,%s)", keyTokens[o.K].Show(), valTokens[o.V].Show())
	case "del":
		return fmt.Sprintf("Delete(%s)", keyTokens[o.K].Show())
	case "rest":
		return "Rest()"
	case "range":
		return fmt.Sprintf("Range(%d,%d)", o.L, o.R)
	case "append":
		return fmt.Sprintf("Append(%s)", pool[o.P].Show())
	case "rappend":
		return fmt.Sprintf("%s.Append(this)", pool[o.P].Show())
	}
	return o.Kind
}

func kv(k, v val.V) val.KV { return val.KV{K: k, V: v} }

// pool of merge operands (both representations, overlapping and disjoint keys).
var pool = []val.V{
	val.M(),
	val.M(kv(val.I(1), val.S("x"))),
	val.M(kv(val.F(2.0), val.S("x"))),
	val.M(kv(val.I(2), val.I(0))),
	val.M(kv(val.S("a"), val.I(0)), kv(val.N(), val.I(0))),
	val.M(kv(val.I(1), val.I(0)), kv(val.F(0.5), val.I(0)), kv(val.S("a"), val.S("x")), kv(val.B(true), val.I(0))),
	val.M(kv(val.I(1), val.S("x")), kv(val.I(2), val.S("x")), kv(val.F(0.5), val.S("x")), kv(val.S("a"), val.S("x")), kv(val.N(), val.S("x"))),
	val.M(kv(val.I(1), val.I(0)), kv(val.F(2.0), val.I(0)), kv(val.F(0.5), val.I(0)), kv(val.S("a"), val.I(0)), kv(val.B(true), val.I(0)), kv(val.N(), val.I(0)), kv(val.A(val.I(1)), val.I(0))),
	val.M(kv(val.A(val.I(1)), val.S("x")), kv(val.B(true), val.S("x"))),
}

type ApiCase struct {
	Path []Op `json:"path"`
	Last *Op  `json:"last,omitempty"`
}

// applyModel returns the model after op; ok=false when the op does not apply (range out of bounds).
func applyModel(m val.V, o Op) (val.V, bool) {
	switch o.Kind {
	case "set":
		return m.Set(keyTokens[o.K], valTokens[o.V]), true
	case "del":
		r, _ := m.Del(keyTokens[o.K])
		return r, true
	case "rest":
		r := m.MapRest()
		if r.K == val.Nil {
			return val.M(), true // Rest of a map with <=1 pair is nil; the exploration continues from the empty map
		}
		return r, true
	case "range":
		if o.L < 0 || o.R > len(m.M) || o.L > o.R {
			return m, false
		}
		return m.MapRange(o.L, o.R), true
	case "append":
		return m.Merge(pool[o.P]), true
	case "rappend":
		return pool[o.P].Merge(m), true
	}
	return m, false
}

func applyImpl(m object.Map, o Op) (res object.Map, err error) {
	defer func() {
		if r := recover(); r != nil {
			err = fmt.Errorf("%s panicked: %v", o, r)
		}
	}()
	switch o.Kind {
	case "set":
		return m.Set(gv.ToObject(keyTokens[o.K]), gv.ToObject(valTokens[o.V])), nil
	case "del":
		r, _ := m.Delete(gv.ToObject(keyTokens[o.K]))
		return r, nil
	case "rest":
		r := m.Rest()
		if r.Type() == object.NIL {
			if m.Len() > 1 {
				return nil, fmt.Errorf("Rest() of a %d-pair map is nil", m.Len())
			}
			return object.NewMap(), nil
		}
		rm, ok := r.(object.Map)
		if !ok {
			return nil, fmt.Errorf("Rest() returned %T", r)
		}
		if m.Len() <= 1 {
			return nil, fmt.Errorf("Rest() of a %d-pair map is %s, not nil (it is nil for the other representation)", m.Len(), r.Inspect())
		}
		return rm, nil
	case "range":
		r := object.Range(m, int64(o.L), int64(o.R))
		rm, ok := r.(object.Map)
		if !ok {
			return nil, fmt.Errorf("Range(%d,%d) returned %T %s", o.L, o.R, r, r.Inspect())
		}
		return rm, nil
	case "append":
		return m.Append(gv.ToObject(pool[o.P]).(object.Map)), nil
	case "rappend":
		return gv.ToObject(pool[o.P]).(object.Map).Append(m), nil
	}
	return nil, fmt.Errorf("unknown op %v", o)
}

// observe compares everything observable about impl with the model.
func observe(impl object.Map, model val.V, deep bool) (err error) {
	defer func() {
		if r := recover(); r != nil {
			err = fmt.Errorf("observation panicked: %v", r)
		}
	}()
	if impl.Len() != len(model.M) {
		return fmt.Errorf("Len() = %d, model has %d pairs (%s vs %s)", impl.Len(), len(model.M), impl.Inspect(), model.Inspect())
	}
	if got, want := impl.Inspect(), model.Inspect(); got != want {
		return fmt.Errorf("Inspect() = %s, model says %s", got, want)
	}
	got, cerr := gv.FromObject(impl)
	if cerr != nil {
		return fmt.Errorf("iteration (first/rest): %v", cerr)
	}
	if !val.Identical(got, model) {
		return fmt.Errorf("iterating with first/rest gives %s, model says %s", got.Show(), model.Show())
	}
	f, _ := gv.FromObject(impl.First())
	if !val.Identical(f, model.MapFirst()) {
		return fmt.Errorf("First() = %s, model says %s", f.Show(), model.MapFirst().Show())
	}
	for _, k := range append(append([]val.V{}, keyTokens...), val.I(3), val.S("zz")) {
		gv1, gok := impl.Get(gv.ToObject(k))
		mv, mok := model.Get(k)
		if gok != mok {
			return fmt.Errorf("Get(%s) found=%v, model says %v (map %s)", k.Show(), gok, mok, model.Inspect())
		}
		if gok {
			if g, _ := gv.FromObject(gv1); !val.Identical(g, mv) {
				return fmt.Errorf("Get(%s) = %s, model says %s", k.Show(), g.Show(), mv.Show())
			}
		}
	}
	if !deep {
		return nil
	}
	// equality and order against the pool and against an independently built equal map
	twin := gv.ToObject(model)
	if !object.Equals(impl, twin) || !object.Equals(twin, impl) || object.Cmp(impl, twin) != 0 {
		return fmt.Errorf("map %s is not equal to a freshly built map with the same pairs", impl.Inspect())
	}
	for _, p := range pool {
		po := gv.ToObject(p)
		if got, want := object.Equals(impl, po), val.Equal(model, p); got != want {
			return fmt.Errorf("Equals(%s, %s) = %v, model says %v", impl.Inspect(), p.Inspect(), got, want)
		}
		if got, want := object.Cmp(impl, po), val.Cmp(model, p); sgn(got) != want {
			return fmt.Errorf("Cmp(%s, %s) = %d, model says %d", impl.Inspect(), p.Inspect(), got, want)
		}
	}
	return nil
}

func sgn(i int) int {
	switch {
	case i < 0:
		return -1
	case i > 0:
		return 1
	}
	return 0
}

func rebuild(path []Op) (object.Map, val.V, error) {
	var impl object.Map = object.NewMap()
	model := val.M()
	for _, o := range path {
		var err error
		impl, err = applyImpl(impl, o)
		if err != nil {
			return nil, model, err
		}
		model, _ = applyModel(model, o)
	}
	return impl, model, nil
}

func allOps(n int) []Op {
	var ops []Op
	for k := range keyTokens {
		for v := range valTokens {
			ops = append(ops, Op{Kind: "set", K: k, V: v})
		}
		ops = append(ops, Op{Kind: "del", K: k})
	}
	ops = append(ops, Op{Kind: "rest"})
	for l := 0; l <= n; l++ {
		for r := l; r <= n; r++ {
			ops = append(ops, Op{Kind: "range", L: l, R: r})
		}
	}
	for p := range pool {
		ops = append(ops, Op{Kind: "append", P: p}, Op{Kind: "rappend", P: p})
	}
	return ops
}

func checkAPI(c ApiCase) error {
	impl, model, err := rebuild(c.Path)
	if err != nil {
		return fmt.Errorf("path %v: %v", c.Path, err)
	}
	if err := observe(impl, model, true); err != nil {
		return fmt.Errorf("after %v: %v", c.Path, err)
	}
	if c.Last != nil {
		before := model.Copy()
		next, err := applyImpl(impl, *c.Last)
		if err != nil {
			return fmt.Errorf("after %v: %v", c.Path, err)
		}
		nm, ok := applyModel(model, *c.Last)
		if !ok {
			return nil
		}
		if err := observe(next, nm, true); err != nil {
			return fmt.Errorf("after %v then %s: %v", c.Path, *c.Last, err)
		}
		switch c.Last.Kind {
		case "append", "rappend", "rest", "range":
			// these build new maps: the receiver must still be what it was
			if err := observe(impl, before, false); err != nil {
				return fmt.Errorf("after %v, %s modified its receiver: %v", c.Path, *c.Last, err)
			}
		}
	}
	return nil
}

func TestExhaustiveStates(t *testing.T) {
	seen := map[string]bool{}
	var queue [][]Op
	seen["{}|"+fmt.Sprintf("%T", object.NewMap())] = true
	queue = append(queue, nil)
	states, transitions := 0, 0
	for len(queue) > 0 {
		path := queue[0]
		queue = queue[1:]
		states++
		mine := pbt.Mine(states)
		_, model0, err := rebuild(path)
		if err != nil {
			pbt.Fail(t, "api", ApiCase{Path: path}, "%v", err)
		}
		for _, op := range allOps(len(model0.M)) {
			op := op
			impl, model, _ := rebuild(path)
			nm, ok := applyModel(model, op)
			if !ok {
				continue
			}
			next, err := applyImpl(impl, op)
			if err != nil {
				pbt.Fail(t, "api", ApiCase{Path: path, Last: &op}, "after %v: %v", path, err)
			}
			transitions++
			if mine {
				if err := checkAPI(ApiCase{Path: path, Last: &op}); err != nil {
					pbt.Fail(t, "api", ApiCase{Path: path, Last: &op}, "%v", err)
				}
				crosses := (len(model.M) <= 4) != (len(nm.M) <= 4)
				lbl := "api-transition"
				if crosses {
					lbl = "api-transition-crossing-threshold"
				}
				pbt.CaseExact(true, lbl)
			} else if err := observe(next, nm, false); err != nil {
				pbt.Fail(t, "api", ApiCase{Path: path, Last: &op}, "after %v then %s: %v", path, op, err)
			}
			key := nm.Inspect() + "|" + fmt.Sprintf("%T", next)
			if !seen[key] {
				seen[key] = true
				queue = append(queue, append(append([]Op{}, path...), op))
			}
		}
	}
	pbt.Extra("states", float64(states))
	pbt.Extra("transitions", float64(transitions))
	pbt.Sample("api", fmt.Sprintf("breadth-first exploration: %d states (contents x representation), %d transitions; e.g. path [Set(1,0) Set(2,0) Set(0.5,0) Set(\"a\",0) Set(true,0)] then Delete(2)", states, transitions))
}

// ---- random sequences through grol source over a larger universe ------------------------------------

var srcKeys = func() []val.V {
	ks := []val.V{}
	for i := -3; i <= 12; i++ {
		ks = append(ks, val.I(int64(i)))
	}
	for i := -2; i <= 8; i++ {
		ks = append(ks, val.F(float64(i)/2))
	}
	ks = append(ks, val.S(""), val.S("a"), val.S("b"), val.S("ab"), val.S("\xff"), val.B(true), val.B(false), val.N(),
		val.A(), val.A(val.I(1)), val.A(val.I(1), val.I(2)), val.I(1<<53), val.F(1<<53), val.I(1<<53+1),
		val.M(), val.M(kv(val.I(1), val.I(1))))
	return ks
}()

var srcVals = []val.V{val.I(0), val.I(1), val.I(2), val.I(3), val.S("x"), val.N(), val.B(true), val.F(1.5), val.A(val.I(1)), val.M(kv(val.S("k"), val.I(1)))}

// SOp is one source-level step on variable m.
type SOp struct {
	Kind  string   `json:"op"` // lit set del merge rmerge rest range rangeopen firstlen iter eqrev
	Pairs [][2]int `json:"pairs,omitempty"`
	K     int      `json:"k,omitempty"`
	V     int      `json:"v,omitempty"`
	L     int      `json:"l,omitempty"`
	R     int      `json:"r,omitempty"`
	Probe int      `json:"probe"`
}

type SrcCase struct {
	Ops []SOp `json:"ops"`
}

func litOf(pairs [][2]int) (string, val.V) {
	m := val.M()
	var ps []string
	for _, p := range pairs {
		k, v := srcKeys[p[0]], srcVals[p[1]]
		ps = append(ps, k.Src()+":"+v.Src())
		m = m.Set(k, v)
	}
	return "{" + strings.Join(ps, ", ") + "}", m
}

func printed(v val.V) string {
	if v.K == val.Str {
		return v.S
	}
	return v.Inspect()
}

// checkSrc runs the steps on a fresh session and on the model. It returns whether the threshold
// was crossed, the statements executed, and the first disagreement.
func checkSrc(c SrcCase) (crossed bool, stmts []string, err error) {
	s := sess.New(sess.Config{})
	model := val.M()
	isNil := false
	run := func(src string) (sess.Res, error) {
		stmts = append(stmts, src)
		r := s.Run(src)
		if r.Failed() {
			return r, fmt.Errorf("statement %q failed: %v (panicked=%v)\nstatements so far:\n%s", src, r.Errs, r.Panicked, strings.Join(stmts, "\n"))
		}
		return r, nil
	}
	fail := func(format string, args ...any) error {
		return fmt.Errorf(format+"\nstatements so far:\n%s", append(args, strings.Join(stmts, "\n"))...)
	}
	if _, err := run("m = {}"); err != nil {
		return false, stmts, err
	}
	for _, op := range c.Ops {
		before := len(model.M)
		if isNil && op.Kind != "lit" {
			if _, err := run("m = {}"); err != nil {
				return crossed, stmts, err
			}
			isNil = false
		}
		switch op.Kind {
		case "lit":
			src, m := litOf(op.Pairs)
			if _, err := run("m = " + src); err != nil {
				return crossed, stmts, err
			}
			model = m
			isNil = false
		case "set":
			k, v := srcKeys[op.K], srcVals[op.V]
			if _, err := run(fmt.Sprintf("m[%s] = %s", k.Src(), v.Src())); err != nil {
				return crossed, stmts, err
			}
			model = model.Set(k, v)
		case "del":
			k := srcKeys[op.K]
			if op.L > 0 && len(model.M) > 0 { // delete an existing key
				k = model.M[op.L%len(model.M)].K
			}
			r, err := run(fmt.Sprintf("println(del(m[%s]))", k.Src()))
			if err != nil {
				return crossed, stmts, err
			}
			var found bool
			model, found = model.Del(k)
			if want := fmt.Sprintf("%v\n", found); r.Out != want {
				return crossed, stmts, fail("del printed %q, model says %q", r.Out, want)
			}
		case "merge", "rmerge":
			src, other := litOf(op.Pairs)
			if _, err := run("n = " + src); err != nil {
				return crossed, stmts, err
			}
			if op.Kind == "merge" {
				if _, err := run("m = m + n"); err != nil {
					return crossed, stmts, err
				}
				model = model.Merge(other)
			} else {
				if _, err := run("m = n + m"); err != nil {
					return crossed, stmts, err
				}
				model = other.Merge(model)
			}
			r, err := run("println(n)")
			if err != nil {
				return crossed, stmts, err
			}
			if r.Out != other.Inspect()+"\n" {
				return crossed, stmts, fail("merge operand n changed: prints %q, expected %s", r.Out, other.Inspect())
			}
		case "rest":
			if _, err := run("m = rest(m)"); err != nil {
				return crossed, stmts, err
			}
			model = model.MapRest()
			if model.K == val.Nil {
				isNil = true
				model = val.M()
				r, err := run("println(m)")
				if err != nil {
					return crossed, stmts, err
				}
				if r.Out != "nil\n" {
					return crossed, stmts, fail("rest of a map with <=1 pair printed %q, expected nil", r.Out)
				}
				continue
			}
		case "range", "rangeopen":
			n := len(model.M)
			l, r := op.L, op.R
			if n == 0 {
				l, r = 0, 0
			} else {
				l = l%(2*n+1) - n
				r = r%(2*n+1) - n
			}
			ll, rr := l, r
			if ll < 0 {
				ll += n
			}
			if rr < 0 {
				rr += n
			}
			if op.Kind == "rangeopen" {
				rr = n
			}
			if ll > rr {
				continue
			}
			src := fmt.Sprintf("m = m[%d:%d]", l, r)
			if op.Kind == "rangeopen" {
				src = fmt.Sprintf("m = m[%d:]", l)
			}
			if _, err := run(src); err != nil {
				return crossed, stmts, err
			}
			model = model.MapRange(ll, rr)
		case "firstlen":
			r, err := run("println(first(m), len(m))")
			if err != nil {
				return crossed, stmts, err
			}
			if want := model.MapFirst().Inspect() + " " + fmt.Sprint(len(model.M)) + "\n"; r.Out != want {
				return crossed, stmts, fail("first/len printed %q, model says %q", r.Out, want)
			}
		case "iter":
			r, err := run("for kv = m { print(kv.key, kv.value, \";\") }")
			if err != nil {
				return crossed, stmts, err
			}
			var sb strings.Builder
			for _, p := range model.M {
				sb.WriteString(printed(p.K) + " " + printed(p.V) + " ;")
			}
			if r.Out != sb.String() {
				return crossed, stmts, fail("iteration printed %q, model says %q", r.Out, sb.String())
			}
		case "eqrev":
			var ps []string
			for j := len(model.M) - 1; j >= 0; j-- {
				ps = append(ps, model.M[j].K.Src()+":"+model.M[j].V.Src())
			}
			r, err := run("println(m == {" + strings.Join(ps, ", ") + "})")
			if err != nil {
				return crossed, stmts, err
			}
			if r.Out != "true\n" {
				return crossed, stmts, fail("map is not == to a literal with the same pairs in reverse order: %q", r.Out)
			}
		}
		if (before <= 4) != (len(model.M) <= 4) {
			crossed = true
		}
		// observe m after every statement
		o, oerr := s.Obj("m")
		if oerr != nil {
			return crossed, stmts, fail("cannot read m: %v", oerr)
		}
		got, gerr := gv.FromObject(o)
		if gerr != nil {
			return crossed, stmts, fail("m is not data: %v", gerr)
		}
		if !val.Identical(got, model) {
			return crossed, stmts, fail("m = %s, model says %s", got.Show(), model.Show())
		}
		if o.Inspect() != model.Inspect() {
			return crossed, stmts, fail("m prints %s, model says %s", o.Inspect(), model.Inspect())
		}
		k := srcKeys[op.Probe%len(srcKeys)]
		probe := fmt.Sprintf("println(m[%s])", k.Src())
		r := s.Run(probe)
		want, _ := model.Get(k)
		if r.Failed() || r.Out != printed(want)+"\n" {
			stmts = append(stmts, probe)
			return crossed, stmts, fail("lookup m[%s] printed %q (%v), model says %q", k.Src(), r.Out, r.Errs, printed(want))
		}
	}
	return crossed, stmts, nil
}

func genPairs(maxN int) *rapid.Generator[[][2]int] {
	return rapid.SliceOfN(rapid.Custom(func(t *rapid.T) [2]int {
		return [2]int{rapid.IntRange(0, len(srcKeys)-1).Draw(t, "k"), rapid.IntRange(0, len(srcVals)-1).Draw(t, "v")}
	}), 0, maxN)
}

func TestRandomSource(t *testing.T) {
	kinds := []string{"set", "set", "set", "del", "merge", "rmerge", "rest", "range", "rangeopen", "firstlen", "iter", "eqrev", "lit"}
	pbt.Check(t, 1500, 60000, func(rt *rapid.T) {
		var c SrcCase
		c.Ops = append(c.Ops, SOp{Kind: "lit", Pairs: genPairs(8).Draw(rt, "init")})
		n := rapid.IntRange(10, 60).Draw(rt, "steps")
		for i := 0; i < n; i++ {
			op := SOp{Kind: rapid.SampledFrom(kinds).Draw(rt, "kind"), Probe: rapid.IntRange(0, len(srcKeys)-1).Draw(rt, "probe")}
			switch op.Kind {
			case "set":
				op.K = rapid.IntRange(0, len(srcKeys)-1).Draw(rt, "k")
				op.V = rapid.IntRange(0, len(srcVals)-1).Draw(rt, "v")
			case "del":
				op.K = rapid.IntRange(0, len(srcKeys)-1).Draw(rt, "k")
				op.L = rapid.IntRange(0, 20).Draw(rt, "existing")
			case "merge", "rmerge", "lit":
				op.Pairs = genPairs(7).Draw(rt, "pairs")
			case "range", "rangeopen":
				op.L = rapid.IntRange(0, 40).Draw(rt, "l")
				op.R = rapid.IntRange(0, 40).Draw(rt, "r")
			}
			c.Ops = append(c.Ops, op)
		}
		crossed, stmts, err := checkSrc(c)
		if err != nil {
			pbt.Fail(rt, "source", c, "%v", err)
		}
		lbl := "source:stays-on-one-side"
		if crossed {
			lbl = "source:crosses-threshold"
		}
		pbt.Case(crossed, strings.Join(stmts, "\n"), lbl)
		pbt.Sample("source", stmts)
	})
}

func oracle(kind string, raw json.RawMessage) error {
	if kind == "source" {
		var c SrcCase
		if err := json.Unmarshal(raw, &c); err != nil {
			return err
		}
		_, _, err := checkSrc(c)
		return err
	}
	var c ApiCase
	if err := json.Unmarshal(raw, &c); err != nil {
		return err
	}
	return checkAPI(c)
}

func TestReplay(t *testing.T)   { pbt.RunReplay(t, oracle) }
func TestARegress(t *testing.T) { pbt.RunRegress(t, "C11", oracle) }
