// C16 — the lexer is lossless: tokens tile the input.
package c16

import (
	"encoding/json"
	"fmt"
	"strings"
	"testing"

	"grol.io/grol/lexer"
	"grol.io/grol/token"
	"pgregory.net/rapid"
	"verif/pbt"
)

func TestMain(m *testing.M) {
	pbt.Main(m, pbt.Meta{
		Property: "C16",
		Level:    "exploration",
		Rule: "byte strings lexed in file mode and line mode with Lexer.Pos() read around every NextToken; oracle: the token spans tile the input " +
			"(only whitespace between spans), literal == spanned bytes for identifiers/numbers/operators/illegal bytes, strings span quote..same quote with " +
			"independently decoded content, comments span their text, an end marker arrives within n+1 tokens and repeats, equal (type,literal) => same pointer, " +
			"keywords never lex as IDENT. Enumerated completely: every string up to the tier's length over a 36-byte alphabet; plus rapid strings of glued " +
			"token fragments / malformed numbers up to 200 bytes. Non-trivial: input yields >=2 tokens or takes a number/string/comment path; enumeration cases are distinct by construction, random ones by bytes.",
		Assumptions: []string{
			"a NUL byte inside the input is the lexer's in-band end sentinel: it is checked as a one-byte end-marker token (tiling applies to it); 'keeps returning the end marker' is checked from the point where the input is exhausted",
			"an unterminated string or a string cut by NUL is delivered as the end marker and spans the rest it consumed; the content of strings with malformed \\x/\\u/\\U escapes is not compared (only their span)",
		},
		Exhaustive:      true,
		ExhaustiveBound: "all byte strings of length <= 4 (quick) / <= 5 (thorough) over the 36-byte alphabet, both lexer modes",
	})
}

var alphabet = []byte{
	'0', '1', '9', 'a', 'e', 'E', 'x', 'b', 'f', '_', '.', '+', '-', '"', '`', '\\', '/', '*', '=', '!', ':',
	'<', '>', '&', '|', '(', '{', '[', ',', ';', '%', '^', '~', '@', ' ', '\t', '\n', 0x00, 0xff,
}

var keywordSpellings = []string{
	"func", "true", "false", "if", "else", "return", "for", "break", "continue", "macro", "quote", "unquote",
	"len", "first", "rest", "print", "println", "log", "error", "catch", "del",
}

var isKeyword = func() map[string]bool {
	m := map[string]bool{}
	for _, k := range keywordSpellings {
		m[k] = true
	}
	return m
}()

type Case struct {
	Input    []byte `json:"input"`
	LineMode bool   `json:"line_mode"`
}

func isWS(b byte) bool { return b == ' ' || b == '\t' || b == '\n' || b == '\r' }

func isHex(b byte) bool {
	return b >= '0' && b <= '9' || b >= 'a' && b <= 'f' || b >= 'A' && b <= 'F'
}

func hexVal(b byte) int {
	switch {
	case b >= '0' && b <= '9':
		return int(b - '0')
	case b >= 'a' && b <= 'f':
		return int(b-'a') + 10
	default:
		return int(b-'A') + 10
	}
}

// decode is the harness's own reading of the documented string syntax. ok=false: an escape is
// malformed (content then not compared).
func decode(body []byte, raw bool) (string, bool) {
	if raw {
		return string(body), true
	}
	var sb strings.Builder
	for i := 0; i < len(body); i++ {
		c := body[i]
		if c != '\\' {
			sb.WriteByte(c)
			continue
		}
		i++
		if i >= len(body) {
			return "", false
		}
		switch body[i] {
		case 'n':
			sb.WriteByte('\n')
		case 'r':
			sb.WriteByte('\r')
		case 't':
			sb.WriteByte('\t')
		case 'a':
			sb.WriteByte('\a')
		case 'b':
			sb.WriteByte('\b')
		case 'f':
			sb.WriteByte('\f')
		case 'v':
			sb.WriteByte('\v')
		case 'x', 'u', 'U':
			n := map[byte]int{'x': 2, 'u': 4, 'U': 8}[body[i]]
			if i+n >= len(body) {
				return "", false
			}
			v := 0
			for k := 1; k <= n; k++ {
				if !isHex(body[i+k]) {
					return "", false
				}
				v = v<<4 | hexVal(body[i+k])
			}
			if n == 2 {
				sb.WriteByte(byte(v))
			} else {
				sb.WriteRune(rune(v))
			}
			i += n
		default:
			sb.WriteByte(body[i])
		}
	}
	return sb.String(), true
}

type tokKey struct {
	t token.Type
	l string
}

var seen = map[tokKey]*token.Token{}

type result struct {
	tokens  int
	special bool // took a number / string / comment path
}

func check(c Case) (res result, err error) {
	defer func() {
		if r := recover(); r != nil {
			err = fmt.Errorf("lexer panicked on %q (line mode %v): %v", c.Input, c.LineMode, r)
		}
	}()
	in := c.Input
	n := len(in)
	var l *lexer.Lexer
	endType := token.EOF
	if c.LineMode {
		l = lexer.NewLineMode(string(in))
		endType = token.EOL
	} else {
		l = lexer.NewBytes(append([]byte(nil), in...))
	}
	prevEnd := 0
	for count := 1; ; count++ {
		if count > n+1 {
			return res, fmt.Errorf("input %q (%d bytes): no end marker after %d tokens", in, n, count-1)
		}
		start := prevEnd
		for start < n && isWS(in[start]) {
			start++
		}
		tok := l.NextToken()
		end := l.Pos()
		if tok == nil {
			return res, fmt.Errorf("input %q: NextToken returned nil at offset %d", in, start)
		}
		tt, lit := tok.Type(), tok.Literal()
		// interning
		k := tokKey{tt, lit}
		if old, ok := seen[k]; ok {
			if old != tok {
				return res, fmt.Errorf("input %q: token %s is not the shared object of an equal earlier token", in, tok.DebugString())
			}
		} else {
			seen[k] = tok
		}
		if start >= n { // input exhausted: must be the end marker, and stay
			if tt != endType {
				return res, fmt.Errorf("input %q: at end of input got %s instead of the end marker", in, tok.DebugString())
			}
			for i := 0; i < 3; i++ {
				if t2 := l.NextToken(); t2.Type() != endType {
					return res, fmt.Errorf("input %q: after the end marker NextToken returned %s", in, t2.DebugString())
				}
			}
			res.tokens = count
			return res, nil
		}
		if end <= start {
			return res, fmt.Errorf("input %q: token %s at offset %d did not advance (pos %d)", in, tok.DebugString(), start, end)
		}
		if end > n {
			end = n // reading past the end (unterminated string) is clamped
		}
		span := in[start:end]
		if tt == token.EOF || tt == token.EOL {
			if tt != endType {
				return res, fmt.Errorf("input %q: wrong end marker %s for mode", in, tok.DebugString())
			}
			switch {
			case in[start] == 0:
				if end != start+1 {
					return res, fmt.Errorf("input %q: NUL at %d consumed %d bytes", in, start, end-start)
				}
			case in[start] == '"' || in[start] == '`':
				res.special = true
				// unterminated string: must have consumed up to the end of input or up to and including a NUL
				if !(l.Pos() >= n || in[end-1] == 0) {
					return res, fmt.Errorf("input %q: end marker at %d for a string that stops at %d, not at end of input/NUL", in, start, end)
				}
				// there must really be no closing quote inside what was consumed (harness's own scan)
				if closed := closingQuote(in[start:end]); closed >= 0 {
					return res, fmt.Errorf("input %q: string starting at %d has its closing quote at +%d but the lexer returned the end marker", in, start, closed)
				}
			default:
				return res, fmt.Errorf("input %q: end marker %s returned at offset %d before the end of input (byte %q)", in, tok.DebugString(), start, in[start])
			}
			prevEnd = end
			continue
		}
		switch tt {
		case token.STRING:
			res.special = true
			q := in[start]
			if q != '"' && q != '`' {
				return res, fmt.Errorf("input %q: STRING token at %d does not start at a quote", in, start)
			}
			if end-start < 2 || in[end-1] != q {
				return res, fmt.Errorf("input %q: STRING token spans %q which does not end with its opening quote", in, span)
			}
			if cq := closingQuote(span); cq != len(span)-1 {
				// only decidable when escapes are well formed
				if _, ok := decode(span[1:max(1, cq)], q == '`'); ok && cq >= 0 {
					return res, fmt.Errorf("input %q: STRING token spans %q but its closing quote is at +%d", in, span, cq)
				}
			}
			if want, ok := decode(span[1:len(span)-1], q == '`'); ok && want != lit {
				return res, fmt.Errorf("input %q: STRING %q has literal %q, expected %q", in, span, lit, want)
			}
		case token.LINECOMMENT:
			res.special = true
			if !strings.HasPrefix(string(span), "//") {
				return res, fmt.Errorf("input %q: LINECOMMENT spans %q", in, span)
			}
			if lit != strings.TrimSpace(string(span)) {
				return res, fmt.Errorf("input %q: LINECOMMENT literal %q != spanned %q", in, lit, span)
			}
			if end < n && in[end] != '\n' && in[end] != 0 {
				return res, fmt.Errorf("input %q: LINECOMMENT %q stops before the end of its line", in, span)
			}
			for _, b := range span {
				if b == '\n' {
					return res, fmt.Errorf("input %q: LINECOMMENT %q spans a newline", in, span)
				}
			}
		case token.BLOCKCOMMENT:
			res.special = true
			if lit != string(span) {
				return res, fmt.Errorf("input %q: BLOCKCOMMENT literal %q != spanned %q", in, lit, span)
			}
			if !strings.HasPrefix(lit, "/*") {
				return res, fmt.Errorf("input %q: BLOCKCOMMENT %q", in, lit)
			}
			if i := strings.Index(lit[2:], "*/"); i >= 0 && i+4 != len(lit) {
				return res, fmt.Errorf("input %q: BLOCKCOMMENT %q continues past its terminator", in, lit)
			}
			if !strings.HasSuffix(lit, "*/") || len(lit) < 4 {
				// unterminated: must extend to end of input or NUL
				if end < n && in[end] != 0 {
					return res, fmt.Errorf("input %q: unterminated BLOCKCOMMENT %q stops at %d", in, lit, end)
				}
			}
		default:
			if tt == token.INT || tt == token.FLOAT {
				res.special = true
			}
			if lit != string(span) {
				return res, fmt.Errorf("input %q (line mode %v): token %s at [%d,%d) has literal %q but spans %q: bytes lost or invented",
					in, c.LineMode, tok.DebugString(), start, end, lit, span)
			}
			if tt == token.IDENT && isKeyword[lit] {
				return res, fmt.Errorf("input %q: keyword %q lexed as IDENT", in, lit)
			}
			if isKeyword[lit] && strings.ToLower(tt.String()) != lit {
				return res, fmt.Errorf("input %q: keyword %q lexed as %s", in, lit, tt.String())
			}
			if tt == token.ILLEGAL && len(span) != 1 {
				return res, fmt.Errorf("input %q: ILLEGAL token spans %q", in, span)
			}
		}
		prevEnd = end
	}
}

// closingQuote scans a string token's bytes (starting at the opening quote) and returns the offset of
// the closing quote per the documented syntax, or -1.
func closingQuote(s []byte) int {
	q := s[0]
	for i := 1; i < len(s); i++ {
		switch {
		case q == '"' && s[i] == '\\':
			i++ // next byte is escaped, whatever it is
			if i < len(s) {
				switch s[i] {
				case 'x':
					i += 2
				case 'u':
					i += 4
				case 'U':
					i += 8
				}
			}
		case s[i] == q:
			return i
		case s[i] == 0:
			return -1
		}
	}
	return -1
}

func runBoth(t pbt.TB, kind string, in []byte) result {
	var r result
	for _, lm := range []bool{false, true} {
		c := Case{Input: in, LineMode: lm}
		var err error
		r, err = check(c)
		if err != nil {
			pbt.Fail(t, kind, c, "%v", err)
		}
	}
	return r
}

func TestExhaustive(t *testing.T) {
	maxLen := pbt.N(4, 5)
	na := len(alphabet)
	buf := make([]byte, maxLen)
	var total, nontriv int64
	idx := 0
	var rec func(pos, l int)
	rec = func(pos, l int) {
		if pos == l {
			r := runBoth(t, "exhaustive", buf[:l])
			total += 2
			if r.tokens >= 3 || r.special { // tokens counts the end marker too
				nontriv += 2
			}
			return
		}
		for i := 0; i < na; i++ {
			buf[pos] = alphabet[i]
			rec(pos+1, l)
		}
	}
	for l := 0; l <= maxLen; l++ {
		if l <= 1 {
			idx++
			if pbt.Mine(idx) {
				rec(0, l)
			}
			continue
		}
		// shard by the first two bytes
		for i := 0; i < na; i++ {
			for j := 0; j < na; j++ {
				idx++
				if !pbt.Mine(idx) {
					continue
				}
				buf[0], buf[1] = alphabet[i], alphabet[j]
				rec(2, l)
			}
		}
	}
	pbt.AddExact(total, nontriv, "exhaustive")
	pbt.Sample("exhaustive", fmt.Sprintf("all strings of length <= %d over %q", maxLen, alphabet))
}

var fragments = []string{
	"1", "0", "9", "12", "0x", "0xff", "0b", "0b101", "1_0", ".", "..", ".5", "5.", "e", "E", "e+", "e-", "1e", "1e+", "1e5", "1.5e-3", "_",
	"a", "ab", "x1", "func", "fun", "if", "else", "len", "printl", "println", "true", "del", "error",
	"+", "++", "-", "--", "*", "/", "//", "/*", "*/", "%", "=", "==", "=>", ":=", ":", "!", "!=", "<", "<=", "<<", ">", ">=", ">>",
	"&", "&&", "|", "||", "^", "~", "(", ")", "{", "}", "[", "]", ",", ";", "@", "$", "#", "?", "'",
	"\"", "\"ab\"", "\"a\\\"b\"", "\"\\x41\"", "\"\\u00e9\"", "\"\\U0001F600\"", "\"\\n\\t\\r\"", "\"\\q\"", "`", "`a\\n`", "`a\"b`", "\\",
	" ", "  ", "\t", "\n", "\r\n", "\x00", "\xff", "é", "😀",
	"// c", "/* c */", "/* a\nb */", "/**/", "/*/",
}

func TestRandom(t *testing.T) {
	pbt.Check(t, 40000, 3000000, func(rt *rapid.T) {
		parts := rapid.SliceOfN(rapid.OneOf(
			rapid.SampledFrom(fragments),
			rapid.Map(rapid.SliceOfN(rapid.SampledFrom(alphabet), 1, 6), func(b []byte) string { return string(b) }),
			rapid.Map(rapid.SliceOfN(rapid.Byte(), 1, 3), func(b []byte) string { return string(b) }),
		), 1, 40).Draw(rt, "parts")
		in := []byte(strings.Join(parts, ""))
		if len(in) > 200 {
			in = in[:200]
		}
		r := runBoth(rt, "random", in)
		lbl := "random:1-token"
		if r.tokens >= 3 {
			lbl = "random:multi-token"
		}
		if r.special {
			pbt.Label("random:number/string/comment")
		}
		pbt.Case(r.tokens >= 3 || r.special, string(in), lbl)
		pbt.Sample("random", fmt.Sprintf("%q", in))
	})
}

func TestKeywords(t *testing.T) {
	for _, k := range keywordSpellings {
		for _, lm := range []bool{false, true} {
			for _, in := range []string{k, k + " ", " " + k, k + "(", k + "x", "x" + k, k + "1", k + "_"} {
				c := Case{Input: []byte(in), LineMode: lm}
				if _, err := check(c); err != nil {
					pbt.Fail(t, "keywords", c, "%v", err)
				}
				l := lexer.New(in)
				tok := l.NextToken()
				isKw := in == k || in == k+" " || in == " "+k || in == k+"("
				if isKw && (tok.Type() == token.IDENT || strings.ToLower(tok.Type().String()) != k) {
					pbt.Fail(t, "keywords", c, "keyword %q lexed as %s", k, tok.DebugString())
				}
				if !isKw && tok.Type() != token.IDENT {
					pbt.Fail(t, "keywords", c, "identifier %q lexed as %s", in, tok.DebugString())
				}
				pbt.CaseExact(true, "keywords")
			}
		}
	}
}

func FuzzLex(f *testing.F) {
	for _, s := range fragments {
		f.Add([]byte(s))
	}
	f.Add([]byte("a = 1.5e3 + .5.3 // x\nfunc f(a,b){a+b}"))
	f.Fuzz(func(t *testing.T, in []byte) {
		if len(in) > 400 {
			return
		}
		for k := range seen { // the interning model must not grow without bound while fuzzing
			if len(seen) > 200000 {
				delete(seen, k)
			}
		}
		runBoth(t, "fuzz", in)
	})
}

func oracle(kind string, raw json.RawMessage) error {
	var c Case
	if err := json.Unmarshal(raw, &c); err != nil {
		return err
	}
	_, err := check(c)
	return err
}

func TestReplay(t *testing.T)   { pbt.RunReplay(t, oracle) }
func TestARegress(t *testing.T) { pbt.RunRegress(t, "C16", oracle) }
