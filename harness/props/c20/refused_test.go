// C20 — histories of top-level definitions in which some definitions are REFUSED (assignment to the name of a
// library function, a constant bound again to something else, a right-hand side that fails, ...): the completion
// index registered with the interpreter must hold only words of what was defined, so a refused definition leaves
// it exactly as it was.
package c20

import (
	"context"
	"fmt"
	"io"
	"regexp"
	"sort"
	"strings"
	"sync"
	"testing"

	"grol.io/grol/eval"
	"grol.io/grol/object"
	"grol.io/grol/repl"
	"grol.io/grol/token"
	"grol.io/grol/trie"
	"pgregory.net/rapid"
	"verif/pbt"
)

// Step is one REPL input that (tries to) bind Name at top level.
type Step struct {
	Src    string `json:"src"`
	Name   string `json:"name"`
	Fn     bool   `json:"fn"`     // the value the step binds is a function (indexed as name+"(") and not a plain value (name+" ")
	Define bool   `json:"define"` // := (always creates)
	Top    bool   `json:"top"`    // the binding statement is the input itself (not the body of a function that is called)
}

type HistCase struct {
	Steps []Step `json:"steps"`
}

type histStats struct {
	refused int // steps that ended with an error
	visible int // refused steps whose words (name, name+suffix) were not all in the index already
	defined int // steps that succeeded
}

func allWords(tr *trie.Trie) []string {
	_, ws := tr.PrefixAll("")
	return ws
}

func diffWords(a, b []string) (onlyA, onlyB []string) {
	inA := map[string]bool{}
	for _, w := range a {
		inA[w] = true
	}
	inB := map[string]bool{}
	for _, w := range b {
		inB[w] = true
		if !inA[w] {
			onlyB = append(onlyB, w)
		}
	}
	for _, w := range a {
		if !inB[w] {
			onlyA = append(onlyA, w)
		}
	}
	return
}

// seedInteractive inserts what repl.Interactive puts into the index besides the identifiers of the state.
func seedInteractive(tr *trie.Trie) {
	ti := token.Info()
	for v := range ti.Keywords {
		tr.Insert(v + " ")
	}
	for v := range ti.Builtins {
		tr.Insert(v + "(")
	}
	for k := range object.ExtraFunctions() {
		tr.Insert(k + "(")
	}
	tr.Insert("history")
}

// checkHistory evaluates the inputs one at a time, as the interactive loop does, with an index registered the way
// repl.Interactive does it, and compares the index with a model after every input:
//   - an input that ends with an error defined nothing: the index is exactly what it was (same word list, hence the
//     same PrefixAll / common prefix / completed line for every prefix of the name);
//   - an input that succeeds may only add the words of what it defined (name, and name( for a function or name+space
//     otherwise), must add them when it creates the name (first binding, or :=), and never removes a word.
func checkHistory(c HistCase) (histStats, error) {
	var st histStats
	s := eval.NewState()
	s.Out = io.Discard
	s.LogOut = io.Discard
	tr := trie.NewTrie()
	s.RegisterTrie(tr)
	bound := map[string]bool{} // names bound at top level
	for _, w := range allWords(tr) {
		if !strings.HasSuffix(w, "(") && !strings.HasSuffix(w, " ") {
			bound[w] = true
		}
	}
	seedInteractive(tr)
	prev := allWords(tr)
	allowed := map[string]bool{} // upper bound: initial words + words of every successful definition
	must := map[string]bool{}    // lower bound: initial words + words of every creation
	for _, w := range prev {
		allowed[w] = true
		must[w] = true
	}
	opts := repl.Options{All: true, ShowEval: true, NoColor: true}
	for i, step := range c.Steps {
		suffix := " "
		if step.Fn {
			suffix = "("
		}
		prevSet := map[string]bool{}
		for _, w := range prev {
			prevSet[w] = true
		}
		cont, panicked, errs, _ := repl.EvalOne(context.Background(), s, step.Src, io.Discard, opts)
		if cont {
			return st, fmt.Errorf("step %d %q: incomplete input (generator error)", i, step.Src)
		}
		cur := allWords(tr)
		for k := 1; k < len(cur); k++ {
			if cur[k-1] >= cur[k] {
				return st, fmt.Errorf("after step %d %q: PrefixAll(\"\") is not in strict byte order: %q then %q", i, step.Src, cur[k-1], cur[k])
			}
		}
		where := fmt.Sprintf("after step %d %q of %q", i, step.Src, srcs(c))
		if panicked || len(errs) > 0 {
			st.refused++
			if !prevSet[step.Name] || !prevSet[step.Name+suffix] {
				st.visible++
			}
			gone, added := diffWords(prev, cur)
			if len(gone) > 0 || len(added) > 0 {
				return st, fmt.Errorf("%s: the definition was refused (%v) but the completion index changed: added %q, removed %q",
					where, errs, added, gone)
			}
			// the observation point: what <tab> does for every typed prefix of the name (and the name + one more byte)
			for _, q := range typed(step.Name) {
				var want []string
				for _, w := range prev {
					if strings.HasPrefix(w, q) {
						want = append(want, w)
					}
				}
				l, got := tr.PrefixAll(q)
				if g, a := diffWords(want, got); len(g) > 0 || len(a) > 0 || len(want) != len(got) {
					return st, fmt.Errorf("%s (refused): PrefixAll(%q) = %q, before the refused definition it was %q", where, q, got, want)
				}
				if len(want) > 0 {
					if wl := commonPrefixLen(want); l != wl {
						return st, fmt.Errorf("%s (refused): PrefixAll(%q) common prefix length = %d, model says %d (words %q)", where, q, l, wl, want)
					}
					if line := got[0][:l]; line != want[0][:commonPrefixLen(want)] {
						return st, fmt.Errorf("%s (refused): <tab> after %q gives %q, want %q", where, q, line, want[0][:commonPrefixLen(want)])
					}
				}
			}
			for _, w := range []string{step.Name, step.Name + "(", step.Name + " "} {
				if tr.Contains(w) != prevSet[w] {
					return st, fmt.Errorf("%s (refused): Contains(%q) = %v, before the refused definition it was %v", where, w, tr.Contains(w), prevSet[w])
				}
			}
			continue
		}
		st.defined++
		allowed[step.Name] = true
		allowed[step.Name+suffix] = true
		if step.Top {
			if step.Define || !bound[step.Name] {
				must[step.Name] = true
				must[step.Name+suffix] = true
			}
			bound[step.Name] = true
		}
		curSet := map[string]bool{}
		for _, w := range cur {
			curSet[w] = true
			if !allowed[w] {
				return st, fmt.Errorf("%s: the completion index contains %q, which no successful definition accounts for", where, w)
			}
			if !tr.Contains(w) {
				return st, fmt.Errorf("%s: PrefixAll(\"\") lists %q but Contains says false", where, w)
			}
		}
		for _, w := range prev {
			if !curSet[w] {
				return st, fmt.Errorf("%s: the word %q disappeared from the completion index", where, w)
			}
		}
		for _, w := range []string{step.Name, step.Name + suffix} {
			if must[w] && !curSet[w] {
				return st, fmt.Errorf("%s: %q was created but the completion index does not contain %q", where, step.Name, w)
			}
		}
		prev = cur
	}
	return st, nil
}

func srcs(c HistCase) []string {
	out := make([]string, len(c.Steps))
	for i, s := range c.Steps {
		out[i] = s.Src
	}
	return out
}

// typed: every non-empty prefix of the name, and the name followed by each of the two suffixes.
func typed(name string) []string {
	var out []string
	for i := 1; i <= len(name); i++ {
		out = append(out, name[:i])
	}
	return append(out, name+"(", name+" ")
}

// ---- names -----------------------------------------------------------------------------------

var (
	libOnce  sync.Once
	libNames []string // names of the extension (library) functions that are plain identifiers, sorted
	reserved map[string]bool
	identRe  = regexp.MustCompile(`^[a-z][a-z0-9_]*$`)
)

func library() []string {
	libOnce.Do(func() {
		reserved = map[string]bool{}
		for k := range object.ExtraFunctions() {
			reserved[k] = true
			if identRe.MatchString(k) {
				libNames = append(libNames, k)
			}
		}
		sort.Strings(libNames)
		ti := token.Info()
		for v := range ti.Keywords {
			reserved[v] = true
		}
		for v := range ti.Builtins {
			reserved[v] = true
		}
	})
	return libNames
}

var (
	plainValues = []string{"1", "2", "2.5", "1.41", `"s"`, "[1,2]", "{1:2}", "true", "nil"}
	funcValues  = []string{"func(a){a}", "a => a", "() => 1", "func(){3}"}
	// always fail, before anything is bound
	failingValues = []string{"1/0", "nosuch_name", `error("boo")`, `"s" - 1`, "[1][0][0]", `sqrt("a")`, "1 +* 2"}
	// identifiers every state starts with (grol-defined library functions and non-constant values): plain updates are allowed
	startNames = []string{"abs", "log2", "keys", "str", "printf", "Inf", "NaN"}
)

type nameGen struct {
	lib []string
}

func (g nameGen) draw(rt *rapid.T) (name, class string) {
	class = rapid.SampledFrom([]string{"lib", "lib", "lib", "const0", "const0", "const", "const", "const", "var", "var", "near", "start", "builtin"}).Draw(rt, "class")
	switch class {
	case "lib":
		name = rapid.SampledFrom(g.lib).Draw(rt, "lib")
	case "const0": // constants every state starts with
		name = rapid.SampledFrom([]string{"PI", "E"}).Draw(rt, "const0")
	case "const": // user constants, some prefix-related to PI / E and to each other
		name = rapid.SampledFrom([]string{"A", "AB", "ABC", "A_1", "B", "P", "PIX", "PI_2", "EE", "E1"}).Draw(rt, "const")
	case "var":
		name = rapid.StringMatching(`[xyz]{1,2}`).Draw(rt, "var")
	case "near": // a proper prefix or an extension of a library name
		l := rapid.SampledFrom(g.lib).Draw(rt, "nearlib")
		k := rapid.IntRange(1, len(l)+1).Draw(rt, "cut")
		switch {
		case k < len(l):
			name = l[:k]
		case k == len(l):
			name = l + "x"
		default:
			name = l + "_"
		}
		if reserved[name] {
			name = name + "q"
		}
		if reserved[name] {
			name = "x"
		}
	case "start":
		name = rapid.SampledFrom(startNames).Draw(rt, "start")
	case "builtin": // the parser refuses these
		name = rapid.SampledFrom([]string{"len", "println", "first", "log"}).Draw(rt, "builtin")
	}
	return name, class
}

func genStep(rt *rapid.T, name string) (Step, string) {
	fn := rapid.Bool().Draw(rt, "fn")
	val := rapid.SampledFrom(plainValues).Draw(rt, "value")
	if fn {
		val = rapid.SampledFrom(funcValues).Draw(rt, "fvalue")
	}
	st := Step{Name: name, Fn: fn, Top: true}
	form := rapid.SampledFrom([]string{"=", "=", ":=", ":=", "func", "func", "incr", "index", "fail", "inner"}).Draw(rt, "form")
	switch form {
	case "=":
		st.Src = name + " = " + val
	case ":=":
		st.Src = name + " := " + val
		st.Define = true
	case "func":
		st.Fn = true
		st.Src = fmt.Sprintf("func %s(){%d}", name, rapid.IntRange(1, 3).Draw(rt, "body"))
	case "incr": // only succeeds for a name bound to a number
		st.Fn = false
		st.Src = rapid.SampledFrom([]string{"%s++", "%s--", "++%s", "--%s"}).Draw(rt, "incr")
		st.Src = fmt.Sprintf(st.Src, name)
	case "index": // only succeeds for a name bound to an array or a map (which stays one)
		st.Fn = false
		st.Src = name + rapid.SampledFrom([]string{"[0]", `["k"]`, ".k", "[1]"}).Draw(rt, "idx") + " = " + val
	case "fail":
		st.Fn = false
		st.Define = rapid.Bool().Draw(rt, "failDefine")
		op := " = "
		if st.Define {
			op = " := "
		}
		st.Src = name + op + rapid.SampledFrom(failingValues).Draw(rt, "failing")
	case "inner": // the assignment runs one level down; it binds the global only if that exists already
		st.Top = false
		st.Src = "func(){" + name + " = " + val + "}()"
	}
	return st, form
}

// TestRefusedDefinitions: random histories mixing successful and refused top-level definitions.
func TestRefusedDefinitions(t *testing.T) {
	g := nameGen{lib: library()}
	if len(g.lib) < 10 {
		t.Fatalf("only %d library function names: extensions not initialised?", len(g.lib))
	}
	pbt.Check(t, 1200, 40000, func(rt *rapid.T) {
		n := rapid.IntRange(1, 8).Draw(rt, "n")
		var c HistCase
		var used []string
		for i := 0; i < n; i++ {
			name, class := "", "again"
			if len(used) > 0 && rapid.IntRange(0, 2).Draw(rt, "again") == 0 {
				// bind a name of this history again: that is what makes constants (and kinds) clash
				name = rapid.SampledFrom(used).Draw(rt, "name-again")
			} else {
				name, class = g.draw(rt)
			}
			st, form := genStep(rt, name)
			pbt.Label("refused-hist:name:"+class, "refused-hist:form:"+form)
			used = append(used, st.Name)
			c.Steps = append(c.Steps, st)
		}
		stats, err := checkHistory(c)
		if err != nil {
			pbt.Fail(rt, "history", c, "%v", err)
		}
		// non-trivial: some definition was refused although its words were not (all) in the index yet
		lbl := "history:no-refusal"
		switch {
		case stats.visible > 0 && stats.defined > 0:
			lbl = "history:refused-new-words-among-definitions"
		case stats.visible > 0:
			lbl = "history:refused-new-words"
		case stats.refused > 0:
			lbl = "history:refused-known-words"
		}
		pbt.Case(stats.visible > 0, strings.Join(srcs(c), ";"), lbl)
		pbt.Sample("history", srcs(c))
	})
}

// TestRefusedLibraryNames: enumerated, every library function name (and the two predefined constants) with every
// form of definition, each history a few refused definitions around one successful one.
func TestRefusedLibraryNames(t *testing.T) {
	names := append([]string{"PI", "E"}, library()...)
	for i, name := range names {
		if !pbt.Mine(i) {
			continue
		}
		c := HistCase{Steps: []Step{
			{Src: "radius := 2", Name: "radius", Define: true, Top: true},
			{Src: name + " := 1.41", Name: name, Define: true, Top: true},
			{Src: name + " = \"s\"", Name: name, Top: true},
			{Src: "func " + name + "(){3}", Name: name, Fn: true, Top: true},
			{Src: name + " = x => x", Name: name, Fn: true, Top: true},
			{Src: name + " := func(a){a}", Name: name, Fn: true, Define: true, Top: true},
			{Src: "func(){" + name + " = [1]}()", Name: name},
			{Src: "func(){" + name + " = () => 1}()", Name: name, Fn: true},
			{Src: "area = 3 * radius * radius", Name: "area", Top: true},
		}}
		stats, err := checkHistory(c)
		if err != nil {
			pbt.Fail(t, "history-library-name", c, "%v", err)
		}
		pbt.CaseExact(stats.visible > 0, "history-library-name")
		pbt.SampleEvery("history-library-name", i, func() any { return srcs(c) })
	}
}
