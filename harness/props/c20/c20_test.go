// C20 — the completion index (trie) behaves as a set of words.
package c20

import (
	"bytes"
	"context"
	"encoding/json"
	"fmt"
	"io"
	"sort"
	"strings"
	"testing"

	"fortio.org/log"
	"grol.io/grol/eval"
	"grol.io/grol/extensions"
	"grol.io/grol/repl"
	"grol.io/grol/trie"
	"pgregory.net/rapid"
	"verif/pbt"
)

func TestMain(m *testing.M) {
	_ = extensions.Init(nil)
	log.SetLogLevelQuiet(log.Critical) // refused definitions are logged (parser errors, constant changes)
	pbt.Main(m, pbt.Meta{
		Property: "C20",
		Level:    "exploration",
		Rule: "insertion sequences into trie.Trie checked against a set-of-words model after EVERY insertion " +
			"(Contains for every query word, PrefixAll list + common-prefix length for every query prefix). " +
			"Enumerated completely: all subsets of size<=4 of the 14 words of length 1..3 over {a,b} in every order, " +
			"all 2^14 subsets in 3 canonical orders, all subsets of size<=4 of the 12 words of length<=2 over {a,0x00,0xff} " +
			"in every order, each also with duplicates and the empty word; plus rapid-generated sequences of up to 60 words over " +
			"arbitrary bytes and identifier-definition sessions (State.RegisterTrie). Histories with REFUSED definitions (index set up as " +
			"repl.Interactive does; inputs that assign to a library function name, bind a constant again to something else, name a builtin, " +
			"fail on their right-hand side, increment or index what cannot be, or do so one call down, mixed with successful definitions of " +
			"the same and of prefix-related names; generated, plus every library function name and PI/E enumerated with every form of definition): " +
			"an input that ends with an error leaves the word list, PrefixAll / common prefix / completed line for every typed prefix of the name " +
			"exactly as they were; a successful one adds at most name and name( or name+space, adds them when it creates the name, removes nothing. A sequence is non-trivial when a word is " +
			"inserted after a longer word it is a prefix of, or a longer word after its own prefix; distinct by the sequence.",
		Assumptions: []string{
			"the common-prefix length is not asserted when no word matches (the property defines it 'of those words')",
			"the completion callback itself is unexported and needs a terminal; its pure core commands[0][:l] is re-computed from PrefixAll's result",
			"history family: whether an input is a refused definition is decided by its outcome (an error), not predicted; an update of an existing name (plain =, ++, index assignment, assignment one call down) may but need not record the form of the new value",
			"session family: the interpreter records a name when it is created (first definition, or := which always creates) as name, and name( for a function or name+space otherwise; a later plain = update is not expected to record anything",
		},
		Exhaustive:      true,
		ExhaustiveBound: "all insertion orders of all subsets of size <= 4 over {a,b}^{1..3} and {a,00,ff}^{1..2}; all subsets of {a,b}^{1..3} in ascending, descending and longest-first order",
	})
}

type Case struct {
	Words    [][]byte `json:"words"`
	Alphabet []byte   `json:"alphabet"`
	MaxQ     int      `json:"max_query_len"`
}

func wordsOver(alpha []byte, maxLen int, includeEmpty bool) []string {
	var out []string
	if includeEmpty {
		out = append(out, "")
	}
	cur := []string{""}
	for l := 1; l <= maxLen; l++ {
		var next []string
		for _, w := range cur {
			for _, c := range alpha {
				next = append(next, w+string([]byte{c}))
			}
		}
		out = append(out, next...)
		cur = next
	}
	return out
}

func commonPrefixLen(ws []string) int {
	if len(ws) == 0 {
		return 0
	}
	p := ws[0]
	for _, w := range ws[1:] {
		i := 0
		for i < len(p) && i < len(w) && p[i] == w[i] {
			i++
		}
		p = p[:i]
	}
	return len(p)
}

// nontrivial: some word inserted after a longer word that it is a prefix of, or after its own proper prefix.
func nontrivial(words [][]byte) bool {
	for i := 1; i < len(words); i++ {
		for j := 0; j < i; j++ {
			a, b := words[j], words[i]
			if len(a) == 0 || len(b) == 0 || bytes.Equal(a, b) {
				continue
			}
			if bytes.HasPrefix(a, b) || bytes.HasPrefix(b, a) {
				return true
			}
		}
	}
	return false
}

// check runs one insertion sequence against the model; returns an error describing the first disagreement.
func check(c Case) error {
	tr := trie.NewTrie()
	model := map[string]bool{}
	queries := map[string]bool{"": true}
	for _, q := range wordsOver(c.Alphabet, c.MaxQ, true) {
		queries[q] = true
	}
	for _, w := range c.Words {
		for i := 0; i <= len(w); i++ {
			queries[string(w[:i])] = true
			for _, a := range c.Alphabet {
				queries[string(w[:i])+string([]byte{a})] = true
			}
		}
	}
	qs := make([]string, 0, len(queries))
	for q := range queries {
		qs = append(qs, q)
	}
	sort.Strings(qs)
	for step, w := range c.Words {
		tr.Insert(string(w))
		if len(w) > 0 {
			model[string(w)] = true
		}
		for _, q := range qs {
			if got, want := tr.Contains(q), model[q]; got != want {
				return fmt.Errorf("after inserting %q (step %d of %q): Contains(%q) = %v, model says %v", w, step, c.Words, q, got, want)
			}
			var want []string
			for m := range model {
				if strings.HasPrefix(m, q) {
					want = append(want, m)
				}
			}
			sort.Strings(want)
			l, got := tr.PrefixAll(q)
			if len(got) != len(want) {
				return fmt.Errorf("after inserting %q (step %d of %q): PrefixAll(%q) = %q, model says %q", w, step, c.Words, q, got, want)
			}
			for i := range got {
				if got[i] != want[i] {
					return fmt.Errorf("after inserting %q (step %d of %q): PrefixAll(%q) = %q, model says %q", w, step, c.Words, q, got, want)
				}
			}
			if len(want) > 0 {
				if wl := commonPrefixLen(want); l != wl {
					return fmt.Errorf("after inserting %q (step %d of %q): PrefixAll(%q) common prefix length = %d, model says %d (words %q)", w, step, c.Words, q, l, wl, want)
				}
				// pure core of the completion callback: commands[0][:l]
				if l > len(got[0]) {
					return fmt.Errorf("PrefixAll(%q): length %d exceeds first word %q", q, l, got[0])
				}
				comp := got[0][:l]
				if !strings.HasPrefix(comp, q) {
					return fmt.Errorf("completion %q does not extend typed prefix %q", comp, q)
				}
				okDefined := false
				for m := range model {
					if strings.HasPrefix(m, comp) {
						okDefined = true
					}
				}
				if !okDefined {
					return fmt.Errorf("completion %q of %q is not a prefix of any defined word", comp, q)
				}
			}
		}
	}
	return nil
}

func toBytes(ws []string) [][]byte {
	out := make([][]byte, len(ws))
	for i, w := range ws {
		out[i] = []byte(w)
	}
	return out
}

func runCase(t pbt.TB, kind string, c Case, idx int) {
	if err := check(c); err != nil {
		pbt.Fail(t, kind, c, "%v", err)
	}
	pbt.SampleEvery(kind, idx, func() any { return fmt.Sprintf("%q", c.Words) })
}

// permutations of up to 4 elements chosen from n, enumerated as ordered selections without repetition.
func orderedSelections(n, maxK int, f func(sel []int)) {
	var sel []int
	used := make([]bool, n)
	var rec func()
	rec = func() {
		f(sel)
		if len(sel) == maxK {
			return
		}
		for i := 0; i < n; i++ {
			if used[i] {
				continue
			}
			used[i] = true
			sel = append(sel, i)
			rec()
			sel = sel[:len(sel)-1]
			used[i] = false
		}
	}
	rec()
}

func TestExhaustiveOrders(t *testing.T) {
	if testing.Short() {
		t.Skip()
	}
	for _, cfg := range []struct {
		name   string
		alpha  []byte
		maxLen int
	}{
		{"ab", []byte{'a', 'b'}, 3},
		{"a-00-ff", []byte{'a', 0x00, 0xff}, 2},
	} {
		words := wordsOver(cfg.alpha, cfg.maxLen, false)
		idx := 0
		orderedSelections(len(words), 4, func(sel []int) {
			idx++
			if !pbt.Mine(idx) {
				return
			}
			ws := make([]string, len(sel))
			for i, s := range sel {
				ws[i] = words[s]
			}
			c := Case{Words: toBytes(ws), Alphabet: cfg.alpha, MaxQ: cfg.maxLen + 1}
			runCase(t, "orders-"+cfg.name, c, idx)
			pbt.CaseExact(nontrivial(c.Words), "orders-"+cfg.name)
			// variants: with a duplicate of the first word at the end, and with the empty word in front
			if len(ws) > 0 {
				d := Case{Words: toBytes(append(append([]string{""}, ws...), ws[0])), Alphabet: cfg.alpha, MaxQ: cfg.maxLen + 1}
				runCase(t, "orders-dup-empty-"+cfg.name, d, idx)
				pbt.CaseExact(nontrivial(d.Words), "orders-dup-empty-"+cfg.name)
			}
		})
	}
}

func TestExhaustiveSubsets(t *testing.T) {
	alpha := []byte{'a', 'b'}
	words := wordsOver(alpha, 3, false) // 14 words, ascending by length then bytes
	asc := append([]string(nil), words...)
	sort.Strings(asc)
	lo, hi := pbt.Slice(1 << len(words))
	for mask := lo; mask < hi; mask++ {
		var sub []string
		for i, w := range asc {
			if mask&(1<<i) != 0 {
				sub = append(sub, w)
			}
		}
		desc := append([]string(nil), sub...)
		sort.Sort(sort.Reverse(sort.StringSlice(desc)))
		longest := append([]string(nil), sub...)
		sort.SliceStable(longest, func(i, j int) bool { return len(longest[i]) > len(longest[j]) })
		for oi, order := range [][]string{sub, desc, longest} {
			c := Case{Words: toBytes(order), Alphabet: alpha, MaxQ: 3}
			runCase(t, []string{"subset-asc", "subset-desc", "subset-longest-first"}[oi], c, mask)
			pbt.CaseExact(nontrivial(c.Words), []string{"subset-asc", "subset-desc", "subset-longest-first"}[oi])
		}
	}
}

func TestRandomWords(t *testing.T) {
	pbt.Check(t, 6000, 400000, func(rt *rapid.T) {
		// a small per-case alphabet makes prefixes collide often; arbitrary bytes are allowed
		alpha := rapid.SliceOfNDistinct(rapid.Byte(), 1, 4, rapid.ID[byte]).Draw(rt, "alphabet")
		word := rapid.SliceOfN(rapid.SampledFrom(alpha), 0, 12)
		words := rapid.SliceOfN(word, 1, 60).Draw(rt, "words")
		c := Case{Words: words, Alphabet: alpha, MaxQ: 2}
		if len(alpha) > 3 {
			c.MaxQ = 1
		}
		if err := check(c); err != nil {
			pbt.Fail(rt, "random", c, "%v", err)
		}
		nt := nontrivial(words)
		lbl := "random:plain"
		if nt {
			lbl = "random:prefix-related"
		}
		pbt.Case(nt, fmt.Sprintf("%q", words), lbl)
		pbt.Sample("random", fmt.Sprintf("%q", words))
	})
}

// ---- identifiers recorded through a session -------------------------------------------------

type SessCase struct {
	Defs []string `json:"defs"` // each "v:name" (variable) or "f:name" (function)
}

func checkSession(c SessCase) error {
	s := eval.NewState()
	s.Out = io.Discard
	s.LogOut = io.Discard
	tr := trie.NewTrie()
	s.RegisterTrie(tr)
	opts := repl.Options{All: true, ShowEval: true, NoColor: true}
	type def struct{ name, kind string }
	var defs []def
	created := map[string]string{}
	for _, d := range c.Defs {
		kind, name := d[:1], d[2:]
		src := name + " = 1"
		switch kind {
		case "f":
			src = "func " + name + "(){1}"
		case "d": // := of a plain value, whatever the name was before
			src = name + " := 2.5"
		case "l": // := of a function value
			src = name + " := func(x){x}"
		case "a": // = of a lambda
			src = name + " = x => x"
		}
		_, panicked, errs, _ := repl.EvalOne(context.Background(), s, src, io.Discard, opts)
		if panicked || len(errs) > 0 {
			return fmt.Errorf("definition %q failed: %v", src, errs)
		}
		defs = append(defs, def{name, kind})
		if _, was := created[name]; !was || kind == "d" || kind == "l" {
			created[name] = kind
		}
		for _, dd := range defs {
			if !tr.Contains(dd.name) {
				return fmt.Errorf("after definitions %v: completion index does not contain %q", c.Defs, dd.name)
			}
			_, all := tr.PrefixAll(dd.name)
			found := false
			for _, w := range all {
				if w == dd.name+"(" || w == dd.name+" " {
					found = true
				}
			}
			if !found {
				return fmt.Errorf("after definitions %v: no completion %q( or %q+space in %q", c.Defs, dd.name, dd.name, all)
			}
			// a name is recorded when it is created (first definition, or := which always creates): what it was
			// created as last decides which completion must be there (a later plain = update records nothing)
			want := dd.name + " "
			if cur := created[dd.name]; cur == "f" || cur == "l" || cur == "a" {
				want = dd.name + "("
			}
			if !tr.Contains(want) {
				return fmt.Errorf("after definitions %v: %q is now %s but the completion %q is missing (have %q)", c.Defs, dd.name, map[bool]string{true: "a function", false: "a value"}[strings.HasSuffix(want, "(")], want, all)
			}
			l, all := tr.PrefixAll(dd.name[:1])
			if len(all) == 0 || l > len(all[0]) || !strings.HasPrefix(all[0][:l], dd.name[:1]) {
				return fmt.Errorf("after definitions %v: PrefixAll(%q) = %d,%q", c.Defs, dd.name[:1], l, all)
			}
		}
	}
	return nil
}

func TestSessionIdentifiers(t *testing.T) {
	pbt.Check(t, 1500, 40000, func(rt *rapid.T) {
		name := rapid.StringMatching(`[xyz]{1,3}`)
		n := rapid.IntRange(1, 8).Draw(rt, "n")
		var c SessCase
		seen := map[string]bool{}
		var words [][]byte
		for i := 0; i < n; i++ {
			nm := name.Draw(rt, "name")
			if seen[nm] && rapid.Bool().Draw(rt, "skipdup") {
				continue
			}
			k := rapid.SampledFrom([]string{"v", "f", "d", "l", "a"}).Draw(rt, "kind")
			if seen[nm] && k == "f" {
				k = "l" // a named function cannot replace an existing binding: use := of a function value
			}
			if seen[nm] {
				pbt.Label("session:name-defined-again")
			}
			seen[nm] = true
			c.Defs = append(c.Defs, k+":"+nm)
			words = append(words, []byte(nm))
		}
		if err := checkSession(c); err != nil {
			pbt.Fail(rt, "session", c, "%v", err)
		}
		pbt.Case(nontrivial(words), strings.Join(c.Defs, ","), "session")
		pbt.Sample("session", c.Defs)
	})
}

// ---- replay / regress ---------------------------------------------------------------------

func oracle(kind string, raw json.RawMessage) error {
	if strings.HasPrefix(kind, "history") {
		var c HistCase
		if err := json.Unmarshal(raw, &c); err != nil {
			return err
		}
		_, err := checkHistory(c)
		return err
	}
	if kind == "session" {
		var c SessCase
		if err := json.Unmarshal(raw, &c); err != nil {
			return err
		}
		return checkSession(c)
	}
	var c Case
	if err := json.Unmarshal(raw, &c); err != nil {
		return err
	}
	return check(c)
}

func TestReplay(t *testing.T)   { pbt.RunReplay(t, oracle) }
func TestARegress(t *testing.T) { pbt.RunRegress(t, "C20", oracle) }
