// C19 — two more families: the shape of the constant's name, and constants that are local to a function and are
// attacked, after that function has returned, from the closures it handed out.
package c19

import (
	"fmt"
	"strings"
	"testing"

	"pgregory.net/rapid"
	"verif/pbt"
)

// ---- names ----------------------------------------------------------------------------------------------------------

// What "all upper case" means (object.Constant on the correct code): a capital letter, then capitals, digits and
// underscores in any position, the last one included. Everything else that is an identifier is a plain variable.
func isConstName(s string) bool {
	if s == "" || s[0] < 'A' || s[0] > 'Z' {
		return false
	}
	for i := 1; i < len(s); i++ {
		c := s[i]
		if (c < 'A' || c > 'Z') && (c < '0' || c > '9') && c != '_' {
			return false
		}
	}
	return true
}

// predefined by the extensions (PI and E are bound before the first input)
var predefined = map[string]bool{"PI": true, "E": true}

const (
	capitals = "ABCDEFGHIJKLMNOPQRSTUVWXYZ"
	digits   = "0123456789"
)

func oneOf(t *rapid.T, set, label string) string {
	return string(set[rapid.IntRange(0, len(set)-1).Draw(t, label)])
}

// constName draws a name on the constant side: single letters, letter + digits (C1), underscores in the middle, doubled
// and at the end (A_B, A__B, MAX_, A_B_, A__), digits anywhere after the first letter (A1B, Z9_9).
func constName(t *rapid.T) string {
	var sb strings.Builder
	sb.WriteString(oneOf(t, capitals, "first"))
	n := rapid.IntRange(0, 5).Draw(t, "len")
	for i := 0; i < n; i++ {
		switch rapid.IntRange(0, 3).Draw(t, "kind") {
		case 0, 1:
			sb.WriteString(oneOf(t, capitals, "letter"))
		case 2:
			sb.WriteString(oneOf(t, digits, "digit"))
		default:
			sb.WriteString("_")
		}
	}
	sb.WriteString(rapid.SampledFrom([]string{"", "", "", "_", "_", "__", "9", "_0"}).Draw(t, "tail"))
	name := sb.String()
	if predefined[name] {
		name += "2"
	}
	return name
}

// spoil turns a constant name into one that is NOT all upper case, in one place; the result always keeps a capital
// letter or an underscore next to one, so it cannot be a keyword, a builtin or a helper name of the steps.
func spoil(t *rapid.T, name string) string {
	switch rapid.IntRange(0, 4).Draw(t, "spoil") {
	case 0:
		return "_" + name
	case 1:
		if len(name) > 1 {
			return strings.ToLower(name[:1]) + name[1:]
		}
		return "_" + name
	case 2:
		return name + "q"
	case 3:
		i := rapid.IntRange(1, len(name)).Draw(t, "at")
		return name[:i] + "z" + name[i:]
	default:
		i := rapid.IntRange(0, len(name)-1).Draw(t, "lower")
		if i > 0 && name[i] >= 'A' && name[i] <= 'Z' {
			return name[:i] + strings.ToLower(name[i:i+1]) + name[i+1:]
		}
		return name + "_x"
	}
}

func nameShape(name string) string {
	switch {
	case !isConstName(name):
		return "names:not-all-upper(plain variable)"
	case strings.HasSuffix(name, "_"):
		return "names:trailing-underscore"
	case len(name) == 1:
		return "names:single-letter"
	case strings.Contains(name, "_"):
		return "names:inner-underscore"
	case strings.ContainsAny(name, digits):
		return "names:letters-and-digits"
	}
	return "names:letters-only"
}

// variableSteps: the other side of the definition. A name that is not all upper case is a plain variable: binding it
// again takes effect (the model follows, through Step.Rebind).
func variableSteps(t *rapid.T, name string) []Step {
	n := rapid.IntRange(2, 5).Draw(t, "n")
	var out []Step
	for i := 0; i < n; i++ {
		v := rapid.SampledFrom(otherVals).Draw(t, "v")
		switch rapid.IntRange(0, 2).Draw(t, "how") {
		case 0:
			out = append(out, Step{Src: name + " = " + v, Rebind: v})
		case 1:
			out = append(out, Step{Src: name + " := " + v, Rebind: v})
		default:
			out = append(out, Step{Src: "func(){ " + name + " = " + v + " }()", Rebind: v})
		}
	}
	return out
}

func caseText(c Case) string {
	var sb strings.Builder
	sb.WriteString(c.bind())
	for _, s := range c.Steps {
		sb.WriteString("\n" + s.Src)
	}
	return sb.String()
}

// TestNames: the attacks of TestAttempts on constants whose name is drawn from every shape the definition allows, and
// plain re-bindings on names just outside of it.
func TestNames(t *testing.T) {
	pbt.Check(t, 800, 60000, func(rt *rapid.T) {
		name := constName(rt)
		c := Case{Init: rapid.SampledFrom(initPool).Draw(rt, "init")}
		nt := false
		if rapid.IntRange(0, 4).Draw(rt, "side") == 0 {
			c.Name = spoil(rt, name)
			if isConstName(c.Name) {
				rt.Fatalf("harness: spoil(%q) = %q is still all upper case", name, c.Name)
			}
			c.Steps = variableSteps(rt, c.Name)
		} else {
			c.Name = name
			cur := c.Init
			n := rapid.IntRange(2, 8).Draw(rt, "n")
			for i := 0; i < n; i++ {
				st, _ := attempts(rt, cur, name)
				c.Steps = append(c.Steps, st)
				if st.Rebind != "" {
					cur = st.Rebind
				}
			}
			nt = name != NAME
		}
		if err := check(c); err != nil {
			pbt.Fail(rt, "names", c, "%v", err)
		}
		pbt.Case(nt, caseText(c), nameShape(c.Name))
		pbt.Sample("names", caseText(c))
	})
}

// shapes: one name of every shape, on both sides of the definition.
var shapes = []string{"A", "Z", "C1", "X0", "A_", "MAX_", "TBL__", "A_B", "A_B_", "A__B", "A1_", "Z9_9", "A1B2", "MAX_N", "N_0_", "VERY_LONG_NAME_9_",
	"Ab", "aB", "_A", "_MAX_", "A_b", "A1b", "mAX_", "MAX_q"}

// every kind of attempt once, on a name of any shape (the Prints steps print nothing when they fail)
func fixedSteps(N string) []Step {
	steps := []Step{
		{Src: N + " = 6"},
		{Src: N + " := 7"},
		{Src: N + "++"},
		{Src: "--" + N},
		{Src: N + "[0] = 6"},
		{Src: N + ".k = 6"},
		{Src: "del(" + N + ".a)"},
		{Src: "del(" + N + `["k"])`},
		{Src: N + " = " + N + " + [1]"},
		{Src: "for " + N + " = [7, 8] { println(" + N + ") }", Prints: true},
		{Src: "func(){ " + N + " = 6 }()"},
		{Src: "func(){ " + N + " := 6; println(" + N + ") }()", Prints: true},
		{Src: "(() => { " + N + "++ })()"},
		{Src: "func(){ " + N + "[0] = 6 }()"},
		{Src: "((" + N + ", b) => { println(" + N + ") })(\"s\", 1)", Prints: true},
		{Src: "println(" + N + ")", Prints: true},
	}
	if excludeIntShadow() {
		pbt.Excluded(kIntShadow)
		return steps
	}
	return append(steps,
		Step{Src: "for " + N + " = 3 { println(" + N + ") }", Prints: true},
		Step{Src: "func fparam(" + N + ") { println(" + N + ") }; fparam(6)", Prints: true})
}

func TestNameShapes(t *testing.T) {
	idx := 0
	for _, name := range shapes {
		for _, init := range []string{"5", `"str"`, arr(3), arr(10), mp(6)} {
			idx++
			if !pbt.Mine(idx) {
				continue
			}
			c := Case{Name: name, Init: init}
			if isConstName(name) {
				c.Steps = fixedSteps(name)
			} else {
				c.Steps = []Step{{Src: name + " = 6", Rebind: "6"}, {Src: "func(){ " + name + " = \"other\" }()", Rebind: `"other"`}, {Src: name + " := [9]", Rebind: "[9]"}}
			}
			if err := check(c); err != nil {
				pbt.Fail(t, "names", c, "%v", err)
			}
			pbt.CaseExact(isConstName(name) && name != NAME, nameShape(name))
		}
	}
}

// ---- constants local to a function --------------------------------------------------------------------------------

// localAttack is one closure handed out by the function that binds the constant.
type localAttack struct {
	def    string // the function literal
	args   string // what it is called with
	prints bool
}

// byArgument: attacks that receive the new value as an argument (they do not read the constant before writing it).
func byArgument(t *rapid.T, init, N string) (localAttack, bool) {
	v := rapid.SampledFrom(otherVals).Draw(t, "arg")
	shadow := v
	if excludeIntShadow() && (v == "6" || v == "0") {
		pbt.Excluded(kIntShadow)
		shadow = `"s"`
	}
	forms := []func() (localAttack, bool){
		func() (localAttack, bool) { return localAttack{def: "func(n) { " + N + " = n }", args: v}, true },
		func() (localAttack, bool) { return localAttack{def: "n => { " + N + " = n }", args: v}, true },
		func() (localAttack, bool) {
			return localAttack{def: "func(n) { " + N + " := n; println(" + N + ") }", args: v, prints: true}, true
		},
		func() (localAttack, bool) {
			return localAttack{def: "func(" + N + ") { println(" + N + ") }", args: shadow, prints: true}, true
		},
		func() (localAttack, bool) {
			return localAttack{def: "(" + N + ", b) => { println(" + N + ") }", args: shadow + ", 1", prints: true}, true
		},
		func() (localAttack, bool) {
			return localAttack{def: "func(a, " + N + ") { println(" + N + "); a }", args: "1, " + shadow, prints: true}, true
		},
		func() (localAttack, bool) {
			return localAttack{def: "func(n) { func() { " + N + " = n }() }", args: v}, true
		},
		func() (localAttack, bool) {
			return localAttack{def: "func(n) { inner = () => { " + N + " = n }; inner() }", args: v}, true
		},
		func() (localAttack, bool) {
			return localAttack{def: "func(n) { for i = 2 { " + N + " = n } }", args: v}, true
		},
		func() (localAttack, bool) {
			return localAttack{def: "func(n) { if true { " + N + " = n } }", args: v}, true
		},
		// reads first, then writes
		func() (localAttack, bool) {
			return localAttack{def: "func(n) { x = " + N + "; " + N + " = n }", args: v}, false
		},
		func() (localAttack, bool) {
			return localAttack{def: "func(n) { println(" + N + "); " + N + " = n }", args: v, prints: true}, false
		},
		func() (localAttack, bool) {
			return localAttack{def: "func(n) { " + N + "[0] = n }", args: v}, isBig(init)
		},
		func() (localAttack, bool) {
			return localAttack{def: "func(n) { " + N + ".k = n }", args: v}, isBig(init)
		},
		func() (localAttack, bool) {
			loop := rapid.SampledFrom([]string{"[7, 8]", `"ab"`, `{"a": 1}`, "3", "1:3"}).Draw(t, "loop")
			if excludeIntShadow() && (loop == "3" || loop == "1:3") {
				pbt.Excluded(kIntShadow)
				loop = "[1, 2]"
			}
			if loop == "1:3" {
				return localAttack{def: "func(n) { for " + N + " = 1:n { println(" + N + ") } }", args: "3", prints: true}, true
			}
			return localAttack{def: "func(n) { for " + N + " = n { println(" + N + ") } }", args: loop, prints: true}, true
		},
	}
	return forms[rapid.IntRange(0, len(forms)-1).Draw(t, "argform")]()
}

// localCase: a function binds the constant (in its body, from a parameter, as a parameter, or in a function nested in
// it) and returns a map of closures: one reader and a few attackers. The steps call the attackers after the function
// returned, directly and from other call chains.
func localCase(t *rapid.T) (Case, bool) {
	N := constName(t)
	init := rapid.SampledFrom(initPool).Draw(t, "init")
	nt := false
	k := rapid.IntRange(1, 4).Draw(t, "attacks")
	attacks := make([]localAttack, k)
	entries := []string{`"get": ` + rapid.SampledFrom([]string{"() => " + N, "func() { return " + N + " }", "func() { " + N + " }"}).Draw(t, "getter")}
	for j := range attacks {
		if rapid.IntRange(0, 2).Draw(t, "akind") == 0 {
			// one of the attempts of TestAttempts, as the body of a closure (no del: the constant is never deleted here)
			st, x := attempts(t, init, N)
			if st.Rebind != "" {
				st = Step{Src: N + " = " + st.Rebind}
			}
			attacks[j] = localAttack{def: "func() { " + st.Src + " }", prints: st.Prints}
			nt = nt || x
		} else {
			var x bool
			attacks[j], x = byArgument(t, init, N)
			nt = nt || x
		}
		entries = append(entries, fmt.Sprintf(`"a%d": %s`, j, attacks[j].def))
	}
	closures := "{" + strings.Join(entries, ", ") + "}"
	shape := rapid.IntRange(0, 6).Draw(t, "factory")
	if shape == 5 && excludeIntShadow() {
		pbt.Excluded(kIntShadow)
		shape = 0
	}
	var bind string
	switch shape {
	case 0:
		bind = "func mk() { " + N + " = " + init + "; return " + closures + " }; o = mk()"
	case 1:
		bind = "mk = () => { " + N + " = " + init + "; " + closures + " }; o = mk()"
	case 2:
		bind = "func mk(v0) { " + N + " = v0; " + closures + " }; o = mk(" + init + ")"
	case 3: // the closures are made one function further in
		bind = "func mk() { " + N + " = " + init + "; func deeper() { return " + closures + " }; return deeper() }; o = mk()"
	case 4: // the constant belongs to a function nested in the one that is called
		bind = "func mk() { mid = func() { " + N + " = " + init + "; " + closures + " }; mid() }; o = mk()"
	case 5: // the constant is a parameter
		bind = "func mk(" + N + ") { return " + closures + " }; o = mk(" + init + ")"
	default: // bound in a block of the function
		bind = "func mk() { if true { " + N + " = " + init + " }; " + closures + " }; o = mk()"
	}
	bind += "; func relay(f) { f() }"
	c := Case{Name: N, Init: init, Bind: bind, Read: "o.get()"}
	n := rapid.IntRange(2, 8).Draw(t, "n")
	for i := 0; i < n; i++ {
		j := rapid.IntRange(0, k-1).Draw(t, "which")
		call := fmt.Sprintf("o.a%d(%s)", j, attacks[j].args)
		var src string
		switch rapid.IntRange(0, 5).Draw(t, "callstyle") {
		case 0, 1:
			src = call
		case 2:
			src = "func() { " + call + " }()"
		case 3:
			src = "relay(() => " + call + ")"
		case 4:
			src = fmt.Sprintf("f = o.a%d; f(%s)", j, attacks[j].args)
		default:
			src = "for i = 2 { " + call + " }"
		}
		c.Steps = append(c.Steps, Step{Src: src, Prints: attacks[j].prints})
	}
	return c, nt
}

// TestLocal: the constant is local to a function and the attempts come from closures that outlived the call.
func TestLocal(t *testing.T) {
	pbt.Check(t, 800, 60000, func(rt *rapid.T) {
		c, nt := localCase(rt)
		if err := check(c); err != nil {
			pbt.Fail(rt, "local", c, "%v", err)
		}
		lbl := "local:reads-before-writing-or-small"
		if nt {
			lbl = "local:escaped-closure-writes-without-reading"
		}
		pbt.Case(nt, caseText(c), lbl, nameShape(c.Name))
		pbt.Sample("local", caseText(c))
	})
}
