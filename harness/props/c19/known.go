package c19

import "verif/pbt"

const (
	// (fixed, kept as a switch: an upper-case integer parameter or counted-loop variable used to be held in a
	// register, bypassing the constant check. Not listed any more, so the class is generated.)
	kIntShadow = "K-C19-1"
	// Mutation of a large container through an alias or a parameter (root cause: K-C06-1) also reaches a constant.
	kInPlace = "K-C19-2"
)

func excludeIntShadow() bool { return pbt.KnownOpen(kIntShadow) }

// excludeAlias: zz = NAME; zz[0] = v would write into the constant's large container in place.
func excludeAlias(init string) bool { return pbt.KnownOpen(kInPlace) && isBig(init) }
