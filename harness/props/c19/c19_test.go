// C19 — constants cannot be changed by any path.
package c19

import (
	"encoding/json"
	"fmt"
	"regexp"
	"strings"
	"testing"

	"grol.io/grol/object"
	"pgregory.net/rapid"
	"verif/gv"
	"verif/pbt"
	"verif/sess"
	"verif/val"
)

func TestMain(m *testing.M) {
	sess.Init()
	pbt.Main(m, pbt.Meta{
		Property: "C19",
		Level:    "exploration",
		Rule: "an upper-case name is bound to a value of each type (int, float, string, bool, nil, array / map of 0..20 elements, function) and then attacked by a generated sequence of mutation " +
			"attempts of every syntactic kind (=, :=, ++, --, prefix forms, index / field assignment incl. negative index, del of an element, self-append, loop variable of every loop form, parameter " +
			"of functions and lambdas, assignment from nested functions / loops / closures, func NAME(){} redefinition, same-value re-assignment, mutation through an alias), each on a session with registers and on one " +
			"without. Model: NAME keeps its value until an explicit del(NAME) (which is generated too, followed by a re-binding). Oracle: after every attempt NAME at top level has the model's value (type and " +
			"structure); whenever an attempt that did not fail printed NAME, it printed the model's value; error/no-error and output are the same with and without registers. Non-trivial: the sequence contains an " +
			"index/element path on a container above the threshold or a loop-variable / parameter path with an integer; distinct by text. " +
			"Names (TestNames generated, TestNameShapes enumerated): the same attempts on constants whose name is drawn from every shape of an all-upper-case identifier (a capital, then capitals, digits and " +
			"underscores in any position: single letters, C1, A1B2, A_B, A__B, MAX_, A_B_, A__), and, on the other side of that definition, names spoiled in one place (leading underscore, one lower-case " +
			"letter), which are plain variables: re-binding them takes effect. Local (TestLocal): the constant (name of any shape, value of each type) is local to a function - bound in its body, in a block, " +
			"from or as a parameter, or in a function nested in it - that returns a map of closures, one reader and 1..4 attackers (the attempts above as closure bodies, and setters that get the new value " +
			"as an argument: =, :=, a parameter / loop variable with the constant's name, nested writers, index writes, with and without reading the constant first); the attackers are called after the " +
			"function returned (directly, through a stored reference, from another function, from a lambda passed to another function, from a loop) and after each call the reader must return the model's value.",
		Assumptions: []string{
			"re-assigning the value the constant already has is allowed (TestEvalIntegerExpression: ONE=1;ONE=1) and must leave it unchanged",
			"all upper case is what object.Constant accepts on the correct code: a capital letter followed by capitals, digits and underscores, the last position included; any other identifier is a plain variable (checked only as: binding it again takes effect); PI and E, bound before the first input, are not generated",
			"classes of the listed known findings are excluded by construction: K-C19-1 (upper-case integer parameter / counted-loop variable with registers) and K-C06-1 (mutation of a large container through an alias)",
		},
	})
}

const NAME = "LIMIT"

type Step struct {
	Src    string `json:"src"`
	Rebind string `json:"rebind,omitempty"` // the step deletes NAME and re-binds it to this value expression
	Prints bool   `json:"prints,omitempty"` // the step prints NAME (every line it prints is NAME's value) when it does not fail
}

type Case struct {
	Init  string `json:"init"` // value expression
	Steps []Step `json:"steps"`
	// The three below are empty in the cases of TestAttempts (and in the older replay / regress files).
	Name string `json:"name,omitempty"` // the attacked name; NAME when empty
	Bind string `json:"bind,omitempty"` // the input that binds it; "<name> = <init>" when empty
	Read string `json:"read,omitempty"` // the expression that evaluates to what it is bound to; the name itself when empty
}

func (c Case) name() string {
	if c.Name != "" {
		return c.Name
	}
	return NAME
}

func (c Case) bind() string {
	if c.Bind != "" {
		return c.Bind
	}
	return c.name() + " = " + c.Init
}

func (c Case) read() string {
	if c.Read != "" {
		return c.Read
	}
	return c.name()
}

// a closure factory: two values of it have the same text and differ in what they captured
const prelude = "mkc = c => x => x + c"

// probe: what the constant computes when it is a function (its text alone does not tell closures apart)
func probe(s *sess.S, read string) string {
	o, err := s.Obj("catch(" + read + "(1))")
	if err != nil {
		return "error: " + err.Error()
	}
	return o.Inspect()
}

func evalValue(expr string) (val.V, string, bool) {
	s := sess.New(sess.Config{})
	s.Run(prelude)
	o, err := s.Obj(expr)
	if err != nil {
		return val.V{}, "", false
	}
	if f, ok := o.(object.Function); ok {
		return val.V{}, f.Inspect(), true
	}
	v, err := gv.FromObject(o)
	if err != nil {
		return val.V{}, o.Inspect(), true
	}
	return v, "", true
}

func current(s *sess.S, read string) (val.V, string, error) {
	o, err := s.Obj(read)
	if err != nil {
		return val.V{}, "", err
	}
	if f, ok := o.(object.Function); ok {
		return val.V{}, f.Inspect(), nil
	}
	v, err := gv.FromObject(o)
	if err != nil {
		return val.V{}, o.Inspect(), nil
	}
	return v, "", nil
}

func printedForm(v val.V, insp string) string {
	if insp != "" {
		return insp
	}
	if v.K == val.Str {
		return v.S
	}
	return v.Inspect()
}

func check(c Case) error {
	pbt.InFlight("inflight", c)
	cn, read := c.name(), c.read()
	var outs [2][]sess.Res
	for mode, noreg := range []bool{false, true} {
		s := sess.New(sess.Config{NoReg: noreg})
		name := map[bool]string{false: "registers", true: "no registers"}[noreg]
		model, minsp, ok := evalValue(c.Init)
		if !ok {
			return fmt.Errorf("harness: cannot evaluate initial value %q", c.Init)
		}
		s.Run(prelude)
		if r := s.Run(c.bind()); r.Failed() {
			return fmt.Errorf("harness: cannot bind %s: %v", c.bind(), r.Errs)
		}
		probe0 := ""
		if minsp != "" {
			probe0 = probe(s, read)
		}
		hist := []string{c.bind()}
		for _, st := range c.Steps {
			hist = append(hist, st.Src)
			r := s.Run(st.Src)
			outs[mode] = append(outs[mode], r)
			if st.Rebind != "" {
				if r.Failed() {
					return fmt.Errorf("[%s] (del +) re-binding failed: %q: %v\nhistory:\n%s", name, st.Src, r.Errs, strings.Join(hist, "\n"))
				}
				model, minsp, _ = evalValue(st.Rebind)
				probe0 = ""
				if minsp != "" {
					probe0 = probe(s, read)
				}
			}
			if st.Prints && !r.Failed() && r.Out != "" {
				want := printedForm(model, minsp)
				for _, line := range strings.Split(strings.TrimSuffix(r.Out, "\n"), "\n") {
					if line != want {
						return fmt.Errorf("[%s] %q did not fail and printed %s as %q, but the constant is %q\nhistory:\n%s", name, st.Src, cn, line, want, strings.Join(hist, "\n"))
					}
				}
			}
			if probe0 != "" {
				if p := probe(s, read); p != probe0 {
					return fmt.Errorf("[%s] after %q: the function constant %s now computes %s for the argument 1, it computed %s\nhistory:\n%s", name, st.Src, cn, p, probe0, strings.Join(hist, "\n"))
				}
			}
			got, ginsp, err := current(s, read)
			if err != nil {
				return fmt.Errorf("[%s] after %q: %s cannot be read any more: %v\nhistory:\n%s", name, st.Src, cn, err, strings.Join(hist, "\n"))
			}
			if ginsp != minsp || (minsp == "" && !val.Identical(got, model)) {
				return fmt.Errorf("[%s] after %q: constant %s is now %s, it was bound to %s and never deleted\nhistory:\n%s",
					name, st.Src, cn, printedForm(got, ginsp), printedForm(model, minsp), strings.Join(hist, "\n"))
			}
		}
	}
	for i := range outs[0] {
		a, b := outs[0][i], outs[1][i]
		if a.Failed() != b.Failed() || a.Out != b.Out {
			return fmt.Errorf("attempt %q: with registers failed=%v output %q, without registers failed=%v output %q (initial value %s)",
				c.Steps[i].Src, a.Failed(), a.Out, b.Failed(), b.Out, c.Init)
		}
	}
	return nil
}

// ---- generation -----------------------------------------------------------------------------------------------------

func arr(n int) string {
	els := make([]string, n)
	for i := range els {
		els[i] = fmt.Sprint(i + 1)
	}
	return "[" + strings.Join(els, ", ") + "]"
}

func mp(n int) string {
	keys := []string{"k", "a", "b", "c", "d", "e", "f", "g", "h", "i", "j", "l", "m", "n", "o", "p", "q", "r", "s", "t"}
	ps := make([]string, n)
	for i := range ps {
		ps[i] = fmt.Sprintf("%q: %d", keys[i], i+1)
	}
	return "{" + strings.Join(ps, ", ") + "}"
}

var initPool = []string{"0.0", "-0.0", "[0.0, 1]", "mkc(1)", "5", "0", "-3", "9223372036854775807", "2.5", `"str"`, `""`, "true", "nil", arr(0), arr(1), arr(3), arr(8), arr(9), arr(10), arr(20),
	mp(0), mp(1), mp(4), mp(5), mp(6), mp(20), "x => x + 1", "func(a, b) { a }", "[[1, 2], [3]]", `{"k": [1, 2, 3, 4, 5, 6, 7, 8, 9]}`}

var otherVals = []string{"mkc(2)", "-0.0", "6", "0", `"other"`, "3.5", "false", "nil", "[9]", arr(9), `{"z": 1}`, mp(6), "x => x"}

func isContainer(init string) bool {
	return strings.HasPrefix(init, "[") || strings.HasPrefix(init, "{")
}
func isBig(init string) bool {
	return init == arr(9) || init == arr(10) || init == arr(20) || init == mp(5) || init == mp(6) || init == mp(20) || strings.HasPrefix(init, `{"k": [1, 2, 3, 4`)
}

var firstInt = regexp.MustCompile(`(^|[\[ :(-])([0-9]+)($|[\], }])`)

func nearEqual(init string) string {
	switch init {
	case "0.0":
		return "-0.0"
	case "-0.0":
		return "0.0"
	case "[0.0, 1]":
		return "[-0.0, 1]"
	case "mkc(1)":
		return "mkc(2)"
	}
	if strings.Contains(init, "=>") || strings.Contains(init, "func") {
		return init
	}
	loc := firstInt.FindStringSubmatchIndex(init)
	if loc == nil {
		return init
	}
	return init[:loc[5]] + ".0" + init[loc[5]:]
}

func attempts(t *rapid.T, init, N string) (Step, bool) {
	v := rapid.SampledFrom(otherVals).Draw(t, "v")
	nontrivial := false
	forms := []func() Step{
		func() Step { return Step{Src: N + " = " + v} },
		func() Step { return Step{Src: N + " := " + v} },
		func() Step { return Step{Src: N + " = " + init} }, // same value: allowed, unchanged
		func() Step { // a value that only ranks equal: the first integer in it written as a float (5 -> 5.0, [1, 2] -> [1.0, 2])
			if near := nearEqual(init); near != init {
				nontrivial = true
				if rapid.Bool().Draw(t, "nearinner") {
					return Step{Src: "func(){ " + N + " = " + near + " }()"}
				}
				return Step{Src: N + " = " + near}
			}
			return Step{Src: N + " = " + init}
		},
		func() Step { return Step{Src: N + "++"} },
		func() Step { return Step{Src: N + "--"} },
		func() Step { return Step{Src: "++" + N} },
		func() Step { return Step{Src: "println(--" + N + ")"} },
		func() Step { nontrivial = isBig(init); return Step{Src: N + "[0] = " + v} },
		func() Step { nontrivial = isBig(init); return Step{Src: N + "[-1] = " + v} },
		func() Step { nontrivial = isBig(init); return Step{Src: N + ".k = " + v} },
		func() Step { nontrivial = isBig(init); return Step{Src: N + `["a"] = ` + v} },
		func() Step { nontrivial = isBig(init); return Step{Src: "del(" + N + `["k"])`} },
		func() Step { nontrivial = isBig(init); return Step{Src: "del(" + N + ".a)"} },
		func() Step { return Step{Src: N + " = " + N + " + [1]"} },
		func() Step { return Step{Src: N + " = " + N + ` + {"zz": 1}`} },
		func() Step { return Step{Src: N + " = " + N + " + 1"} },
		func() Step {
			if excludeIntShadow() {
				pbt.Excluded(kIntShadow)
				return Step{Src: "for " + N + " = [1, 2] { println(" + N + ") }", Prints: true}
			}
			nontrivial = true
			return Step{Src: "for " + N + " = 3 { println(" + N + ") }", Prints: true}
		},
		func() Step {
			if excludeIntShadow() {
				pbt.Excluded(kIntShadow)
				return Step{Src: "for " + N + " = \"ab\" { println(" + N + ") }", Prints: true}
			}
			nontrivial = true
			return Step{Src: "for " + N + " = 1:3 { println(" + N + ") }", Prints: true}
		},
		func() Step { return Step{Src: "for " + N + " = [7, 8] { println(" + N + ") }", Prints: true} },
		func() Step { return Step{Src: "for " + N + " = {\"a\": 1} { println(" + N + ") }", Prints: true} },
		func() Step {
			arg := v
			if excludeIntShadow() && (arg == "6" || arg == "0") {
				pbt.Excluded(kIntShadow)
				arg = `"s"`
			} else if arg == "6" || arg == "0" {
				nontrivial = true
			}
			return Step{Src: "func fparam(" + N + ") { println(" + N + ") }; fparam(" + arg + ")", Prints: true}
		},
		func() Step {
			arg := v
			if excludeIntShadow() && (arg == "6" || arg == "0") {
				pbt.Excluded(kIntShadow)
				arg = "2.5"
			}
			return Step{Src: "((" + N + ", b) => { println(" + N + ") })(" + arg + ", 1)", Prints: true}
		},
		func() Step { return Step{Src: "func(){ " + N + " = " + v + " }()"} },
		func() Step { return Step{Src: "func(){ " + N + " := " + v + "; println(" + N + ") }()", Prints: true} },
		func() Step { return Step{Src: "func(){ for i = 2 { " + N + " = i } }()"} },
		func() Step { return Step{Src: "(() => { " + N + "++ })()"} },
		func() Step { return Step{Src: "func(){ inner = () => { " + N + " = " + v + " }; inner() }()"} },
		func() Step { nontrivial = isBig(init); return Step{Src: "func(){ " + N + "[0] = " + v + " }()"} },
		func() Step { return Step{Src: "func " + N + "() { 1 }"} },
		func() Step { return Step{Src: "func " + N + "(a) { a }; println(" + N + ")", Prints: false} },
		func() Step { return Step{Src: "println(" + N + ")", Prints: true} },
		func() Step {
			if excludeAlias(init) {
				pbt.Excluded(kInPlace)
				return Step{Src: "zz = " + N + "; zz = zz + [1]"}
			}
			return Step{Src: "zz = " + N + "; zz[0] = " + v}
		},
		func() Step {
			if excludeAlias(init) {
				pbt.Excluded(kInPlace)
				return Step{Src: "zz = [" + N + "]; println(len(zz))"}
			}
			return Step{Src: "zz = " + N + "; zz.k = " + v + "; del(zz.a)"}
		},
		func() Step {
			if excludeAlias(init) {
				pbt.Excluded(kInPlace)
				return Step{Src: "println(len(str(" + N + ")))"}
			}
			return Step{Src: "func mut(p) { p[0] = 9; p }; mut(" + N + ")"}
		},
		func() Step {
			nv := rapid.SampledFrom(otherVals).Draw(t, "rebind")
			return Step{Src: "del(" + N + "); " + N + " = " + nv, Rebind: nv}
		},
	}
	st := forms[rapid.IntRange(0, len(forms)-1).Draw(t, "form")]()
	return st, nontrivial
}

func TestAttempts(t *testing.T) {
	pbt.Check(t, 2500, 250000, func(rt *rapid.T) {
		c := Case{Init: rapid.SampledFrom(initPool).Draw(rt, "init")}
		cur := c.Init
		nt := false
		n := rapid.IntRange(3, 14).Draw(rt, "n")
		for i := 0; i < n; i++ {
			st, x := attempts(rt, cur, NAME)
			nt = nt || x
			c.Steps = append(c.Steps, st)
			if st.Rebind != "" {
				cur = st.Rebind
			}
		}
		if err := check(c); err != nil {
			pbt.Fail(rt, "attempts", c, "%v", err)
		}
		lbl := "attempts:scalar-or-small"
		if nt {
			lbl = "attempts:large-container-or-integer-shadow-path"
		}
		var sb strings.Builder
		sb.WriteString(c.Init)
		for _, s := range c.Steps {
			sb.WriteString("\n" + s.Src)
		}
		pbt.Case(nt, sb.String(), lbl)
		pbt.Sample("attempts", sb.String())
	})
}

func oracle(kind string, raw json.RawMessage) error {
	var c Case
	if err := json.Unmarshal(raw, &c); err != nil {
		return err
	}
	return check(c)
}

func TestReplay(t *testing.T)   { pbt.RunReplay(t, oracle) }
func TestARegress(t *testing.T) { pbt.RunRegress(t, "C19", oracle) }
