package c03

// Same input, same bytes, whatever the route: the formatted text that repl.EvalOne hands back (and shows) under
// each of its configurations must be the text that formatting the same input in that mode gives anywhere else.

import (
	"bytes"
	"context"
	"fmt"
	"strings"
	"testing"

	"grol.io/grol/eval"
	"grol.io/grol/repl"
	"pgregory.net/rapid"
	"verif/front"
	"verif/gen"
	"verif/known"
	"verif/pbt"
	"verif/sess"
)

type route struct {
	name                                           string
	formatOnly, showParse, dual, compact, showEval bool
	returnsCompact                                 bool // mode of the text EvalOne returns
	showsCompact                                   bool // mode of the text EvalOne shows (formatOnly / showParse)
}

// The configurations the command line can produce: -format, -format -compact, file / -c evaluation (nothing shown),
// -parse, -parse -compact, the interactive REPL (DualFormat: compact text returned for the history) without and
// with -parse (long form shown, compact form returned) and with -parse -compact.
var routes = []route{
	{name: "format", formatOnly: true},
	{name: "format-compact", formatOnly: true, compact: true, returnsCompact: true, showsCompact: true},
	{name: "eval", showEval: true},
	{name: "eval-compact", compact: true, showEval: true, returnsCompact: true},
	{name: "parse", showParse: true, showEval: true},
	{name: "parse-compact", showParse: true, compact: true, showEval: true, returnsCompact: true, showsCompact: true},
	{name: "repl", dual: true, showEval: true, returnsCompact: true},
	{name: "repl-parse", showParse: true, dual: true, showEval: true, returnsCompact: true},
	{name: "repl-parse-noeval", showParse: true, dual: true, returnsCompact: true},
	{name: "repl-parse-compact", showParse: true, dual: true, compact: true, showEval: true, returnsCompact: true, showsCompact: true},
}

const parseBanner = "== Parse ==> "

// checkRoutes sends the text through repl.EvalOne once per configuration and input mode (whole text / line mode),
// all on one interpreter state, and compares with the package's plain formatting of the same input.
// The evaluation context is already cancelled: the formatting happens, nothing of the program is executed.
func checkRoutes(c Case) (decided bool, err error) {
	sess.Init()
	text := string(c.Text)
	ctx, cancel := context.WithCancel(context.Background())
	cancel()
	st := eval.NewState()
	st.Out = &bytes.Buffer{}
	st.LogOut = st.Out
	st.NoLog = true
	for _, lineMode := range []bool{false, true} {
		p := front.Parse(text, lineMode)
		if !p.Accepted() {
			continue
		}
		var want [2]string // normal, compact
		ok := true
		for i, compact := range []bool{false, true} {
			f, ferr := front.Format(p.Prog, compact)
			if ferr != nil {
				ok = false
			}
			want[i] = f
		}
		if !ok {
			continue // a panicking printer is C02's subject
		}
		pick := func(compact bool) (string, string) {
			if compact {
				return want[1], "compact"
			}
			return want[0], "normal"
		}
		for _, r := range routes {
			out := &bytes.Buffer{}
			opts := repl.Options{
				All: !lineMode, FormatOnly: r.formatOnly, ShowParse: r.showParse, DualFormat: r.dual, Compact: r.compact,
				ShowEval: r.showEval, NoColor: true,
			}
			cont, panicked, _, formatted := repl.EvalOne(ctx, st, text, out, opts)
			if panicked {
				continue // not about formatting
			}
			where := fmt.Sprintf("repl.EvalOne configuration %s (line mode %v)", r.name, lineMode)
			if cont {
				return true, fmt.Errorf("harness: %s asks for a continuation of a text the parser accepts: %q", where, text)
			}
			decided = true
			exp, mode := pick(r.returnsCompact)
			if formatted != exp {
				return true, fmt.Errorf("%s returns a %s-mode text that differs from %s-mode formatting of the same input\ninput:    %q\nreturned: %q\nplain:    %q",
					where, mode, mode, text, formatted, exp)
			}
			shown, smode := pick(r.showsCompact)
			switch {
			case r.formatOnly:
				if out.String() != shown {
					return true, fmt.Errorf("%s writes a %s-mode text that differs from %s-mode formatting of the same input\ninput:   %q\nwritten: %q\nplain:   %q",
						where, smode, smode, text, out.String(), shown)
				}
			case r.showParse:
				if r.showsCompact {
					shown += "\n"
				}
				if !strings.HasPrefix(out.String(), parseBanner+shown) {
					return true, fmt.Errorf("%s shows a %s-mode text that differs from %s-mode formatting of the same input\ninput: %q\nshown: %q\nplain: %q",
						where, smode, smode, text, out.String(), parseBanner+shown)
				}
			}
		}
	}
	return decided, nil
}

// ---- programs whose first and last printed pieces matter ---------------------------------------------------------

// signHeads: first statements whose text starts with a unary operator or with the one signed literal.
func signHeads() []namedStmt {
	var out []namedStmt
	for _, op := range gen.PrefixOps {
		op := op
		out = append(out, namedStmt{"prefix" + op + "int", func() *gen.Node { return gen.Prefix(op, gen.IntLit("1")) }})
		out = append(out, namedStmt{"prefix" + op + "id", func() *gen.Node { return gen.Prefix(op, gen.Id("a")) }})
	}
	out = append(out,
		namedStmt{"minint", func() *gen.Node { return gen.IntLit("-9223372036854775808") }},
		namedStmt{"neg+infix", func() *gen.Node { return gen.Infix("*", gen.Prefix("-", gen.Id("a")), gen.IntLit("2")) }},
		namedStmt{"pos+infix", func() *gen.Node { return gen.Infix("-", gen.Prefix("+", gen.IntLit("2")), gen.Id("b")) }},
		namedStmt{"minint+infix", func() *gen.Node { return gen.Infix("+", gen.IntLit("-9223372036854775808"), gen.IntLit("1")) }},
		namedStmt{"neg-paren", func() *gen.Node { return gen.Prefix("-", gen.Infix("+", gen.Id("a"), gen.Id("b"))) }},
		namedStmt{"ident", func() *gen.Node { return gen.Id("a") }},
	)
	return out
}

// signTails: last statements whose last printed piece ends with an operator character.
func signTails() []namedStmt {
	var out []namedStmt
	for _, op := range []string{"++", "--"} {
		op := op
		out = append(out,
			namedStmt{"postfix" + op, func() *gen.Node { return gen.Postfix(op, "b") }},
			namedStmt{"assign-postfix" + op, func() *gen.Node { return gen.Assign("c", gen.Postfix(op, "b")) }},
			namedStmt{"infix-postfix" + op, func() *gen.Node { return gen.Infix("*", gen.Id("a"), gen.Postfix(op, "i")) }},
		)
	}
	out = append(out,
		namedStmt{"comment-", func() *gen.Node { return gen.Comment("// ends with -") }},
		namedStmt{"comment+", func() *gen.Node { return gen.Comment("// ends with +") }},
		namedStmt{"comment--", func() *gen.Node { return gen.Comment("// --") }},
		namedStmt{"ident", func() *gen.Node { return gen.Id("b") }},
	)
	return out
}

type namedStmt struct {
	Name string
	Make func() *gen.Node
}

func routeCase(t pbt.TB, kind string, stmts []*gen.Node, text, what string) bool {
	c := Case{Text: pbt.Txt(text)}
	decided, err := checkRoutes(c)
	if err != nil {
		pbt.Fail(t, kind, c, "%s: %v", what, err)
	}
	// the first statement of a program is outside the class of K-C02-2, so the plain fixpoint check applies as well
	if !excluded(stmts) {
		if _, err := check(c); err != nil {
			pbt.Fail(t, kind, c, "%s: %v", what, err)
		}
	}
	return decided
}

// TestRouteEnds: every (sign-starting first statement, operator-ending last statement) pair, alone and around other
// statements, through every configuration of repl.EvalOne.
func TestRouteEnds(t *testing.T) {
	middles := [][]*gen.Node{
		nil,
		{gen.Assign("b", gen.IntLit("5"))},
		{gen.Assign("b", gen.IntLit("5")), gen.If(gen.Id("a"), []*gen.Node{gen.Postfix("--", "b")}), gen.Println(gen.Id("b"))},
	}
	idx := 0
	for _, h := range signHeads() {
		for _, tl := range signTails() {
			for mi := range middles {
				idx++
				if !pbt.Mine(idx) {
					continue
				}
				stmts := []*gen.Node{h.Make()}
				for _, m := range middles[mi] {
					stmts = append(stmts, m.Clone())
				}
				stmts = append(stmts, tl.Make())
				for _, sameLine := range []bool{false, true} {
					o := gen.PrintOptions{}
					if sameLine {
						o.Choose = func(n int) int { return 0 }
					}
					text := gen.Print(stmts, o)
					routeCase(t, "route-ends", stmts, text, fmt.Sprintf("first statement %s, %d between, last statement %s", h.Name, len(middles[mi]), tl.Name))
					pbt.CaseExact(true, "route-ends")
				}
			}
		}
	}
}

func genEnd(rt_ *rapid.T, pool []namedStmt, c gen.SynCfg, head bool) *gen.Node {
	if rapid.IntRange(0, 2).Draw(rt_, "endpool") > 0 {
		return pool[rapid.IntRange(0, len(pool)-1).Draw(rt_, "end")].Make()
	}
	if head {
		switch rapid.IntRange(0, 2).Draw(rt_, "headform") {
		case 0:
			return gen.Prefix(rapid.SampledFrom(gen.PrefixOps).Draw(rt_, "pop"), gen.SynExpr(rt_, c, 1))
		case 1:
			return gen.Infix(rapid.SampledFrom(gen.InfixOps).Draw(rt_, "op"),
				gen.Prefix(rapid.SampledFrom(gen.PrefixOps).Draw(rt_, "pop"), gen.SynExpr(rt_, c, 0)), gen.SynExpr(rt_, c, 1))
		default:
			return gen.Infix(rapid.SampledFrom(gen.InfixOps).Draw(rt_, "op"), gen.IntLit("-9223372036854775808"), gen.SynExpr(rt_, c, 1))
		}
	}
	post := gen.Postfix(rapid.SampledFrom([]string{"++", "--"}).Draw(rt_, "postop"), gen.SynIdent().Draw(rt_, "id"))
	switch rapid.IntRange(0, 3).Draw(rt_, "tailform") {
	case 0:
		return post
	case 1:
		return gen.Infix(rapid.SampledFrom([]string{"=", ":="}).Draw(rt_, "asg"), gen.Id(gen.SynIdent().Draw(rt_, "lhs")), post)
	case 2:
		return gen.Infix(rapid.SampledFrom(gen.InfixOps).Draw(rt_, "op"), gen.SynExpr(rt_, c, 1), post)
	default:
		return gen.Comment("// " + rapid.SampledFrom([]string{"-", "+", "x--", "y ++", "a - b", "+1"}).Draw(rt_, "ctext"))
	}
}

// genRouteProgram: a generated program, most of the time given a first statement that starts with a sign and / or a
// last statement that ends with one.
func genRouteProgram(rt_ *rapid.T) ([]*gen.Node, string) {
	cfg := gen.SynCfg{MaxDepth: rapid.IntRange(1, 2).Draw(rt_, "depth"), MaxStmts: 3, Comments: true}
	var stmts []*gen.Node
	if rapid.IntRange(0, 3).Draw(rt_, "middle") > 0 {
		stmts = gen.SynProgram(rt_, cfg)
		if n := rapid.IntRange(0, len(stmts)).Draw(rt_, "keep"); n < len(stmts) {
			stmts = stmts[:n]
		}
	}
	ends := rapid.IntRange(0, 7).Draw(rt_, "ends")
	if ends&1 != 0 || ends == 0 {
		stmts = append([]*gen.Node{genEnd(rt_, signHeads(), cfg, true)}, stmts...)
	}
	if ends&2 != 0 || ends == 0 || len(stmts) == 0 {
		stmts = append(stmts, genEnd(rt_, signTails(), cfg, false))
	}
	// a bare return in the middle would swallow what follows
	for i, s := range stmts {
		if s.K == gen.KReturn && len(s.Kids) == 0 && i < len(stmts)-1 {
			stmts[i] = gen.Return(gen.Id("nil"))
		}
	}
	if excluded(stmts) {
		pbt.Excluded(known.SignStartStatement)
		stmts = known.Repair(stmts)
	}
	return stmts, gen.Print(stmts, gen.PrintOptions{Choose: gen.RapidChooser(rt_)})
}

// TestRoutes: generated programs through every configuration of repl.EvalOne.
func TestRoutes(t *testing.T) {
	pbt.Check(t, 1200, 60000, func(rt_ *rapid.T) {
		stmts, text := genRouteProgram(rt_)
		decided := routeCase(rt_, "route", stmts, text, "generated")
		lbl := "routes:decided"
		if !decided {
			lbl = "routes:skipped(not accepted)"
		}
		pbt.Case(decided && nontrivial(text), text, lbl)
		pbt.Sample("route", text)
	})
}

// TestRouteExamples: the shipped examples through every configuration.
func TestRouteExamples(t *testing.T) {
	for i, src := range corpus {
		if !pbt.Mine(i) {
			continue
		}
		if strings.Contains(src, "macro") {
			continue // expanding a macro runs its body: nothing is executed here, and the expansion would only log that
		}
		c := Case{Text: pbt.Txt(src)}
		decided, err := checkRoutes(c)
		if err != nil {
			pbt.Fail(t, "route-example", c, "example %d: %v", i, err)
		}
		pbt.CaseExact(decided, "route-example")
	}
}
