// C03 — formatting is canonical: a deterministic fixpoint.
package c03

import (
	"encoding/json"
	"fmt"
	"os"
	"os/exec"
	"path/filepath"
	"sort"
	"strings"
	"testing"

	"pgregory.net/rapid"
	"verif/front"
	"verif/gen"
	"verif/known"
	"verif/pbt"
	"verif/rt"
)

func TestMain(m *testing.M) {
	if os.Getenv("VERIF_C03_CHILD") != "" {
		childMain()
		return
	}
	pbt.Main(m, pbt.Meta{
		Property: "C03",
		Level:    "exploration",
		Rule: "accepted program texts (generated from harness-owned trees with random layout and comments before/after/between statements, on the same or next line, " +
			"after '{' and before '}'; every ordered pair of 35 statement shapes; the shipped examples) are formatted twice per mode: format(format(t)) must equal format(t) byte for byte, " +
			"normal-mode output must end with exactly one newline, formatting the same tree again must give the same bytes; batches of programs are formatted in generated order, in a permuted " +
			"order interleaved with parsing unrelated texts (token interning), and in a child process (fresh map seed): the bytes per program must not depend on any of that. " +
			"Routes: generated programs (most given a first statement that starts with a unary operator or the smallest integer and / or a last statement that ends with a postfix ++/-- or a comment ending in a sign), " +
			"every pair of 20 such first and 10 such last statements, and the shipped examples are sent through repl.EvalOne under the 10 configurations the command line can produce (format only, evaluation, -parse, " +
			"interactive with and without -parse, each normal and compact; whole-text and line mode; one interpreter state, nothing executed): the text returned (history) and the text shown must be byte for byte " +
			"what plain formatting of the same input gives in that mode. " +
			"Non-trivial: program with >= 1 comment or >= 1 map literal or >= 2 statements; distinct by text.",
		Assumptions: []string{
			"idempotence is only claimed for text the parser accepts; inputs whose first formatting does not re-parse are C02's subject and are skipped here",
			"programs of the class of known finding K-C02-2 (statement starting with a unary sign after another statement, normal mode) are excluded by construction: their first formatting re-parses to a different tree, so the second pass necessarily differs",
			"texts with comments in operand position are skipped",
		},
	})
}

type Case struct {
	Text pbt.Txt `json:"text"`
}

func check(c Case) (bool, error) { return rt.Fixpoint(string(c.Text)) }

func nontrivial(text string) bool {
	return strings.Contains(text, "//") || strings.Contains(text, "/*") || strings.Contains(text, "{") || strings.Count(strings.TrimSpace(text), "\n") >= 1 || strings.Contains(text, ";")
}

func excluded(stmts []*gen.Node) bool {
	return known.Classes(stmts)[known.SignStartStatement]
}

func TestAdjacency(t *testing.T) {
	sts := rt.Statements()
	idx := 0
	for _, a := range sts {
		for _, b := range sts {
			for _, inBlock := range []bool{false, true} {
				idx++
				if !pbt.Mine(idx) {
					continue
				}
				stmts := []*gen.Node{a.Make(), b.Make()}
				if inBlock {
					stmts = []*gen.Node{gen.Func("w", nil, false, stmts...)}
				}
				if excluded(stmts) {
					pbt.Excluded(known.SignStartStatement)
					continue
				}
				for _, sameLine := range []bool{false, true} {
					text := gen.Print(stmts, gen.PrintOptions{})
					if sameLine {
						// everything on one line where the grammar allows it (line comments keep their newline)
						text = gen.Print(stmts, gen.PrintOptions{Choose: func(n int) int { return 0 }})
					}
					c := Case{Text: pbt.Txt(text)}
					if _, err := check(c); err != nil {
						pbt.Fail(t, "adjacency", c, "statements %s then %s: %v", a.Name, b.Name, err)
					}
					pbt.CaseExact(true, "adjacency")
				}
			}
		}
	}
}

func genProgram(rt_ *rapid.T) ([]*gen.Node, string) {
	cfg := gen.SynCfg{MaxDepth: rapid.IntRange(1, 3).Draw(rt_, "depth"), MaxStmts: 4, Comments: true}
	stmts := gen.SynProgram(rt_, cfg)
	if excluded(stmts) {
		pbt.Excluded(known.SignStartStatement)
		stmts = known.Repair(stmts)
	}
	o := gen.PrintOptions{Choose: gen.RapidChooser(rt_)}
	return stmts, gen.Print(stmts, o)
}

func TestGenerated(t *testing.T) {
	pbt.Check(t, 6000, 500000, func(rt_ *rapid.T) {
		_, text := genProgram(rt_)
		c := Case{Text: pbt.Txt(text)}
		decided, err := check(c)
		if err != nil {
			pbt.Fail(rt_, "generated", c, "%v", err)
		}
		lbl := "generated:decided"
		if !decided {
			lbl = "generated:skipped(not accepted / operand comment / C02)"
		}
		if strings.Contains(text, "//") || strings.Contains(text, "/*") {
			pbt.Label("generated:with-comment")
		}
		pbt.Case(decided && nontrivial(text), text, lbl)
		pbt.Sample("generated", text)
	})
}

var corpus = func() []string {
	var out []string
	for _, g := range []string{"/repo/examples/*.gr", "/repo/tests/*.gr"} {
		files, _ := filepath.Glob(g)
		sort.Strings(files)
		for _, f := range files {
			if b, err := os.ReadFile(f); err == nil && len(b) < 8000 {
				out = append(out, string(b))
			}
		}
	}
	return out
}()

func textExcluded(text string) bool {
	p := front.Parse(text, false)
	return p.Accepted() && known.AstClasses(p.Prog)[known.SignStartStatement]
}

func TestExamples(t *testing.T) {
	if len(corpus) < 5 {
		t.Fatalf("harness: shipped examples not found")
	}
	for i, src := range corpus {
		if !pbt.Mine(i) {
			continue
		}
		if textExcluded(src) {
			pbt.Excluded(known.SignStartStatement)
			continue
		}
		c := Case{Text: pbt.Txt(src)}
		decided, err := check(c)
		if err != nil {
			pbt.Fail(t, "example", c, "%v", err)
		}
		pbt.CaseExact(decided, "example")
	}
}

// ---- determinism: order of inputs, other process ---------------------------------------------------------

type Batch struct {
	Texts []pbt.Txt `json:"texts"`
	Perm  []int     `json:"perm"`
}

func formatAll(texts []pbt.Txt, order []int, noise bool) map[int][2]string {
	out := map[int][2]string{}
	for k, i := range order {
		if noise {
			// parse unrelated text in between: interns many new tokens
			front.Parse(fmt.Sprintf("noise%d = [%d, \"s%d\", zz%d.k%d] // c%d\n", k, k, k, k, k, k), k%2 == 0)
		}
		p := front.Parse(string(texts[i]), false)
		if !p.Accepted() {
			out[i] = [2]string{"<rejected>", "<rejected>"}
			continue
		}
		a, _ := front.Format(p.Prog, false)
		b, _ := front.Format(p.Prog, true)
		out[i] = [2]string{a, b}
	}
	return out
}

func childMain() {
	b, err := os.ReadFile(os.Getenv("VERIF_C03_CHILD"))
	if err != nil {
		os.Exit(3)
	}
	var batch Batch
	if json.Unmarshal(b, &batch) != nil {
		os.Exit(3)
	}
	order := make([]int, len(batch.Texts))
	for i := range order {
		order[len(order)-1-i] = i // reverse order in the child
	}
	res := formatAll(batch.Texts, order, true)
	outs := make([][2]string, len(batch.Texts))
	for i := range outs {
		outs[i] = res[i]
	}
	ob, _ := json.Marshal(outs)
	_ = os.WriteFile(os.Getenv("VERIF_C03_CHILD")+".out", ob, 0o644)
	os.Exit(0)
}

func checkBatch(b Batch, withChild bool) error {
	n := len(b.Texts)
	ident := make([]int, n)
	for i := range ident {
		ident[i] = i
	}
	ref := formatAll(b.Texts, ident, false)
	perm := formatAll(b.Texts, b.Perm, true)
	for i := 0; i < n; i++ {
		if ref[i] != perm[i] {
			return fmt.Errorf("formatting depends on the order of inputs: program %q gives\n%q\nin order, but\n%q\nwhen formatted at another position among other inputs", b.Texts[i], ref[i], perm[i])
		}
	}
	if !withChild {
		return nil
	}
	dir, err := os.MkdirTemp("", "verif-c03-")
	if err != nil {
		return nil
	}
	defer os.RemoveAll(dir)
	in := filepath.Join(dir, "batch.json")
	raw, _ := json.Marshal(b)
	_ = os.WriteFile(in, raw, 0o644)
	cmd := exec.Command(os.Args[0], "-test.run=^$")
	cmd.Env = append(os.Environ(), "VERIF_C03_CHILD="+in, "VERIF_STATS=")
	if out, err := cmd.CombinedOutput(); err != nil {
		return fmt.Errorf("harness: child process failed: %v %s", err, out)
	}
	ob, err := os.ReadFile(in + ".out")
	if err != nil {
		return fmt.Errorf("harness: child wrote nothing")
	}
	var outs [][2]string
	if json.Unmarshal(ob, &outs) != nil || len(outs) != n {
		return fmt.Errorf("harness: bad child output")
	}
	for i := 0; i < n; i++ {
		if ref[i] != outs[i] {
			return fmt.Errorf("formatting differs between processes: program %q gives\n%q\nhere, but\n%q\nin another process", b.Texts[i], ref[i], outs[i])
		}
	}
	return nil
}

func bigMapProgram(rt_ *rapid.T) string {
	n := rapid.IntRange(9, 16).Draw(rt_, "pairs")
	keys := rapid.Permutation([]string{`"a"`, `"b"`, "1", "2", "x", "y", `"zz"`, "3.5", "[1]", "true", "nil", `"k"`, "10", "11", `"q"`, "f(1)"}).Draw(rt_, "keys")
	var ps []string
	for i := 0; i < n; i++ {
		ps = append(ps, keys[i]+": "+fmt.Sprint(i))
	}
	return "m = {" + strings.Join(ps, ", ") + "}\n"
}

func TestDeterminism(t *testing.T) {
	children := 0
	maxChildren := pbt.N(1, 3) // per shard
	pbt.Check(t, 240, 8000, func(rt_ *rapid.T) {
		n := rapid.IntRange(3, 12).Draw(rt_, "n")
		var b Batch
		for i := 0; i < n; i++ {
			if rapid.IntRange(0, 3).Draw(rt_, "bigmap") == 0 {
				b.Texts = append(b.Texts, pbt.Txt(bigMapProgram(rt_)))
			} else {
				_, text := genProgram(rt_)
				b.Texts = append(b.Texts, pbt.Txt(text))
			}
		}
		idx := make([]int, n)
		for i := range idx {
			idx[i] = i
		}
		b.Perm = rapid.Permutation(idx).Draw(rt_, "perm")
		withChild := children < maxChildren
		if withChild {
			children++
			pbt.Label("determinism:child-process")
		}
		if err := checkBatch(b, withChild); err != nil {
			pbt.Fail(rt_, "batch", b, "%v", err)
		}
		pbt.Case(true, fmt.Sprint(b.Texts), "determinism:batch")
		pbt.Sample("batch", b.Texts[:2])
	})
}

func FuzzFormatIdempotent(f *testing.F) {
	for _, c := range corpus {
		f.Add(c)
	}
	f.Add("a = 1 // x\n/* c */ b = 2\nif a { // d\n b }\n")
	f.Fuzz(func(t *testing.T, in string) {
		if len(in) > 3000 || textExcluded(in) {
			return
		}
		if _, err := check(Case{Text: pbt.Txt(in)}); err != nil {
			pbt.Fail(t, "fuzz", Case{Text: pbt.Txt(in)}, "%v", err)
		}
	})
}

func oracle(kind string, raw json.RawMessage) error {
	if kind == "batch" {
		var b Batch
		if err := json.Unmarshal(raw, &b); err != nil {
			return err
		}
		return checkBatch(b, true)
	}
	var c Case
	if err := json.Unmarshal(raw, &c); err != nil {
		return err
	}
	if strings.HasPrefix(kind, "route") {
		if _, err := checkRoutes(c); err != nil {
			return err
		}
		if textExcluded(string(c.Text)) {
			return nil
		}
	}
	_, err := check(c)
	return err
}

func TestReplay(t *testing.T)   { pbt.RunReplay(t, oracle) }
func TestARegress(t *testing.T) { pbt.RunRegress(t, "C03", oracle) }
