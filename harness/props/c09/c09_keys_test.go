// C09 — growth through container-typed map keys: a small value that stands for a huge one because one map is
// referenced from many places and the references sit in the KEYS of the maps (a map whose key is an array
// repeating the previous level, several levels deep). Comparing, indexing with, printing or converting such a
// value walks all of it, as often as it is referred to, in one go outside of the evaluator: it has to be
// refused like the values that share through array elements or map values.
package c09

import (
	"fmt"
	"strings"
	"testing"

	"pgregory.net/rapid"
	"verif/pbt"
)

// keyShareForms: the deterministic programs of the family (part of growthForms).
func keyShareForms() []string {
	return []string{
		"k = [1]; for 2 { k = {[k] * 100: 1} }; big = [k] * 100000; m = {big: 1}; len(m)",
		"k = 1; for 14 { k = {[k, k]: 1} }; big = [k] * 1000000; big == big",
		"k = 1; for 8 { k = {[k, k, k]: k} }; big = [k] * 100000; b2 = [k] * 100000; big < b2",
		"k = \"x\"; for 7 { k = {{1: k, 2: k, 3: k, 4: k}: 1} }; big = [k] * 1000000; len(str(big))",
		"k = [1]; for 2 { k = {\"a\": 1, [k] * 100: 2} }; big = [[k] * 1000] * 1000; len(json(big))",
		"k = 1; for 3 { k = {{[k] * 30: 0}: \"v\"} }; big = [k] * 500000; len(sprintf(\"%v\", big))",
		"k = [1]; for 2 { k = {[k] * 100: 1} }; big = [k] * 100000; m = {}; m[big] = 1; m[big]",
		"k = {1: 2}; for 4 { k = {[[k] * 10]: nil} }; big = {\"a\": [k] * 1000000}; BIG = big; BIG = big; 1",
		"k = [1]; for 2 { k = {[k] * 100: 1} }; x = {k: 1}; y = {k: 1}; [x] * 100000 == [y] * 100000",
	}
}

// keyShareUses: the places that compare or write out whole values, applied to v (w is a distinct value equal to v).
func keyShareUses(v, w string) []string {
	return []string{
		v + " == " + v,
		v + " == " + w,
		v + " != " + w,
		v + " < " + w,
		"if " + v + " == " + w + " { 1 }",
		"[" + v + "] + [" + w + "] == [" + w + ", " + v + "]",
		"{1: " + v + "} == {1: " + w + "}",
		"m = {" + v + ": 1}; len(m)",
		"m = {}; m[" + v + "] = 1; m[" + w + "]",
		"m = {" + v + ": 1}; m[" + w + "]",
		"m = {" + v + ": 1}; m[" + w + "] = 2; len(m)",
		"m = {" + v + ": 1}; del(m[" + w + "]); len(m)",
		"len({" + v + ": 1} + {" + w + ": 2})",
		"keys({" + v + ": 1})",
		"len(str(" + v + "))",
		"len(json(" + v + "))",
		"len(sprintf(\"%v\", " + v + "))",
		"println(" + v + ")",
		v,
		"error(\"e\", " + v + ")",
		"min(" + v + ", " + v + ")",
		"max(" + v + ", " + w + ") == 1",
		"f = x => x; f(" + v + ") == f(" + w + ")",
		"m = {1: " + v + ", 2: " + w + "}; m[1] < m[2]",
		"for x = [" + v + "] { if x == " + w + " { break } }",
		"ABC = " + v + "; ABC = " + w + "; 1",
	}
}

// genKeyShare draws one program: a leaf, levels of maps whose key refers to the previous level several times
// (until one of them written out has about `target` nodes: building it stays cheap), a container referring to
// the last level many times, and one place that compares or writes out whole values.
func genKeyShare(t *rapid.T) Case {
	c := Case{
		Family:   "growth-keys",
		Deadline: rapid.SampledFrom([]int{100, 300, 1000}).Draw(t, "deadline"), // long enough for the building part
		MemMiB:   rapid.SampledFrom([]int{64, 128}).Draw(t, "mem"),
		MaxDepth: rapid.SampledFrom([]int{10, 50, 500, 5000}).Draw(t, "depth"),
	}
	k := rapid.SampledFrom([]string{"k", "a", "lvl", "x1"}).Draw(t, "name")
	leaf := rapid.SampledFrom([]string{"1", "[1]", "\"x\"", "{1: 2}", "[]", "nil"}).Draw(t, "leaf")
	fan := rapid.SampledFrom([]int{2, 3, 4, 5, 10, 30, 100}).Draw(t, "fan")
	target := rapid.SampledFrom([]int{10000, 30000, 100000}).Draw(t, "target")
	uniform := rapid.Bool().Draw(t, "uniform")

	// one level: {KEY: VALUE} with KEY referring fan times to the previous level
	level := func(i int) (string, int) {
		lbl := fmt.Sprintf("%d", i)
		refs := fan
		var key string
		switch shape := rapid.IntRange(0, 4).Draw(t, "keyshape"+lbl); {
		case shape == 0 && fan <= 5: // an array literal
			key = "[" + strings.TrimSuffix(strings.Repeat(k+", ", fan), ", ") + "]"
		case shape == 1 && fan <= 5: // a map (as a key) whose values are the previous level
			var sb strings.Builder
			for j := 0; j < fan; j++ {
				fmt.Fprintf(&sb, "%d: %s, ", j, k)
			}
			key = "{" + strings.TrimSuffix(sb.String(), ", ") + "}"
		case shape == 2: // one more array around
			key = fmt.Sprintf("[[%s] * %d]", k, fan)
		case shape == 3: // a map (as a key) whose own key is the array
			key = fmt.Sprintf("{[%s] * %d: 0}", k, fan)
		default:
			key = fmt.Sprintf("[%s] * %d", k, fan)
		}
		val := rapid.SampledFrom([]string{"1", "\"v\"", "nil", "true", k, "[" + k + "]"}).Draw(t, "val"+lbl)
		if strings.Contains(val, k) {
			refs++
		}
		entry := key + ": " + val
		switch rapid.IntRange(0, 3).Draw(t, "extra"+lbl) { // an ordinary entry next to it
		case 0:
			entry = "\"a\": 1, " + entry
		case 1:
			entry += ", 7: [2]"
		}
		return k + " = {" + entry + "}", refs
	}

	var sb strings.Builder
	fmt.Fprintf(&sb, "%s = %s; ", k, leaf)
	size, levels := 1, 0
	if uniform {
		stmt, refs := level(0)
		for size*refs <= target {
			size *= refs
			levels++
		}
		for levels < 2 { // several levels even with the largest keys
			size *= refs
			levels++
		}
		fmt.Fprintf(&sb, "for %d { %s }; ", levels, stmt)
	} else {
		for levels < 40 {
			stmt, refs := level(levels)
			if levels > 1 && size*refs > target { // (at least two levels)
				break
			}
			size *= refs
			levels++
			sb.WriteString(stmt + "; ")
		}
	}

	// the value referring to the last level many times (far fewer times than what fits the budget)
	rep := rapid.SampledFrom([]int{100000, 300000, 1000000}).Draw(t, "repeat")
	big := rapid.SampledFrom([]string{"big", "v", "all"}).Draw(t, "bigname")
	var mk func(name string) string
	switch rapid.IntRange(0, 3).Draw(t, "top") {
	case 0:
		mk = func(name string) string { return fmt.Sprintf("%s = [[%s] * 1000] * %d; ", name, k, rep/1000) }
	case 1:
		mk = func(name string) string { return fmt.Sprintf("%s = {\"a\": [%s] * %d}; ", name, k, rep) }
	case 2: // one more map with the last level as its key, referred to many times
		mk = func(name string) string {
			return fmt.Sprintf("%s = {%s: 1}; %s = [%s] * %d; ", name, k, name, name, rep)
		}
	default:
		mk = func(name string) string { return fmt.Sprintf("%s = [%s] * %d; ", name, k, rep) }
	}
	sb.WriteString(mk(big) + mk(big+"2"))
	use := rapid.SampledFrom(keyShareUses(big, big+"2")).Draw(t, "use")
	if rapid.IntRange(0, 3).Draw(t, "infunc") == 0 {
		use = "g = () => { " + use + " }; g()"
	}
	sb.WriteString(use)
	c.Program = sb.String()
	return c
}

// TestKeySharing: the generated part of the key-sharing growth family (the deterministic part is in TestGrowthForms).
func TestKeySharing(t *testing.T) {
	pbt.Check(t, 6, 300, func(rt *rapid.T) {
		c := genKeyShare(rt)
		o, err := check(c)
		if err != nil {
			pbt.Fail(rt, "case", c, "%v\nprogram: %.600s", err, c.Program)
		}
		lbl := "guard:" + o.guard
		if o.guard == "" {
			lbl = "no-guard-fired(program ended or failed otherwise)"
		}
		key := fmt.Sprintf("%s|%d|%d|%d|%s", c.Family, c.MaxDepth, c.Deadline, c.MemMiB, c.Program)
		pbt.Case(o.guard != "", key, lbl, "family:"+c.Family)
		pbt.Sample(c.Family, c)
	})
}
