// C09 — execution is bounded: depth, time and memory guards always hold.
package c09

import (
	"context"
	"encoding/json"
	"fmt"
	mbig "math/big"
	"os"
	"os/exec"
	"path/filepath"
	"runtime/debug"
	"strings"
	"testing"
	"time"

	"fortio.org/log"
	"grol.io/grol/extensions"
	"grol.io/grol/repl"
	"pgregory.net/rapid"
	"verif/child"
	"verif/pbt"
)

func TestMain(m *testing.M) {
	child.Dispatch(map[string]child.Handler{"c09": childMain})
	pbt.Main(m, pbt.Meta{
		Property: "C09",
		Level:    "exploration",
		Rule: "one child process per case evaluates a generated program through repl.EvalStringWithOption with a depth limit (10 .. default), a deadline (1 ms .. 1 s) and GOMEMLIMIT (64 / 128 / 256 MiB; RLIMIT_AS " +
			"as a safety net, harness kill timer at deadline + 30 s). Program families: non-terminating loops with and without allocation, unbounded direct / mutual / closure / self recursion, growth operators with huge " +
			"operands and doubling loops (string and array + and *, ranges, map merge, join, runes, split) including products that overflow, deeply nested source text (parentheses, brackets, blocks, lambdas, prefix " +
			"operators; depth 10^2 .. 2*10^6, source text up to 1 MB), sleep. Growth also covers small values that stand for huge ones through sharing, including (family growth-keys: TestKeySharing, generated, and part of TestGrowthForms) " +
			"sharing that goes through container-typed map keys: a few levels of maps whose key is an array / map referring 2 .. 100 times to the previous level, a container referring 10^5 .. 10^6 times to the last one, " +
			"then compared, used as a key, printed or converted (str, json, sprintf, min / max, constant re-binding). Oracle: the child exits by itself (no Go fatal error, no signal, no kill timer); the evaluation call returns within deadline + 3 s + 1 s per 64 MiB of memory limit (timed inside the child; the check that refuses a value walks it up to the memory budget, which nothing interrupts); peak RSS <= 3 x GOMEMLIMIT + 128 MiB; unbounded " +
			"recursion is reported as a 'max depth' failure. Non-trivial: a guard actually fired (deadline, max depth, memory refusal, nesting limit), read from the child's report; distinct by (program, configuration).",
		Assumptions: []string{
			"time and memory are measured quantities: the tolerances (3 s, 3x + 128 MiB) are explicit and wide; a case over the time bound is re-run alone twice and only counts when it exceeds every time",
			"the depth limit bounds stack use, which GOMEMLIMIT does not govern: recursion families pair large depth limits (default 150000) with a 2 GiB memory limit and small limits (<= 5000) with the small memory limits",
			"'all cancellation instants' is sampled through the generated deadlines, not enumerated",
			"EvalStringWithOption returns the formatted program text by contract; in the indented (non-compact) format that text is quadratic in block nesting depth and is produced before evaluation starts, outside the deadline: " +
				"block nesting between 3000 levels and the parser's limit (10000) is generated with the compact format only",
			"unbounded recursion on the Go stack (parser, printer, evaluator) kills the process only once the stack reaches Go's limit (1 GB by default), which needs sources of tens of megabytes; the nesting family " +
				"runs the child with a 32 MiB limit instead (debug.SetMaxStack), so that recursion not bounded by the parser's nesting limit or the depth limit is fatal within 1 MB of source; bounded recursion (10000 levels) fits many times",
			"sprintf width specifiers are not 'operators that grow containers or strings' and are not generated",
		},
	})
}

type Case struct {
	Family   string `json:"family"`
	Program  string `json:"program"`
	MaxDepth int    `json:"max_depth"`   // 0 = default
	Deadline int    `json:"deadline_ms"` // evaluation deadline
	MemMiB   int    `json:"mem_mib"`     // GOMEMLIMIT
	Compact  bool   `json:"compact,omitempty"`
	StackMiB int    `json:"stack_mib,omitempty"` // Go's maximum stack size in the child (0 = default, 1 GB)
}

type Report struct {
	Errs    []string `json:"errs"`
	OutLen  int      `json:"out_len"`
	ElapsMs int64    `json:"elapsed_ms"`
}

func childMain(raw json.RawMessage) int {
	var c Case
	if json.Unmarshal(raw, &c) != nil {
		return 90
	}
	log.SetLogLevelQuiet(log.Critical)
	_ = extensions.Init(nil)
	o := repl.EvalStringOptions()
	o.MaxDepth = c.MaxDepth
	o.MaxDuration = time.Duration(c.Deadline) * time.Millisecond
	o.Compact = c.Compact
	if c.StackMiB > 0 {
		debug.SetMaxStack(c.StackMiB << 20)
	}
	start := time.Now()
	res, errs, _ := repl.EvalStringWithOption(context.Background(), o, c.Program)
	for i := range errs {
		if len(errs[i]) > 300 {
			errs[i] = errs[i][:300]
		}
	}
	b, _ := json.Marshal(Report{Errs: errs, OutLen: len(res), ElapsMs: time.Since(start).Milliseconds()})
	_, _ = os.Stdout.Write(b)
	return 0
}

func runOnce(c Case) child.Result {
	mem := uint64(c.MemMiB) << 20
	return child.Spawn("c09", c, child.Opts{
		Env:         []string{fmt.Sprintf("GOMEMLIMIT=%dMiB", c.MemMiB), "GOGC=100"},
		Timeout:     time.Duration(c.Deadline)*time.Millisecond + 30*time.Second,
		RlimitAS:    8*mem + 3<<30,
		RlimitFsize: -1,
	})
}

type outcome struct {
	guard string
	wall  time.Duration
	rssMB int64
}

func judge(c Case, r child.Result) (outcome, error) {
	var o outcome
	o.wall, o.rssMB = r.Wall, r.MaxRSSKB/1024
	if r.Err != nil {
		return o, fmt.Errorf("harness: cannot start child: %v", r.Err)
	}
	tail := string(r.Stderr)
	if len(tail) > 600 {
		tail = tail[:600]
	}
	switch {
	case r.TimedOut:
		return o, fmt.Errorf("the evaluation did not return: killed by the harness %v after the %d ms deadline", 30*time.Second, c.Deadline)
	case r.Signal != "":
		return o, fmt.Errorf("the host process died: signal %s (%s)\n%s", r.Signal, r, tail)
	case r.Exit != 0:
		return o, fmt.Errorf("the host process died: exit status %d (%s)\n%s", r.Exit, r, tail)
	}
	var rep Report
	if err := json.Unmarshal(r.Stdout, &rep); err != nil {
		return o, fmt.Errorf("harness: bad child report: %v %q", err, r.Stdout)
	}
	// the time the evaluation call itself took, measured inside the child (the process start is not the interpreter's)
	o.wall = time.Duration(rep.ElapsMs) * time.Millisecond
	all := strings.Join(rep.Errs, " | ")
	switch {
	case strings.Contains(all, "max depth"):
		o.guard = "max-depth"
	case strings.Contains(all, "would exceed memory"):
		o.guard = "memory-refusal"
	case strings.Contains(all, "context deadline exceeded"):
		o.guard = "deadline"
	case strings.Contains(all, "nested too deeply"):
		o.guard = "nesting-limit"
	}
	limitRSS := int64(3*c.MemMiB + 128)
	if o.rssMB > limitRSS {
		return o, fmt.Errorf("peak RSS %d MiB exceeds 3 x GOMEMLIMIT (%d MiB) + 128 MiB = %d MiB (%s; errors: %s)", o.rssMB, c.MemMiB, limitRSS, r, all)
	}
	if c.Family == "recursion" && o.guard != "max-depth" && o.guard != "deadline" {
		return o, fmt.Errorf("unbounded recursion ended with neither 'max depth' nor the deadline: %s", all)
	}
	return o, nil
}

func check(c Case) (outcome, error) {
	pbt.InFlight("inflight", c)
	r := runOnce(c)
	o, err := judge(c, r)
	if err != nil {
		return o, err
	}
	// the small constant: 3 s, plus the time the allocation guard may take to walk a value up to the budget before
	// refusing it (proportional to the memory limit; seconds on a busy machine)
	tolerance := 3*time.Second + time.Duration(c.MemMiB)*time.Second/64
	limit := time.Duration(c.Deadline)*time.Millisecond + tolerance
	if o.wall > limit {
		// timing is noisy: only a reproducible overshoot counts
		for i := 0; i < 2; i++ {
			r2 := runOnce(c)
			o2, err2 := judge(c, r2)
			if err2 != nil {
				return o2, err2
			}
			if o2.wall <= limit {
				pbt.Label("time-overshoot-not-reproduced")
				return o2, nil
			}
		}
		return o, fmt.Errorf("evaluation took %v, the deadline was %d ms (+ %v tolerance), reproduced 3 times; program family %s", o.wall.Round(time.Millisecond), c.Deadline, tolerance, c.Family)
	}
	pbt.ExtraMax("worst_wall_over_deadline_ms", float64(o.wall.Milliseconds()-int64(c.Deadline)))
	pbt.ExtraMax("worst_rss_over_limit_ratio", float64(o.rssMB)/float64(c.MemMiB))
	return o, nil
}

// ---- program families ---------------------------------------------------------------------------------------------

// nest builds n levels of nesting, fewer if the text would exceed 1 MB (the deadline does not govern
// parsing; the time to merely read megabytes of source is not what this property is about).
func nest(open, leaf, closing string, n int) string {
	if per := len(open) + len(closing); n*per > 1<<20 {
		n = (1 << 20) / per
	}
	return strings.Repeat(open, n) + leaf + strings.Repeat(closing, n)
}

// growthForms: every program of the growth family, for one huge operand.
func growthForms(big string) []string {
	forms := []string{
		"\"x\" * " + big,
		"\"0123456789\" * " + big,
		"[1] * " + big,
		"[1, 2, 3, 4] * " + big,
		"0 : " + big,
		"(-" + big + ") : " + big,
		"s = \"x\"; for 64 { s = s + s }; len(s)",
		"s = \"0123456789\"; for 70 { s = s * 10 }; len(s)",
		"a = [1]; for 64 { a = a + a }; len(a)",
		"a = [1, 2]; for 64 { a = a * 4 }; len(a)",
		"m = {1: 1}; for i = 40 { n = {}; for kv = m { n[kv.key * 2] = 1; n[kv.key * 2 + 1] = 1 }; m = m + n }; len(m)",
		"a = 0 : 1000000; for 200 { a = a + a }; len(a)",
		"join([\"x\" * 1000000] * 100000, \"\")",
		"[] * " + big,
		"len(\"\" * " + big + ")",
		"x = [] * " + big + "; len(x)",
		"a = [1] * 100000; m = {}; for i = 2000 { m[i] = a }; m",
		"a = 0 : 60000; m = {}; for i = 1500 { m[i] = a }; println(m)",
		"a = 1; for 30 { a = {\"k\": a, \"a\": a, \"b\": a} }; a",
		"a = 1; for 40 { a = [a, a, a] }; println(a)",
		"a = 1; for 30 { a = {\"k\": [a, a], \"a\": a} }; len(str(a))",
		"a = 1; for 30 { a = {\"k\": [a, a], \"a\": a} }; func f(x) { 1 }; f(a)",
		"a = 1; for 40 { a = [a, a, a] }; a == a",
		"a = 1; for 40 { a = [a, a, a] }; b = a; a < b",
		"func mk() { b = 1; for 40 { b = [b, b] }; b }; x = mk(); y = mk(); len(x) + len(y)",
		"a = 1; for 40 { a = [a, a, a] }; m = {}; m[a] = 1; m[a]",
		"a = 0 : 60000; m = {}; for i = 300 { m[i] = a }; len(str(m))",
		"a = 0 : 60000; m = []; for i = 300 { m = m + [a] }; len(sprintf(\"%v\", m))",
		"a = [1] * 100000; m = []; for i = 500 { m = m + [a] }; len(json(m))",
		"join([\"\"] * 3000, \"-\" * 1000000)",
		"join([\"ab\"] * 100000, \"0123456789\" * 10000)",
		"len(join(0:200000, \"x\" * 100000))",
		"runes(\"x\" * 100000000)",
		"split(\"x\" * 100000000, \"\")",
		"len(\"ab\" * " + big + ")",
		"x = [[1] * 1000000] * 1000000",
		// every other place that compares or writes out whole values
		"a = 1; for 40 { a = [a, a, a] }; min(a, a)",
		"a = 1; for 40 { a = [a, a, a] }; b = [a]; max(b, [a], b) == 1",
		"a = 1; for 40 { a = [a, a, a] }; A = a; A = a; 1",
		"a = 1; for 30 { a = {\"k\": [a, a], \"a\": a} }; AB = a; AB := a; 1",
		"a = 1; for 40 { a = [a, a, a] }; a != a",
		"a = 1; for 40 { a = [a, a, a] }; log(a)",
		"a = 1; for 40 { a = [a, a, a] }; error(\"e\", a)",
		"a = 1; for 40 { a = [a, a, a] }; catch(error(\"e\", a))",
		"a = 1; for 40 { a = [a, a, a] }; len({a: 1} + {a: 2})",
		"a = 1; for 40 { a = [a, a, a] }; m = {a: 1}; del(m[a]); len(m)",
		"a = 1; for 40 { a = [a, a, a] }; [a] + [a] == [a, a]",
		"a = 1; for 40 { a = [a, a, a] }; f = x => x; f(a) == f(a)",
		"a = 1; for 40 { a = [a, a, a] }; eval(\"1\", a)",
		"a = 1; for 40 { a = [a, a, a] }; type(a) + \"-\" + a",
		"a = 1; for 40 { a = [a, a, a] }; \"s\" + a",
		"a = 1; for 40 { a = [a, a, a] }; info.globals",
		"a = 1; for 40 { a = [a, a, a] }; println(info)",
		"a = 1; for 40 { a = [a, a, a] }; first(a) == rest(a)",
		"a = 1; for 40 { a = [a, a, a] }; if a == a { 1 }",
		"a = 1; for 40 { a = [a, a, a] }; for x = a { if x == a { break } }",
		"a = 1; for 40 { a = [a, a, a] }; m = {1: a, 2: a}; m[1] < m[2]",
	}
	return append(forms, keyShareForms()...) // the same through container-typed map keys: c09_keys_test.go
}

// nestingForms: every syntactic way of nesting (n levels, nb for blocks) or chaining that the family uses.
func nestingForms(n, nb int) []string {
	return []string{
		nest("(", "1", ")", n),
		nest("[", "1", "]", n),
		nest("{1:", "1", "}", n),
		nest("if true {", "1", "}", nb),
		nest("x=>", "1", "", nb), // (nested lambdas are printed indented like blocks)
		nest("-", "1", "", n),
		nest("!", "true", "", n),
		nest("f(", "1", ")", n),
		nest("func(){", "1", "}()", nb),
		nest("1+", "1", "", n),
		nest("a=", "1", "", n/10+1),
		"x = " + nest("[", "", "]", n) + "; len(x)",
		// chains: constructs repeated side by side that still make the tree (and the parser's recursion) deeper
		chain("if false { 1 }", " else if false { 1 }", " else { 2 }", n),
		chain("f = () => f; f", "()", "", n),
		chain("a = [0]; a[0] = a; a", "[0]", "", n),
		chain("m = {\"k\": 1}; m", ".k", "", n),
		chain("1", " + 1", "", n),
		chain("x = 1; x", " || x", "", n),
		// operator chains on top of what is nested below them: the tree is as deep as the sum
		nest("(", "1", strings.Repeat("+1", 100)+")", n),
		nest("[", "1", strings.Repeat("*2", 50)+"]", n),
		nest("f(", "1", ")"+strings.Repeat("-1", 100), n),
		nest("if true {", "1", "}"+strings.Repeat("+1", 50), nb),
	}
}

// chain builds head + n x unit + tail, fewer units if the text would exceed 1 MB.
func chain(head, unit, tail string, n int) string {
	if n*len(unit) > 1<<20 {
		n = (1 << 20) / len(unit)
	}
	return head + strings.Repeat(unit, n) + tail
}

func genCase(t *rapid.T) Case {
	c := Case{
		Deadline: rapid.SampledFrom([]int{1, 5, 20, 100, 300, 1000}).Draw(t, "deadline"),
		MemMiB:   rapid.SampledFrom([]int{64, 128, 256}).Draw(t, "mem"),
		MaxDepth: rapid.SampledFrom([]int{10, 50, 500, 5000}).Draw(t, "depth"),
	}
	big := rapid.SampledFrom([]string{"1000000", "100000000", "10000000000", "4611686018427387904", "9223372036854775807", "(1<<62)", "(1<<40)"}).Draw(t, "big")
	switch rapid.IntRange(0, 5).Draw(t, "family") {
	case 0:
		c.Family = "loop"
		c.Program = rapid.SampledFrom([]string{
			"for true { }",
			"for true { 1 + 1 }",
			"i = 0; for true { i++ }",
			"a = []; for true { a = a + [1] }",
			"a = []; for true { a = a + 1 }",
			"s = \"\"; for true { s = s + \"xxxxxxxxxxxxxxxx\" }",
			"m = {}; i = 0; for true { m[i] = i; i++ }",
			"for i = " + big + " { i * 2 }",
			"for " + big + " { [1, 2, 3] }",
			"func spin() { for true { x = 1 } }; spin()",
			"f = () => { for i = " + big + " { g = () => i } }; f()",
			"for true { println(\"xxxxxxxxxxxxxxxxxxxxxxxxxxxxxxxx\") }",
			"m = macro(x) { for true { }; quote(1) }; m(1)",
			"m = macro(x) { i = 0; for true { i++ }; quote(unquote(x)) }\nm(2)",
			"m = macro() { f = () => f(); f(); quote(1) }; m()",
			"m = macro(x) { s = \"x\"; for 64 { s = s + s }; quote(1) }; m(1)",
		}).Draw(t, "loop")
	case 1:
		c.Family = "recursion"
		c.Program = rapid.SampledFrom([]string{
			"func f(n) { f(n + 1) }; f(0)",
			"func f(n) { 1 + f(n + 1) }; f(0)",
			"func a(n) { b(n + 1) }; func b(n) { a(n + 1) }; a(0)",
			"f = n => f(n + 1); f(0)",
			"(func() { self() })()",
			"func f(n) { [f(n + 1)] }; f(0)",
			"func f(n, s) { f(n + 1, s + \"x\") }; f(0, \"\")",
			"func f(n) { if n >= 0 { return f(n + 1) } }; f(0)",
			"mk = () => { () => mk()() }; mk()()",
			"func f(n) { for i = 2 { f(n + 1) } }; f(0)",
		}).Draw(t, "rec")
		if rapid.IntRange(0, 3).Draw(t, "defaultdepth") == 0 {
			c.MaxDepth = 0 // the default (150000) needs its stack: see assumptions
			c.MemMiB = 2048
		}
	case 2:
		c.Family = "growth"
		c.Program = rapid.SampledFrom(growthForms(big)).Draw(t, "growth")
		if rapid.IntRange(0, 3).Draw(t, "wrap") == 0 {
			// element count x repeat count wraps around 2^64 to a small positive number
			l := rapid.SampledFrom([]int{3, 4, 5, 7, 8, 12, 16}).Draw(t, "wraplen")
			delta := rapid.IntRange(0, 3).Draw(t, "wrapdelta")
			q := new(mbig.Int).Div(new(mbig.Int).Lsh(mbig.NewInt(1), 64), mbig.NewInt(int64(l)))
			q.Add(q, mbig.NewInt(int64(1+delta)))
			if rapid.Bool().Draw(t, "wrapstr") {
				c.Program = "len(\"" + strings.Repeat("x", l) + "\" * " + q.String() + ")"
			} else {
				c.Program = "len([" + strings.TrimSuffix(strings.Repeat("1, ", l), ", ") + "] * " + q.String() + ")"
			}
		}
	case 3:
		c.Family = "nesting"
		c.StackMiB = 32 // see the assumption about the stack size
		n := rapid.SampledFrom([]int{100, 1000, 9000, 11000, 100000, 2000000}).Draw(t, "nest")
		c.Compact = rapid.Bool().Draw(t, "compact")
		nb := n // block nesting: see the assumption about the indented program text
		if !c.Compact && nb > 3000 && nb < 10000 {
			nb = 3000
		}
		c.Program = rapid.SampledFrom(nestingForms(n, nb)).Draw(t, "nesting")
	case 4:
		c.Family = "sleep"
		c.Program = rapid.SampledFrom([]string{"sleep(100)", "sleep(3600.5)", "for true { sleep(0.001) }", "func z() { sleep(50) }; z()"}).Draw(t, "sleep")
	default:
		c.Family = "mixed"
		c.Program = rapid.SampledFrom([]string{
			"func f(n) { a = [n] * 100000; f(n + 1) }; f(0)",
			"func f(s) { f(s + s) }; f(\"x\")",
			"a = [1]; func g() { a = a + a; g() }; g()",
			"for true { func h(n) { h(n + 1) }; catch(h(0)) }",
			"x = 1; for true { x = x * 3 }",
			"for i = 1000000000 { catch(error(\"e\")) }",
			"m = {}; func put(k) { m[k] = [k] * 1000; put(k + 1) }; put(0)",
		}).Draw(t, "mixed")
	}
	return c
}

// every growth program with two huge operands: the deterministic part
func TestGrowthForms(t *testing.T) {
	idx := 0
	for _, big := range []string{"10000000000", "(1<<62)"} {
		for fi, prog := range growthForms(big) {
			idx++
			if !pbt.Mine(idx) || (big != "10000000000" && !strings.Contains(prog, big)) {
				continue
			}
			_ = fi
			c := Case{Family: "growth", Program: prog, MaxDepth: 500, Deadline: 300, MemMiB: 128}
			o, err := check(c)
			if err != nil {
				pbt.Fail(t, "case", c, "%v\nprogram (first 200 bytes): %.200s", err, c.Program)
			}
			pbt.CaseExact(o.guard != "", "growth-forms:guard:"+o.guard)
		}
	}
}

// every nesting / chaining form at depths around and far beyond the parser's limit: the deterministic part
func TestNestingForms(t *testing.T) {
	idx := 0
	for _, n := range []int{9000, 11000, 60000, 2000000} {
		nb := n
		for fi := range nestingForms(10, 10) {
			for _, compact := range []bool{true, false} {
				idx++
				if !pbt.Mine(idx) {
					continue
				}
				nbb := nb
				if !compact && nbb > 3000 && nbb < 10000 {
					nbb = 3000
				}
				c := Case{Family: "nesting", Program: nestingForms(n, nbb)[fi], MaxDepth: 500, Deadline: 300, MemMiB: 256, Compact: compact, StackMiB: 32}
				o, err := check(c)
				if err != nil {
					pbt.Fail(t, "case", c, "%v\nprogram (first 200 bytes): %.200s", err, c.Program)
				}
				pbt.CaseExact(o.guard != "", "nesting-forms:guard:"+o.guard)
			}
		}
	}
}

func TestBounds(t *testing.T) {
	pbt.Check(t, 160, 2600, func(rt *rapid.T) {
		c := genCase(rt)
		o, err := check(c)
		if err != nil {
			pbt.Fail(rt, "case", c, "%v\nprogram (first 200 bytes): %.200s", err, c.Program)
		}
		lbl := "guard:" + o.guard
		if o.guard == "" {
			lbl = "no-guard-fired(program ended or failed otherwise)"
		}
		key := fmt.Sprintf("%s|%v|%d|%d|%d|%.300s|%d", c.Family, c.Compact, c.MaxDepth, c.Deadline, c.MemMiB, c.Program, len(c.Program))
		pbt.Case(o.guard != "", key, lbl, "family:"+c.Family)
		short := c
		if len(short.Program) > 120 {
			short.Program = short.Program[:120] + fmt.Sprintf("...(%d bytes)", len(c.Program))
		}
		pbt.Sample(c.Family, short)
	})
}

func oracle(kind string, raw json.RawMessage) error {
	var c Case
	if err := json.Unmarshal(raw, &c); err != nil {
		return err
	}
	_, err := check(c)
	return err
}

func TestReplay(t *testing.T)   { pbt.RunReplay(t, oracle) }
func TestARegress(t *testing.T) { pbt.RunRegress(t, "C09", oracle) }

// The command line itself: the limits must reach the interpreter in every input mode (-c, one file, several files).
func TestCommandLineLimits(t *testing.T) {
	if !pbt.Mine(0) {
		return
	}
	dir, err := os.MkdirTemp("", "verif-c09-cli-")
	if err != nil {
		t.Fatalf("harness: %v", err)
	}
	defer os.RemoveAll(dir)
	bin := filepath.Join(dir, "grol")
	build := exec.Command("go", "build", "-o", bin, "grol.io/grol")
	if out, err := build.CombinedOutput(); err != nil {
		t.Skipf("cannot build the grol command here: %v %s", err, out)
	}
	rec := "func foo(n) {if n<=1 {1} else {self(n-1);n}}; "
	_ = os.WriteFile(filepath.Join(dir, "ok.gr"), []byte(rec+"println(foo(12))\n"), 0o644)
	_ = os.WriteFile(filepath.Join(dir, "deep.gr"), []byte(rec+"println(foo(13))\n"), 0o644)
	_ = os.WriteFile(filepath.Join(dir, "spin.gr"), []byte("for true { }\n"), 0o644)
	type run struct {
		args     []string
		wantFail bool
		wantText string
	}
	runs := []run{
		{[]string{"-no-auto", "-quiet", "-max-depth", "12", "-c", rec + "println(foo(12))"}, false, "12"},
		{[]string{"-no-auto", "-quiet", "-max-depth", "12", "-c", rec + "println(foo(13))"}, true, "max depth"},
		{[]string{"-no-auto", "-quiet", "-max-depth", "12", "ok.gr"}, false, "12"},
		{[]string{"-no-auto", "-quiet", "-max-depth", "12", "deep.gr"}, true, "max depth"},
		{[]string{"-no-auto", "-quiet", "-max-depth", "12", "ok.gr", "deep.gr"}, true, "max depth"},
		{[]string{"-no-auto", "-quiet", "-max-depth", "12", "-shared-state", "ok.gr", "deep.gr"}, true, "max depth"},
		{[]string{"-no-auto", "-quiet", "-max-duration", "100ms", "spin.gr"}, true, "deadline"},
		{[]string{"-no-auto", "-quiet", "-max-duration", "100ms", "ok.gr", "spin.gr"}, true, "deadline"},
		{[]string{"-no-auto", "-quiet", "-max-duration", "100ms", "-c", "for true { }"}, true, "deadline"},
		// the deadline also governs what follows an external command and what a macro body does
		{[]string{"-no-auto", "-quiet", "-max-duration", "300ms", "-c", "run(\"true\"); for true { }"}, true, "deadline"},
		{[]string{"-no-auto", "-quiet", "-max-duration", "300ms", "-c", "exec(\"true\"); for true { }"}, true, "deadline"},
		{[]string{"-no-auto", "-quiet", "-max-duration", "300ms", "-c", "m = macro(x) { for true { }; quote(1) }; m(1)"}, true, "deadline"},
	}
	for _, r := range runs {
		cmd := exec.Command(bin, r.args...)
		cmd.Dir = dir
		done := make(chan struct{})
		var out []byte
		var cerr error
		go func() { out, cerr = cmd.CombinedOutput(); close(done) }()
		select {
		case <-done:
		case <-time.After(20 * time.Second):
			_ = cmd.Process.Kill()
			<-done
			pbt.Fail(t, "cli", Case{Family: "cli", Program: strings.Join(r.args, " ")}, "grol %s did not return within 20 s", strings.Join(r.args, " "))
		}
		failed := cerr != nil
		if failed != r.wantFail || !strings.Contains(string(out), r.wantText) {
			pbt.Fail(t, "cli", Case{Family: "cli", Program: strings.Join(r.args, " ")}, "grol %s: failed=%v (expected %v), output should mention %q:\n%.600s", strings.Join(r.args, " "), failed, r.wantFail, r.wantText, out)
		}
		pbt.CaseExact(true, "command-line-limits")
	}
}
