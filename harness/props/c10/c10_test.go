// C10 — a failed input leaves no trace in the session.
package c10

import (
	"encoding/json"
	"fmt"
	"runtime/debug"
	"strings"
	"sync"
	"testing"
	"time"

	"pgregory.net/rapid"
	"verif/gen"
	"verif/pbt"
	"verif/sess"
)

func TestMain(m *testing.M) {
	sess.Init()
	debug.SetMemoryLimit(512 << 20) // so that the allocation guard can refuse (one of the failure kinds)
	pbt.Main(m, pbt.Meta{
		Property: "C10",
		Level:    "exploration",
		Rule: "twin persistent sessions (State.Out set once): one receives succeeding inputs S1..Sn only, the other the same inputs interleaved with 0..12 side-effect-free failing inputs at every position, of " +
			"kinds: language error at top level / inside nested calls / inside each loop form, type error deep in an expression, depth overflow (recovered panic; depth limit 120), memory-guard refusal " +
			"(recovered panic), deadline (15 ms on a tight loop, own deadline per input), parse error, incomplete input. Failing inputs are constructed to bind no global, print nothing and use names of their own. " +
			"Oracle: every Si produces the same session-writer output, echo, errors and panicked flag in both sessions, and the final globals are equal. Non-trivial: >= 1 panic / deadline / depth failure " +
			"inside a function or loop AND >= 1 later success that prints from inside a function and runs a counted loop; distinct by history text.",
		Assumptions: []string{
			"succeeding inputs come from the typed grammar (deterministic, fast); they run with a 20 s safety deadline so that load cannot make them fail",
			"a failing input whose failure did not happen as constructed (e.g. the deadline did not fire because the machine was slow to start) makes the case inconclusive, not a violation",
		},
	})
}

type Step struct {
	Src     string `json:"src"`
	Fail    string `json:"fail,omitempty"` // kind of failing input ("" = a succeeding input)
	Timeout bool   `json:"timeout,omitempty"`
}

type Case struct {
	Steps []Step `json:"steps"`
}

var cfg = sess.Config{MaxDepth: 120}

const okDeadline = 20 * time.Second

// a pure (memoizable) function that takes a few milliseconds: a failing input is cut by the deadline in the middle of
// one of its calls, a later succeeding input makes the same calls
const slowDef = "func zzslow(n) { x = 0; for i = 15000 { x = x + i % 7 }; x + n }"
const slowCalls = "println(zzslow(1), zzslow(2), zzslow(3), zzslow(4), zzslow(5), zzslow(6), zzslow(7), zzslow(8))"

var leftovers []string

func run(steps []Step, withFailures bool) (results []sess.Res, globals string, failuresOK bool) {
	leftovers = nil
	s := sess.New(cfg)
	s.Run(gen.TypedPrelude)
	s.Run(slowDef)
	failuresOK = true
	for _, st := range steps {
		if st.Fail != "" {
			if !withFailures {
				continue
			}
			d := okDeadline
			if st.Timeout {
				d = 15 * time.Millisecond
			}
			r := s.RunWith(st.Src, d)
			if !r.Failed() && !r.Cont {
				failuresOK = false
			}
			if s.St.GetPipeValue() != nil {
				// interpreter state that only exec()/run() (not available here) would show: read directly
				leftovers = append(leftovers, fmt.Sprintf("after the failed input %q the piped value %q is still in the state", st.Src, s.St.GetPipeValue()))
			}
			if r.Out != "" {
				failuresOK = false
			}
			continue
		}
		began := time.Now()
		r := s.RunWith(st.Src, okDeadline)
		if took := time.Since(began); withFailures && sess.TimedOut(r) && took < okDeadline/4 {
			// not a deadline of this input: it had 20 s and used a fraction
			leftovers = append(leftovers, fmt.Sprintf("the succeeding input %q reports a deadline error after %s (its deadline is %s): %v", st.Src, took.Round(time.Millisecond), okDeadline, r.Errs))
		}
		results = append(results, r)
	}
	return results, s.Globals(), failuresOK
}

func check(c Case) (inconclusive bool, err error) {
	pbt.InFlight("inflight", c)
	a, ga, _ := run(c.Steps, false)
	b, gb, ok := run(c.Steps, true)
	if len(leftovers) > 0 {
		return false, fmt.Errorf("%s", strings.Join(leftovers, "\n"))
	}
	if !ok {
		return true, nil
	}
	var oks []string
	for _, st := range c.Steps {
		if st.Fail == "" {
			oks = append(oks, st.Src)
		}
	}
	if d := sess.CompareRuns(oks, a, b, ga, gb, "the session without the failing inputs", "the session with them", sess.DiffOptions{IgnoreGlobal: func(n string) bool { return strings.HasPrefix(n, "zf") }}); d != "" {
		var hist []string
		for _, st := range c.Steps {
			tag := "ok  "
			if st.Fail != "" {
				tag = "FAIL(" + st.Fail + ")"
			}
			hist = append(hist, tag+" "+strings.ReplaceAll(st.Src, "\n", " ; "))
		}
		return false, fmt.Errorf("%s\nhistory:\n%s", d, strings.Join(hist, "\n"))
	}
	return false, nil
}

// failing inputs: name, source, whether it needs the short deadline, whether it is a panic/deadline/depth kind in a function or loop
type failing struct {
	kind    string
	src     string
	timeout bool
	deep    bool
}

var failPool = []failing{
	{"error-top", `error("zf boom")`, false, false},
	{"type-error-top", `1 + "zf"`, false, false},
	{"type-error-deep", `[1, 2, {"k": (3 - "zf") * 2}]`, false, false},
	{"unknown-ident", `zf_undefined + 1`, false, false},
	{"error-in-func", `func(){ (x => error("zf in lambda", x))(1) }()`, false, false},
	{"error-in-nested-calls", `func(){ zfa = x => { zfb = y => error("zf deep"); zfb(x) }; zfa(1) }()`, false, false},
	{"error-in-counted-loop", `for zfi = 3 { error("zf loop") }`, false, false},
	{"error-in-range-loop", `for zfi = 1:4 { if zfi == 2 { error("zf range loop") } }`, false, false},
	{"error-in-list-loop", `func(){ for zfx = [1, 2, 3] { error("zf list loop") } }()`, false, false},
	{"error-in-cond-loop", `func(){ zfn = 3; for zfn > 0 { zfn = zfn - 1; error("zf cond loop") } }()`, false, false},
	{"error-in-loop-in-func", `func(){ for zfi = 2 { for zfj = 2 { (x => error("zf nested"))(zfj) } } }()`, false, false},
	{"error-deep-in-recursion", `func zfdeep(n) { if n == 0 { error("zf bottom") }; 1 + zfdeep(n - 1) }; zfdeep(25)`, false, false},
	{"type-error-deep-in-recursion", `zfd2 = n => { if n == 0 { return 1 + "zf" }; [zfd2(n - 1)] }; zfd2(20)`, false, false},
	{"depth-overflow", `func(){ zfr = n => zfr(n + 1); zfr(0) }()`, false, true},
	// the depth limit reached inside one of the library functions that are themselves written in grol
	{"depth-overflow-inside-abs", `func zfa(n) { abs(0 - n); zfa(n + 1) }; zfa(0)`, false, true},
	{"depth-overflow-inside-keys", `zfm = {}; for zfi = 300 { zfm[zfi] = zfi }; keys(zfm)`, false, true},
	{"depth-overflow-inside-str", `func zfs(n) { [str(n), zfs(n + 1)] }; zfs(0)`, false, true},
	{"depth-overflow-right-of-pipe", `"zf piped text" | (func(){ self() })()`, false, true},
	{"error-right-of-pipe", `"zf piped text" | (x => error("zf pipe", x))(1)`, false, false},
	{"depth-overflow-named", `func zfrec(n) { 1 + zfrec(n + 1) }; zfrec(0)`, false, true},
	{"depth-overflow-in-loop", `for zfi = 2 { (func(){ self() })() }`, false, true},
	{"memory-guard", `func(){ [1, 2, 3] * 1000000000 }()`, false, true},
	{"memory-guard-in-loop", `for zfi = 2 { "abcdefgh" * 100000000000 }`, false, true},
	{"deadline-loop", `for true { 1 }`, true, true},
	{"deadline-in-memoizable-calls", `zzslow(1) + zzslow(2) + zzslow(3) + zzslow(4) + zzslow(5) + zzslow(6) + zzslow(7) + zzslow(8)`, true, true},
	{"deadline-in-func", `func(){ zfn = 0; for true { zfn = zfn + 1 } }()`, true, true},
	{"deadline-counted", `for zfi = 100000000 { zfi * 2 }`, true, true},
	{"parse-error", `zf = = 1 )`, false, false},
	{"parse-error-2", `func zf( { `, false, false},
	{"incomplete", `zfx = [1, 2,`, false, false},
	{"wrong-arity", `func(a, b){ a }(1)`, false, false},
	{"index-assign-oob", `func(){ zfa = [1]; zfa[5] = 1 }()`, false, false},
	{"div-zero-in-func", `func(){ zfd = 0; 1 / zfd }()`, false, false},
}

// The deepest recursion the depth limit allows on a fresh session: a succeeding input that needs the whole
// budget notices any of it that a failed input did not give back. (Reads a global, so it is never served
// from the function-result cache.)
const probeDef = "zzg = 1; func zzprobe(n) { if n == 0 { return zzg }; 1 + zzprobe(n - 1) }"

var probeOnce sync.Once
var probeMax int

func probeCall() string {
	probeOnce.Do(func() {
		fits := func(k int) bool {
			s := sess.New(cfg)
			s.Run(gen.TypedPrelude)
			s.Run(probeDef)
			return !s.RunWith(fmt.Sprintf("zzprobe(%d)", k), okDeadline).Failed()
		}
		lo, hi := 1, 400 // fits(lo), !fits(hi)
		for hi-lo > 1 {
			if mid := (lo + hi) / 2; fits(mid) {
				lo = mid
			} else {
				hi = mid
			}
		}
		probeMax = lo
	})
	return fmt.Sprintf("println(\"probe\", zzprobe(%d))", probeMax)
}

func TestHistories(t *testing.T) {
	pbt.Check(t, 1200, 120000, func(rt *rapid.T) {
		g := gen.NewTGen(rt, gen.TCfg{MaxDepth: 2, MaxStmts: 3, MaxBlockDepth: 2, MaxParams: 3, MaxLoopDepth: 2,
			Containers: true, Errors: false, Closures: true, Recursion: true, PrintEvery: true, IncrDecr: true, FreshLoopVars: true})
		stmts := g.Program(3, 9)
		// every history ends with inputs that print from inside a function and run counted loops
		tail := []string{
			"func zzshow(a) { println(\"in zzshow\", a); for zzi = 2 { println(zzi) }; a + 1 }",
			"println(zzshow(1))",
			"for zzk = 3 { println(\"loop\", zzk) }",
			"zzrec = n => { if n <= 0 { return 0 }; n + zzrec(n - 1) }; println(zzrec(20))",
			probeDef,
			probeCall(),
		}
		var c Case
		nfail, deep := 0, false
		addFails := func() {
			for k := rapid.SampledFrom([]int{0, 0, 1, 1, 2, 3, 12}).Draw(rt, "nfail"); k > 0; k-- {
				f := rapid.SampledFrom(failPool).Draw(rt, "fail")
				c.Steps = append(c.Steps, Step{Src: f.src, Fail: f.kind, Timeout: f.timeout})
				nfail++
				deep = deep || f.deep
				if f.kind == "deadline-in-memoizable-calls" {
					// the same calls in a succeeding input, before anything else changes what is remembered
					c.Steps = append(c.Steps, Step{Src: slowCalls})
				}
			}
		}
		for _, s := range stmts {
			addFails()
			c.Steps = append(c.Steps, Step{Src: gen.Print([]*gen.Node{s}, gen.PrintOptions{})})
		}
		for _, s := range tail {
			addFails()
			c.Steps = append(c.Steps, Step{Src: s})
		}
		inconclusive, err := check(c)
		if err != nil {
			pbt.Fail(rt, "history", c, "%v", err)
		}
		lbl := "history:failures-error-only"
		switch {
		case inconclusive:
			lbl = "history:inconclusive(failure did not fail)"
		case nfail == 0:
			lbl = "history:no-failure-drawn"
		case deep:
			lbl = "history:panic/deadline/depth-failure+later-function-print+loop"
		}
		var sb strings.Builder
		for _, st := range c.Steps {
			sb.WriteString(st.Fail + "|" + st.Src + "\n")
		}
		pbt.Case(deep && !inconclusive, sb.String(), lbl)
		pbt.Sample("history", c.Steps)
	})
}

// every failing kind alone, repeated 12 times, between fixed successes (deterministic part)
func TestEachKind(t *testing.T) {
	for i, f := range failPool {
		if !pbt.Mine(i) {
			continue
		}
		var c Case
		c.Steps = append(c.Steps, Step{Src: "func show(a) { println(\"in show\", a); for i = 2 { println(i) }; a }"}, Step{Src: "println(show(1))"})
		for k := 0; k < 12; k++ {
			c.Steps = append(c.Steps, Step{Src: f.src, Fail: f.kind, Timeout: f.timeout})
		}
		if f.kind == "deadline-in-memoizable-calls" {
			c.Steps = append(c.Steps, Step{Src: slowCalls})
		}
		c.Steps = append(c.Steps, Step{Src: "println(show(2))"}, Step{Src: "for j = 3 { println(j) }"}, Step{Src: "x = [1, 2, 3]; x[0] = show(3); println(x)"},
			Step{Src: "deep = n => { if n <= 0 { return 0 }; 1 + deep(n - 1) }; println(deep(25))"}, Step{Src: probeDef}, Step{Src: probeCall()})
		inconclusive, err := check(c)
		if err != nil {
			pbt.Fail(t, "each-kind", c, "failure kind %s: %v", f.kind, err)
		}
		lbl := "each-kind"
		if inconclusive {
			lbl = "each-kind:inconclusive"
		}
		pbt.CaseExact(!inconclusive, lbl)
	}
}

func oracle(kind string, raw json.RawMessage) error {
	var c Case
	if err := json.Unmarshal(raw, &c); err != nil {
		return err
	}
	_, err := check(c)
	return err
}

func TestReplay(t *testing.T)   { pbt.RunReplay(t, oracle) }
func TestARegress(t *testing.T) { pbt.RunRegress(t, "C10", oracle) }
