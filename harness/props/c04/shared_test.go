package c04

import (
	"fmt"
	"strings"
	"testing"

	"pgregory.net/rapid"
	"verif/pbt"
)

// Two families about what a remembered result may share with the world outside the cache key:
//
//   - TestNestedResults: the result is a tree of containers (small ones wrapping large ones and the reverse); the
//     caller reaches into the value it received through an alias and updates it in place between equal calls.
//   - TestImageWrappers: the function wraps extensions whose state lives outside the interpreter (the image store);
//     that state is changed between equal calls.
//
// Both use the package's Case / check(): the same inputs with the cache on and off.

// ---- results that are trees of containers ---------------------------------------------------------------

// cnode is one container of a result. Every container is built once, in its own local variable, and used once:
// the result is a tree. (A result referencing the SAME large container twice is left out on purpose, see
// sharedShapesLeftOut.)
type cnode struct {
	isMap   bool
	size    int  // number of elements / pairs; ignored when param
	param   bool // the size is the function's argument (built by a loop over it)
	loop    bool // built by a loop and index assignments, else by a literal
	strKeys bool // maps: "k0", "k1", ... instead of 0, 1, ...
	kidPos  []int
	kids    []*cnode
	v       string
}

// Shapes this family steers around; each is the correct code's behaviour and a consequence of listed findings of
// C06/C19 (K-C06-1, K-C06-2, K-C19-2) meeting the copy made for the cache:
//   - K-C06-1 x the copy made for the cache: a result that references one large container from two places
//     (big = ...; [big, big]) loses that sharing in the copy handed out on a hit, so b = r[0]; b[0] = 99; println(r)
//     shows 99 twice after a miss and once after a hit. The generated results are trees.
//   - K-C06-2: x + y appends into the spare capacity of a large x; the copy handed out on a hit has none, so
//     c1 = r[1] + [1]; c2 = r[1] + [2]; println(c1) differs between a miss and a hit. No + on what was taken
//     out of a result.
//   - K-C19-2: a result containing a large constant container shares it with every caller when computed, not when
//     remembered. The generated functions build everything they return locally.

var treeArgs = []int{3, 5, 9, 12, 20} // sizes across the small/large thresholds (arrays 8, maps 4)

type fnSpec struct {
	name  string
	root  *cnode
	nvars int
	def   string
}

func (n *cnode) sizeFor(arg int) int {
	if n.param {
		return arg
	}
	return n.size
}

func (n *cnode) key(i int) string {
	if n.isMap && n.strKeys {
		return fmt.Sprintf("\"k%d\"", i)
	}
	return fmt.Sprint(i)
}

func genNode(t *rapid.T, f *fnSpec, depth int) *cnode {
	n := &cnode{isMap: rapid.IntRange(0, 2).Draw(t, "ismap") == 0}
	f.nvars++
	n.v = fmt.Sprintf("v%d", f.nvars)
	n.size = rapid.SampledFrom([]int{1, 2, 3, 4, 5, 6, 8, 9, 10, 13, 20}).Draw(t, "size")
	n.strKeys = rapid.Bool().Draw(t, "strkeys")
	switch rapid.IntRange(0, 3).Draw(t, "build") {
	case 0:
		n.loop, n.param = true, true
	case 1:
		n.loop = true
	}
	room := n.size
	if n.param {
		room = treeArgs[0]
	}
	maxKids := 2
	if depth >= 2 || f.nvars >= 5 {
		maxKids = 0
	}
	if maxKids > room {
		maxKids = room
	}
	nk := 0
	if maxKids > 0 {
		nk = rapid.IntRange(0, maxKids).Draw(t, "nkids")
		if depth == 0 && nk == 0 {
			nk = 1
		}
	}
	for len(n.kidPos) < nk {
		p := rapid.IntRange(0, room-1).Draw(t, "kidpos")
		dup := false
		for _, q := range n.kidPos {
			dup = dup || q == p
		}
		if dup {
			continue
		}
		n.kidPos = append(n.kidPos, p)
		n.kids = append(n.kids, genNode(t, f, depth+1))
	}
	return n
}

func (n *cnode) kidAt(p int) *cnode {
	for i, q := range n.kidPos {
		if q == p {
			return n.kids[i]
		}
	}
	return nil
}

// build appends the statements computing n (children first) to b.
func (n *cnode) build(t *rapid.T, b *[]string) {
	for _, k := range n.kids {
		k.build(t, b)
	}
	if n.loop {
		cnt := fmt.Sprint(n.size)
		if n.param {
			cnt = "a"
		}
		el := rapid.SampledFrom([]string{"i", "i * 2", "a + i", "str(i)"}).Draw(t, "elem")
		switch {
		case !n.isMap:
			*b = append(*b, fmt.Sprintf("%s = []; for i = %s { %s = %s + [%s] }", n.v, cnt, n.v, n.v, el))
		case n.strKeys:
			*b = append(*b, fmt.Sprintf("%s = {}; for i = %s { %s[\"k\" + str(i)] = %s }", n.v, cnt, n.v, el))
		default:
			*b = append(*b, fmt.Sprintf("%s = {}; for i = %s { %s[i] = %s }", n.v, cnt, n.v, el))
		}
		for i, p := range n.kidPos {
			*b = append(*b, fmt.Sprintf("%s[%s] = %s", n.v, n.key(p), n.kids[i].v))
		}
		return
	}
	els := make([]string, n.size)
	for i := range els {
		e := fmt.Sprint(i)
		if k := n.kidAt(i); k != nil {
			e = k.v
		} else if rapid.IntRange(0, 5).Draw(t, "usearg") == 0 {
			e = "a"
		}
		if n.isMap {
			e = n.key(i) + ": " + e
		}
		els[i] = e
	}
	if n.isMap {
		*b = append(*b, fmt.Sprintf("%s = {%s}", n.v, strings.Join(els, ", ")))
	} else {
		*b = append(*b, fmt.Sprintf("%s = [%s]", n.v, strings.Join(els, ", ")))
	}
}

func genFn(t *rapid.T, name string) *fnSpec {
	f := &fnSpec{name: name}
	f.root = genNode(t, f, 0)
	var stmts []string
	if rapid.IntRange(0, 4).Draw(t, "prints") == 0 {
		stmts = append(stmts, fmt.Sprintf("println(\"in %s\", a)", name))
	}
	f.root.build(t, &stmts)
	stmts = append(stmts, f.root.v)
	body := strings.Join(stmts, "; ")
	switch rapid.IntRange(0, 2).Draw(t, "fnform") {
	case 0:
		f.def = fmt.Sprintf("func %s(a) { %s }", name, body)
	case 1:
		f.def = fmt.Sprintf("%s = func(a) { %s }", name, body)
	default:
		f.def = fmt.Sprintf("%s = a => { %s }", name, body)
	}
	return f
}

type held struct {
	f   *fnSpec
	arg int
}

type alias struct {
	n   *cnode
	arg int
}

type tgen struct {
	t       *rapid.T
	inputs  []string
	fns     []*fnSpec
	called  []held // distinct (function, argument) pairs called so far
	res     map[string]held
	al      map[string]alias
	lastMut int
	label   map[string]bool
}

func (g *tgen) add(s string) { g.inputs = append(g.inputs, s) }

func (g *tgen) accessor(n *cnode, p int) string {
	if n.isMap && n.strKeys && rapid.Bool().Draw(g.t, "dot") {
		return fmt.Sprintf(".k%d", p)
	}
	return "[" + n.key(p) + "]"
}

// path walks down from the root of the result and returns the accessors and the container reached.
func (g *tgen) path(root *cnode) (string, *cnode, bool) {
	n, acc, underSmall := root, "", false
	for len(n.kids) > 0 && rapid.IntRange(0, 3).Draw(g.t, "descend") != 0 {
		i := rapid.IntRange(0, len(n.kids)-1).Draw(g.t, "kid")
		acc += g.accessor(n, n.kidPos[i])
		n = n.kids[i]
		underSmall = true
	}
	return acc, n, underSmall
}

func (g *tgen) mutation(v string, a alias) string {
	n, size := a.n, a.n.sizeFor(a.arg)
	idx := 0
	if size > 0 {
		idx = rapid.SampledFrom([]int{0, 0, size - 1, size / 2, 1 % size}).Draw(g.t, "idx")
	}
	key := n.key(idx)
	if n.isMap && rapid.IntRange(0, 4).Draw(g.t, "newkey") == 0 {
		key = rapid.SampledFrom([]string{"\"knew\"", "100", "-1"}).Draw(g.t, "key") // a pair is added (or not found by del)
	}
	val := rapid.SampledFrom([]string{"99", "77", "\"x\"", "1.5", "nil", "true", "[7]", "{\"q\": 1}"}).Draw(g.t, "val")
	large := (n.isMap && size > 4) || (!n.isMap && size > 8)
	if large {
		g.label["nested:large-container-updated-in-place"] = true
	} else {
		g.label["nested:small-container-updated"] = true
	}
	forms := []string{"assign", "assign", "assign", "helper"}
	if n.isMap {
		forms = append(forms, "del")
	}
	switch rapid.SampledFrom(forms).Draw(g.t, "mutform") {
	case "helper":
		return fmt.Sprintf("setat(%s, %s, %s)", v, key, val)
	case "del":
		return fmt.Sprintf("del(%s[%s])", v, key)
	}
	if n.isMap && n.strKeys && strings.HasPrefix(key, "\"k") && rapid.Bool().Draw(g.t, "dotassign") {
		return fmt.Sprintf("%s.%s = %s", v, strings.Trim(key, "\""), val)
	}
	return fmt.Sprintf("%s[%s] = %s", v, key, val)
}

func (g *tgen) callExpr(h held) string { return fmt.Sprintf("%s(%d)", h.f.name, h.arg) }

func (g *tgen) newCall() held {
	h := held{f: rapid.SampledFrom(g.fns).Draw(g.t, "fn"), arg: rapid.SampledFrom(treeArgs).Draw(g.t, "arg")}
	for _, c := range g.called {
		if c == h {
			return h
		}
	}
	g.called = append(g.called, h)
	return h
}

func (g *tgen) assignCall() {
	var h held
	if len(g.called) > 0 && rapid.IntRange(0, 2).Draw(g.t, "recall") != 0 {
		h = rapid.SampledFrom(g.called).Draw(g.t, "again")
	} else {
		h = g.newCall()
	}
	r := rapid.SampledFrom([]string{"r", "r", "r2"}).Draw(g.t, "resvar")
	g.res[r] = h
	g.add(fmt.Sprintf("%s = %s", r, g.callExpr(h)))
}

func (g *tgen) resVar() (string, bool) {
	var have []string
	for _, r := range []string{"r", "r2"} {
		if _, ok := g.res[r]; ok {
			have = append(have, r)
		}
	}
	if len(have) == 0 {
		return "", false
	}
	return rapid.SampledFrom(have).Draw(g.t, "from"), true
}

func (g *tgen) aliasVar() (string, bool) {
	var have []string
	for _, b := range []string{"b", "c"} {
		if _, ok := g.al[b]; ok {
			have = append(have, b)
		}
	}
	if len(have) == 0 {
		return "", false
	}
	return rapid.SampledFrom(have).Draw(g.t, "alias"), true
}

// reachIn: take a container out of a received result into a variable and update it through that variable.
func (g *tgen) reachIn() {
	r, ok := g.resVar()
	if !ok {
		g.assignCall()
		r, _ = g.resVar()
	}
	h := g.res[r]
	acc, n, under := g.path(h.f.root)
	if acc == "" {
		// the received value itself
		g.add(g.mutation(r, alias{n: n, arg: h.arg}))
		g.lastMut = len(g.inputs) - 1
		return
	}
	b := rapid.SampledFrom([]string{"b", "b", "c"}).Draw(g.t, "aliasvar")
	g.al[b] = alias{n: n, arg: h.arg}
	take := fmt.Sprintf("%s = %s%s", b, r, acc)
	mut := g.mutation(b, g.al[b])
	if rapid.Bool().Draw(g.t, "oneinput") {
		g.add(take + "; " + mut)
	} else {
		g.add(take)
		g.add(mut)
	}
	g.lastMut = len(g.inputs) - 1
	if under {
		g.label["nested:updated-through-an-alias-of-an-inner-container"] = true
	}
}

func (g *tgen) observe() {
	switch k := rapid.IntRange(0, 5).Draw(g.t, "observe"); {
	case k <= 2 && len(g.called) > 0:
		h := rapid.SampledFrom(g.called).Draw(g.t, "obscall")
		acc := ""
		if rapid.Bool().Draw(g.t, "obspath") {
			acc, _, _ = g.path(h.f.root)
		}
		g.add(fmt.Sprintf("println(%s%s)", g.callExpr(h), acc))
	case k == 3 && len(g.called) > 0:
		h := rapid.SampledFrom(g.called).Draw(g.t, "obscall")
		g.add(fmt.Sprintf("println(%s == %s, %s == r)", g.callExpr(h), g.callExpr(h), g.callExpr(h)))
	case k == 4:
		g.add("println(r, r2)")
	default:
		g.add("println(b, c)")
	}
}

func genNested(t *rapid.T) (Case, *tgen) {
	g := &tgen{t: t, res: map[string]held{}, al: map[string]alias{}, lastMut: -1, label: map[string]bool{}}
	for i := rapid.IntRange(1, 2).Draw(t, "nfns"); i > 0; i-- {
		f := genFn(t, fmt.Sprintf("mk%d", len(g.fns)+1))
		g.fns = append(g.fns, f)
		g.add(f.def)
	}
	g.add("setat = func(cont, i, v) { cont[i] = v }")
	// every name used below exists from here on: a new top level name would start a new cache epoch
	g.add("r = nil; r2 = nil; b = nil; c = nil")
	g.assignCall()
	g.reachIn()
	g.observe()
	for i := rapid.IntRange(4, 16).Draw(t, "steps"); i > 0; i-- {
		switch rapid.IntRange(0, 9).Draw(t, "step") {
		case 0, 1, 2:
			g.assignCall()
		case 3, 4, 5:
			g.reachIn()
		case 6:
			if b, ok := g.aliasVar(); ok {
				g.add(g.mutation(b, g.al[b]))
				g.lastMut = len(g.inputs) - 1
				break
			}
			g.observe()
		default:
			g.observe()
		}
	}
	for _, h := range g.called {
		g.add(fmt.Sprintf("println(%s)", g.callExpr(h)))
	}
	g.add("println(r, r2, b, c)")
	return Case{Inputs: g.inputs}, g
}

func TestNestedResults(t *testing.T) {
	pbt.Check(t, 500, 60000, func(rt *rapid.T) {
		c, g := genNested(rt)
		hits, err := check(c)
		if err != nil {
			pbt.Fail(rt, "nested-result", c, "%v", err)
		}
		after := int64(0)
		if hits > 0 {
			after = hitsAfterChange(c, g.lastMut)
		}
		lbl := "nested:no-hit-after-the-last-update"
		if after > 0 {
			lbl = "nested:hit-after-an-update-of-a-received-result"
		}
		pbt.Case(after > 0, strings.Join(c.Inputs, "\n"), lbl)
		for _, l := range []string{"nested:large-container-updated-in-place", "nested:small-container-updated", "nested:updated-through-an-alias-of-an-inner-container"} {
			if g.label[l] {
				pbt.Label(l)
			}
		}
		pbt.Sample("nested-result", c.Inputs)
	})
}

// ---- functions wrapping extensions with state of their own (the image store) ------------------------------

// Wrapped: the pixel functions image.new, image.set, image.set_ycbcr, image.set_hsl, image.png (image.save writes a file
// and is not used) and the path functions image.move_to, line_to, quad_to, cube_to, close_path, draw*, add. (The path
// functions were not flagged as uncacheable: a function wrapping them was remembered and its second equal call drew
// nothing - found by this family, repaired in grol, regress/C04/fixed-image-path-functions.json.)
type wrapper struct {
	name string
	def  string
	args [][]string
	need string // another wrapper it calls
}

var imgNames = []string{`"a"`, `"b"`}

var wrappers = []wrapper{
	{name: "snap", def: `snap = func(name) { base64(image.png(name)) }`, args: [][]string{imgNames}},
	{name: "snapl", def: `snapl = name => len(image.png(name))`, args: [][]string{imgNames}},
	{name: "snapr", def: `func snapr(name) { image.png(name) }`, args: [][]string{imgNames}},
	{name: "psnap", def: `func psnap(name) { println("snap of", name); base64(image.png(name)) }`, args: [][]string{imgNames}},
	{name: "maybe", def: `func maybe(name, k) { if k == 0 { 0 } else { len(image.png(name)) } }`, args: [][]string{imgNames, {"0", "1"}}},
	{name: "paint", def: `paint = func(name, x, y, v) { image.set(name, x, y, [v, 0, 255 - v]) }`, args: [][]string{imgNames, {"0", "1"}, {"0", "1"}, {"0", "10", "200"}}},
	{name: "painth", def: `func painth(name, x, h) { image.set_hsl(name, x, 0, [h, 0.5, 0.5]) }`, args: [][]string{imgNames, {"0", "1"}, {"0.0", "0.25", "0.5"}}},
	{name: "painty", def: `painty = (name, y, v) => image.set_ycbcr(name, 0, y, [v, 128, 128])`, args: [][]string{imgNames, {"0", "1"}, {"16", "128", "235"}}},
	{name: "fresh", def: `fresh = func(name, w) { image.new(name, w, w) }`, args: [][]string{imgNames, {"1", "2", "3"}}},
	{name: "both", def: `both = func(name, v) { image.set(name, 0, 0, [v, v, v]); base64(image.png(name)) }`, args: [][]string{imgNames, {"0", "7", "255"}}},
	{name: "outer", def: `outer = name => [snap(name), 1]`, args: [][]string{imgNames}, need: "snap"},
	{name: "paint2", def: `func paint2(name, v) { paint(name, 0, 0, v); paint(name, 1, 0, v); v }`, args: [][]string{imgNames, {"0", "10", "200"}}, need: "paint"},
	{name: "missing", def: `missing = name => catch(image.png(name)).err`, args: [][]string{{`"a"`, `"never-created"`}}},
	{name: "tri", def: `tri = func(name, x) { image.move_to(name, 0.0, 0.0); image.line_to(name, x, 0.0); image.line_to(name, 0.0, x); image.close_path(name); 1 }`, args: [][]string{imgNames, {"2.0", "3.0"}}},
	{name: "fill", def: `func fill(name, v) { image.draw(name, [v, 0, 0]) }`, args: [][]string{imgNames, {"0", "10", "255"}}},
	{name: "fillh", def: `fillh = (name, h) => image.draw_hsl(name, [h, 0.5, 0.5])`, args: [][]string{imgNames, {"0.0", "0.5"}}},
	{name: "filly", def: `filly = (name, v) => image.draw_ycbcr(name, [v, 128, 128])`, args: [][]string{imgNames, {"16", "235"}}},
	{name: "curve", def: `func curve(name, x) { image.move_to(name, 0.0, 0.0); image.quad_to(name, x, 0.0, x, x); image.cube_to(name, 0.0, x, 0.0, 1.0, 0.0, 0.0); name }`, args: [][]string{imgNames, {"2.0", "3.0"}}},
	{name: "blend", def: `blend = (p, q) => image.add(p, q)`, args: [][]string{imgNames, imgNames}},
	{name: "stamp", def: `func stamp(name, v) { tri(name, 3.0); fill(name, v); base64(image.png(name)) }`, args: [][]string{imgNames, {"10", "255"}}, need: "tri"},
}

func genImages(t *rapid.T) (Case, bool) {
	var inputs []string
	add := func(s string) { inputs = append(inputs, s) }
	// the wrappers of this history
	chosen := map[string]bool{}
	var ws []wrapper
	for i := rapid.IntRange(2, 5).Draw(t, "nwrappers"); i > 0; i-- {
		w := rapid.SampledFrom(wrappers).Draw(t, "wrapper")
		for _, x := range wrappers {
			if x.name == w.need && !chosen[x.name] {
				chosen[x.name] = true
				ws = append(ws, x)
				add(x.def)
			}
		}
		if !chosen[w.name] {
			chosen[w.name] = true
			ws = append(ws, w)
			add(w.def)
		}
	}
	add("r1 = nil; r2 = nil; r3 = nil")
	// the image store belongs to the process, not to the interpreter state: every history starts by creating its images
	dim := func(l string) int { return rapid.IntRange(1, 3).Draw(t, l) }
	add(fmt.Sprintf("image.new(\"a\", %d, %d)", dim("wa"), dim("ha")))
	add(fmt.Sprintf("image.new(\"b\", %d, %d)", dim("wb"), dim("hb")))
	comp := func() string { return rapid.SampledFrom([]string{"0", "10", "128", "255"}).Draw(t, "comp") }
	img := func() string { return rapid.SampledFrom(imgNames).Draw(t, "img") }
	version := 0               // bumped by everything that may change an image
	seenAt := map[string]int{} // wrapper call -> version when it was last made
	var calls []string
	nonTrivial := false
	call := func(src string) {
		if v, ok := seenAt[src]; ok && v != version {
			nonTrivial = true // an equal call, the images changed in between
		}
		version++ // the call itself may draw
		seenAt[src] = version
		form := rapid.IntRange(0, 3).Draw(t, "callform")
		switch form {
		case 0:
			add(fmt.Sprintf("println(%s)", src))
		case 1:
			add(src)
		default:
			add(fmt.Sprintf("%s = %s", rapid.SampledFrom([]string{"r1", "r2", "r3"}).Draw(t, "rv"), src))
		}
	}
	for i := rapid.IntRange(6, 18).Draw(t, "steps"); i > 0; i-- {
		switch k := rapid.IntRange(0, 11).Draw(t, "step"); {
		case k <= 3 || len(calls) == 0:
			w := rapid.SampledFrom(ws).Draw(t, "callw")
			args := make([]string, len(w.args))
			for j, pool := range w.args {
				args[j] = rapid.SampledFrom(pool).Draw(t, "warg")
			}
			src := fmt.Sprintf("%s(%s)", w.name, strings.Join(args, ", "))
			calls = append(calls, src)
			call(src)
		case k <= 6:
			call(rapid.SampledFrom(calls).Draw(t, "repeat"))
		case k == 7:
			add(fmt.Sprintf("image.set(%s, %d, %d, [%s, %s, %s])", img(), rapid.IntRange(0, 1).Draw(t, "x"), rapid.IntRange(0, 1).Draw(t, "y"), comp(), comp(), comp()))
			version++
		case k == 8:
			add(fmt.Sprintf("image.new(%s, %d, %d)", img(), dim("w"), dim("h")))
			version++
		case k == 9:
			add(fmt.Sprintf("image.add(%s, %s)", img(), img()))
			version++
		case k == 10:
			n := img()
			add(fmt.Sprintf("image.move_to(%s, 0.0, 0.0); image.line_to(%s, 3.0, 0.0); image.line_to(%s, 0.0, 3.0); image.draw(%s, [%s, %s, %s])", n, n, n, n, comp(), comp(), comp()))
			version++
		default:
			add(fmt.Sprintf("println(base64(image.png(%s)))", img()))
		}
	}
	for _, c := range calls {
		if rapid.Bool().Draw(t, "finalcall") {
			call(c)
		}
	}
	add(`println(base64(image.png("a")), base64(image.png("b")))`)
	add("println(r1 == r2, r2 == r3)")
	return Case{Inputs: inputs}, nonTrivial
}

func TestImageWrappers(t *testing.T) {
	pbt.Check(t, 150, 15000, func(rt *rapid.T) { // (every image.png allocates a compressor: the dearest cases of the package)
		c, nonTrivial := genImages(rt)
		if _, err := check(c); err != nil {
			pbt.Fail(rt, "image-wrapper", c, "%v", err)
		}
		lbl := "image-wrapper:no-equal-call-across-a-change"
		if nonTrivial {
			lbl = "image-wrapper:equal-call-after-the-image-changed"
		}
		pbt.Case(nonTrivial, strings.Join(c.Inputs, "\n"), lbl)
		pbt.Sample("image-wrapper", c.Inputs)
	})
}
