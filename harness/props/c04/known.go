package c04

// excludedHistory returns the id of the listed known finding whose class the history belongs to ("" = none).
func excludedHistory(c Case) string { return "" }
