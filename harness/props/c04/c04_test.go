// C04 — automatic memoization is unobservable.
package c04

import (
	"encoding/json"
	"fmt"
	"os"
	"strings"
	"testing"
	"time"

	"grol.io/grol/eval"
	"grol.io/grol/object"
	"pgregory.net/rapid"
	"verif/gen"
	"verif/pbt"
	"verif/sess"
)

var impureCounter int64

func TestMain(m *testing.M) {
	// an impure extension under the harness's control (rand() and time.now() are not reproducible)
	_ = object.CreateFunction(object.Extension{
		Name: "vcounter", MinArgs: 0, MaxArgs: 0, DontCache: true,
		Callback: object.ShortCallback(func(_ []object.Object) object.Object {
			impureCounter++
			return object.Integer{Value: impureCounter}
		}),
	})
	sess.Init()
	pbt.Main(m, pbt.Meta{
		Property: "C04",
		Level:    "exploration",
		Rule: "REPL input histories run on two fresh interpreter states in the same binary, function-result cache on vs switched off through the build-tag hook (Cache.Get always misses, Set is a no-op); " +
			"oracle: per input the printed output (order and multiplicity of print side effects), the echoed result, error/no error and the final globals are identical. Histories are built by a stateful generator: " +
			"define / redefine named functions and lambdas from body templates (pure, reads a global, reads a constant, calls another function, prints, fails, calls the impure counter extension, recursion, closure factories " +
			"capturing numbers, strings, upper-case names and function values), call them with arguments from a small pool so equal calls recur (ints, 0.0 / -0.0, 1 / 1.0, strings, small arrays and maps, 5 arguments), mutate " +
			"globals, delete and re-create names; plus typed-grammar programs. Non-trivial: the cached run had at least one cache hit AFTER a state change (hit counter of the hook); distinct by history text. " +
			"Nested results: functions returning a generated TREE of containers (arrays and maps with int or string keys, built by literals or loops, sizes on both sides of the small/large thresholds and sizes given by the argument, small wrapping large and the reverse) " +
			"are called repeatedly with equal arguments while the caller takes an inner container out of the received value into a variable and updates it in place (index / dot assignment, del, through a helper function), all top-level names declared beforehand; " +
			"non-trivial: a cache hit after the last such update. " +
			"Image wrappers: functions wrapping the DontCache extensions that keep their state outside the interpreter (image.new, image.set, image.set_ycbcr, image.set_hsl, image.png; also nested, conditional, printing) are called repeatedly with equal arguments " +
			"while the named images are changed in between (directly, by the path functions, or by other wrappers), the PNG bytes are compared; non-trivial: an equal wrapper call made after the images changed.",
		Assumptions: []string{
			"rand() and time.now() are replaced by vcounter(), an extension registered by the harness with DontCache: what is checked is that such calls are never frozen, not their values",
			"info and type output is not compared (not generated)",
		},
	})
}

type Case struct {
	Inputs []string `json:"inputs"`
}

var cfg = sess.Config{MaxDepth: 3000, MaxDuration: 5 * time.Second}

func runBoth(c Case) (a, b []sess.Res, ga, gb string, hits int64) {
	eval.VerifDisableCache = false
	impureCounter = 0
	before := eval.VerifCacheHits
	a, ga, _ = sess.RunAll(cfg, []string{gen.TypedPrelude}, c.Inputs)
	hits = eval.VerifCacheHits - before
	eval.VerifDisableCache = true
	impureCounter = 0
	b, gb, _ = sess.RunAll(cfg, []string{gen.TypedPrelude}, c.Inputs)
	eval.VerifDisableCache = false
	return
}

func check(c Case) (int64, error) {
	pbt.InFlight("inflight", c)
	a, b, ga, gb, hits := runBoth(c)
	if d := sess.CompareRuns(c.Inputs, a, b, ga, gb, "the cache", "the cache switched off", sess.DiffOptions{}); d != "" {
		return hits, fmt.Errorf("%s\nall inputs:\n%s", d, strings.Join(c.Inputs, "\n"))
	}
	return hits, nil
}

// hitsAfterChange: cache hits of the cached run that happen after the last state-changing input index.
func hitsAfterChange(c Case, changeIdx int) int64 {
	eval.VerifDisableCache = false
	impureCounter = 0
	s := sess.New(cfg)
	s.Run(gen.TypedPrelude)
	var at int64
	for i, in := range c.Inputs {
		if i == changeIdx+1 {
			at = eval.VerifCacheHits
		}
		s.Run(in)
	}
	if changeIdx < 0 || changeIdx+1 >= len(c.Inputs) {
		return 0
	}
	return eval.VerifCacheHits - at
}

// ---- the history generator ---------------------------------------------------------------------------

var argPool = []string{"0", "1", "2", "3", "0.0", "-0.0", "1.0", "2.5", `"a"`, `"b"`, "[1]", "[1, 2]", "[[1]]", "[[1, 2]]", "[]", `{"k": 1}`, "true", "nil", "g1", "K1"}

type hgen struct {
	t         *rapid.T
	calls     []string // call inputs made so far, to be repeated verbatim
	inputs    []string
	funcs     []string // callable names, arity 2 unless noted
	arity     map[string]int
	lastState int // index of the last input that changed state a function may depend on
	scn       int
}

func (h *hgen) add(src string, stateChange bool) {
	h.inputs = append(h.inputs, src)
	if stateChange {
		h.lastState = len(h.inputs) - 1
	}
}

func (h *hgen) pick(l []string, label string) string { return rapid.SampledFrom(l).Draw(h.t, label) }

func (h *hgen) body(self string, params []string) string {
	a := params[0]
	b := a
	if len(params) > 1 {
		b = params[1]
	}
	callee := ""
	if len(h.funcs) > 0 {
		callee = h.pick(h.funcs, "callee")
	}
	templates := []string{
		fmt.Sprintf("%s + %s", a, b),
		fmt.Sprintf("[%s, %s]", a, b),
		fmt.Sprintf("%s + g1", a),
		fmt.Sprintf("g2 = g2 + 1; %s", a),
		fmt.Sprintf("%s + K1", a),
		fmt.Sprintf("println(\"in %s\", %s); %s", self, a, b),
		fmt.Sprintf("print(\"p\"); print(%s); %s", b, a),
		fmt.Sprintf("if %s == 0 { error(\"zero\") }; %s", a, a),
		fmt.Sprintf("[%s, vcounter()]", a),
		fmt.Sprintf("if %s == 1 { vcounter() } else { %s }", a, b),
		fmt.Sprintf("if %s <= 0 { 0 } else { 1 + %s(%s - 1%s) }", a, self, a, strings.Repeat(", "+b, len(params)-1)),
		fmt.Sprintf("x = %s; x = x + 1; x", a),
		fmt.Sprintf("len(str(%s))", a),
		fmt.Sprintf("t = %s; if t == nil { 0 } else { t }", b),
	}
	if callee != "" && callee != self {
		args := make([]string, h.arity[callee])
		for i := range args {
			args[i] = params[i%len(params)]
		}
		templates = append(templates, fmt.Sprintf("%s(%s)", callee, strings.Join(args, ", ")),
			fmt.Sprintf("[%s(%s), %s]", callee, strings.Join(args, ", "), a),
			fmt.Sprintf("catch(%s(%s)).err", callee, strings.Join(args, ", ")))
	}
	return h.pick(templates, "body")
}

func (h *hgen) define() {
	n := rapid.IntRange(1, 4).Draw(h.t, "fn")
	np := rapid.SampledFrom([]int{1, 2, 2, 2, 5}).Draw(h.t, "np")
	params := []string{"a", "b", "c", "d", "e"}[:np]
	switch rapid.IntRange(0, 2).Draw(h.t, "kind") {
	case 0:
		name := fmt.Sprintf("f%d", n)
		h.add(fmt.Sprintf("func %s(%s) { %s }", name, strings.Join(params, ", "), h.body(name, params)), true)
		h.register(name, np)
	case 1:
		name := fmt.Sprintf("l%d", n)
		h.add(fmt.Sprintf("%s = (%s) => { %s }", name, strings.Join(params, ", "), h.body(name, params)), true)
		h.register(name, np)
	default:
		name := fmt.Sprintf("l%d", n)
		h.add(fmt.Sprintf("%s = func(%s) { %s }", name, strings.Join(params, ", "), h.body(name, params)), true)
		h.register(name, np)
	}
}

func (h *hgen) register(name string, arity int) {
	if _, ok := h.arity[name]; !ok {
		h.funcs = append(h.funcs, name)
	}
	h.arity[name] = arity
}

func (h *hgen) call() {
	if len(h.funcs) == 0 {
		h.define()
		return
	}
	name := h.pick(h.funcs, "callfn")
	args := make([]string, h.arity[name])
	for i := range args {
		args[i] = h.pick(argPool, "arg")
	}
	var src string
	switch rapid.IntRange(0, 3).Draw(h.t, "callform") {
	case 0:
		src = fmt.Sprintf("println(%s(%s))", name, strings.Join(args, ", "))
	case 1:
		src = fmt.Sprintf("%s(%s)", name, strings.Join(args, ", "))
	case 2:
		src = fmt.Sprintf("r = %s(%s); println(r, r)", name, strings.Join(args, ", "))
	default:
		src = fmt.Sprintf("println(catch(%s(%s)))", name, strings.Join(args, ", "))
	}
	h.calls = append(h.calls, src)
	h.add(src, false)
}

// repeat makes an earlier call again, verbatim: the cache's chance to answer.
func (h *hgen) repeat() {
	if len(h.calls) == 0 {
		h.call()
		return
	}
	h.add(h.pick(h.calls, "repeat"), false)
}

func (h *hgen) closures() {
	switch rapid.IntRange(0, 6).Draw(h.t, "closure") {
	case 0: // same text, different captured numbers / strings
		h.add("mk1 = c => x => x + c", true)
		v1, v2 := h.pick([]string{"1", "2", `"s"`, "0.5"}, "v1"), h.pick([]string{"1", "10", `"t"`, "1.5"}, "v2")
		h.add(fmt.Sprintf("ca = mk1(%s); cb = mk1(%s)", v1, v2), true)
		h.register("ca", 1)
		h.register("cb", 1)
	case 1: // captured function values
		h.add("mk2 = h => x => h(x)", true)
		h.add("ha = x => x + 1; hb = x => x * 10", true)
		h.add("cc = mk2(ha); cd = mk2(hb)", true)
		h.register("cc", 1)
		h.register("cd", 1)
	case 2: // captured upper-case name
		h.add("mk3 = C => x => [x, C]", true)
		h.add(fmt.Sprintf("ce = mk3(%s); cf = mk3(%s)", h.pick([]string{"1", "2"}, "u1"), h.pick([]string{"3", `"u"`}, "u2")), true)
		h.register("ce", 1)
		h.register("cf", 1)
	case 3: // counter closure: mutable captured state
		h.add("mk4 = () => { n = 0; () => { n = n + 1; n } }", true)
		h.add("cnt = mk4()", true)
		h.add("println(cnt(), cnt(), cnt())", false)
	case 4: // local function defined per call
		h.add("outer = (a, b) => { inner = x => x + a; inner(b) }", true)
		h.register("outer", 2)
	case 5: // variadic: a trailing array argument is spread, [[1]] and [1] must not be confused
		h.add(h.pick([]string{"fv = func(a, ..) { .. }", "fv = (a, ..) => { [a, len(..), ..] }", "func fv(a, ..) { println(\"fv\", a, ..); len(..) }"}, "variadic"), true)
		h.register("fv", 2)
		a, b := h.pick([]string{"1", "\"a\"", "2.5"}, "va"), h.pick([]string{"1", "5", "\"x\""}, "vb")
		forms := []string{fmt.Sprintf("println(fv(%s, [[%s]]))", a, b), fmt.Sprintf("println(fv(%s, [%s]))", a, b), fmt.Sprintf("println(fv(%s, %s))", a, b), fmt.Sprintf("println(fv(%s, [%s, %s]))", a, b, b), fmt.Sprintf("println(fv(%s, [[%s], %s]))", a, b, b)}
		for i := rapid.IntRange(3, 7).Draw(h.t, "vcalls"); i > 0; i-- {
			c := h.pick(forms, "vform")
			h.add(c, false)
			h.calls = append(h.calls, c)
		}
		pbt.Label("history:variadic-spread-scenario")
	default: // upper case parameters: binding them can fail depending on the captured scope
		h.add("mk5 = func(N) { func(N) { N * 2 } }", true)
		h.add(fmt.Sprintf("cg = mk5(%s); ch = mk5(%s)", h.pick([]string{"1", "2"}, "n1"), h.pick([]string{"2", "3"}, "n2")), true)
		h.register("cg", 1)
		h.register("ch", 1)
		for i := rapid.IntRange(3, 7).Draw(h.t, "ccalls"); i > 0; i-- {
			c := fmt.Sprintf("println(catch(%s(%s)))", h.pick([]string{"cg", "ch"}, "cfn"), h.pick([]string{"1", "2", "3"}, "carg"))
			h.add(c, false)
			h.calls = append(h.calls, c)
		}
		pbt.Label("history:constant-parameter-closures-scenario")
	}
}

// scenario: a caller whose result is remembered, then its callee / the global / the constant it depends on is changed
// by a function (defined before the remembered call) in one of several ways, then the same call again.
func (h *hgen) scenario() {
	h.scn++
	callee, caller, mut := fmt.Sprintf("sc%d", h.scn), fmt.Sprintf("sk%d", h.scn), fmt.Sprintf("sm%d", h.scn)
	dep := h.pick([]string{"callee", "global", "constant", "failing-callee", "many-arguments"}, "dep")
	if dep == "many-arguments" {
		// more arguments than the cache key holds: calls agreeing on the first ones
		h.add(fmt.Sprintf("%s = (a, b, c, d, e, f) => { println(\"w\", e); a + b + c + d + e * 10 + f * 100 }", caller), true)
		h.add(fmt.Sprintf("%s = (a, ..) => a + len(..)", callee), true)
		for i := rapid.IntRange(3, 8).Draw(h.t, "wcalls"); i > 0; i-- {
			var c string
			if rapid.Bool().Draw(h.t, "wvariadic") {
				c = fmt.Sprintf("println(%s(100%s))", callee, strings.Repeat(", 1", rapid.IntRange(2, 6).Draw(h.t, "nextra")))
			} else {
				c = fmt.Sprintf("println(%s(1, 1, 1, 1, %d, %d))", caller, rapid.IntRange(1, 2).Draw(h.t, "e"), rapid.IntRange(1, 2).Draw(h.t, "f"))
			}
			h.add(c, false)
			h.calls = append(h.calls, c)
		}
		pbt.Label("history:scenario-more-arguments-than-the-key-holds")
		return
	}
	h.add(fmt.Sprintf("%s = x => x + 1; sg%d = 1; SK%d = 1", callee, h.scn, h.scn), true)
	switch dep {
	case "callee":
		h.add(fmt.Sprintf("%s = x => %s(x) * 10", caller, callee), true)
		h.add(h.pick([]string{
			fmt.Sprintf("%s = () => { old = %s; %s = x => x + 2; old }", mut, callee, callee),
			fmt.Sprintf("%s = () => { %s = x => x + 2 }", mut, callee),
			fmt.Sprintf("%s = () => { t = %s(5); %s = x => x + t; t }", mut, callee, callee),
			fmt.Sprintf("%s = () => { inner = () => { old = %s; %s = x => x + 2 }; inner() }", mut, callee, callee),
		}, "mutform"), true)
	case "global":
		h.add(fmt.Sprintf("%s = x => x + sg%d", caller, h.scn), true)
		h.add(h.pick([]string{
			fmt.Sprintf("%s = () => { old = sg%d; sg%d = old + 5; old }", mut, h.scn, h.scn),
			fmt.Sprintf("%s = () => { sg%d++ }", mut, h.scn),
		}, "mutform"), true)
	case "failing-callee":
		// the callee depends on the global and fails; the caller swallows the failure
		h.add(fmt.Sprintf("%s = x => { if x > sg%d { error(\"over\") }; x }", callee, h.scn), true)
		h.add(fmt.Sprintf("%s = x => { r = catch(%s(x)); if r.err { println(\"refused\", x) }; r.err }", caller, callee), true)
		h.add(h.pick([]string{
			fmt.Sprintf("%s = () => { sg%d = 10 }", mut, h.scn),
			fmt.Sprintf("%s = () => { old = sg%d; sg%d = old + 9; old }", mut, h.scn, h.scn),
		}, "mutform"), true)
	default:
		h.add(fmt.Sprintf("%s = x => x + SK%d", caller, h.scn), true)
		h.add(fmt.Sprintf("%s = () => { old = SK%d; del(SK%d); SK%d = old + 5; old }", mut, h.scn, h.scn, h.scn), true)
	}
	call := fmt.Sprintf("println(%s(%s))", caller, h.pick([]string{"1", "2", "0.5", "5"}, "scarg"))
	h.add(call, false)
	if rapid.Bool().Draw(h.t, "again") {
		h.add(call, false)
	}
	h.add(fmt.Sprintf("println(catch(%s()).err)", mut), true)
	h.add(call, false)
	h.calls = append(h.calls, call)
	pbt.Label("history:scenario-dependency-changed-by-a-function:" + dep)
}

func genHistory(t *rapid.T) (Case, int) {
	h := &hgen{t: t, arity: map[string]int{}, lastState: -1}
	h.add("g1 = 1; g2 = 0; K1 = 5", true)
	// functions that change, from inside a function, what other functions depend on (defined first: a definition
	// is itself a state change, the interesting histories have none between the remembered call and the mutation)
	var mutators []string
	if rapid.Bool().Draw(t, "mutators") {
		target := fmt.Sprintf("l%d", rapid.IntRange(1, 4).Draw(t, "swaptarget"))
		ftarget := fmt.Sprintf("f%d", rapid.IntRange(1, 4).Draw(t, "redeftarget"))
		h.add(fmt.Sprintf("swapl = () => { old = %s; %s = (a, ..) => { [a, \"swapped\"] }; 1 }", target, target), true)
		h.add("setg = v => { g1 = v; v }", true)
		h.add(fmt.Sprintf("redeff = () => { func %s(a, ..) { [a, \"redefined\"] }; 2 }", ftarget), true)
		h.add("bumpk = () => { del(K1); K1 = 9; K1 }", true)
		h.add(fmt.Sprintf("swapread = () => { t = %s(1, 2); %s = (a, ..) => { [t, a] }; t }", target, target), true)
		mutators = []string{"swapl()", "setg(7)", "setg(\"m\")", "redeff()", "bumpk()", "swapread()"}
	}
	n := rapid.IntRange(8, 40).Draw(t, "steps")
	for i := 0; i < n; i++ {
		switch rapid.IntRange(0, 19).Draw(t, "action") {
		case 14, 15, 16, 17, 18, 19:
			h.repeat()
		case 0, 1:
			h.define()
		case 2, 3, 4, 5, 6, 7:
			h.call()
		case 8:
			h.add(fmt.Sprintf("g1 = %s", h.pick([]string{"1", "2", "7", `"g"`}, "g1v")), true)
		case 9:
			h.add("g1++", true)
		case 10:
			h.add(fmt.Sprintf("del(K1); K1 = %s", h.pick([]string{"5", "6", `"k"`}, "k1v")), true)
		case 11:
			h.closures()
		case 12:
			if len(h.funcs) > 0 {
				name := h.pick(h.funcs, "delfn")
				h.add("del("+name+")", true)
				// re-create with another body
				ar := h.arity[name]
				params := []string{"a", "b", "c", "d", "e"}[:ar]
				if strings.HasPrefix(name, "f") {
					h.add(fmt.Sprintf("func %s(%s) { %s }", name, strings.Join(params, ", "), h.body(name, params)), true)
				} else {
					h.add(fmt.Sprintf("%s = (%s) => { %s }", name, strings.Join(params, ", "), h.body(name, params)), true)
				}
			}
		case 13:
			if rapid.IntRange(0, 2).Draw(t, "scenario") == 0 {
				h.scenario()
				break
			}
			if len(mutators) > 0 {
				h.add("println(catch("+h.pick(mutators, "mutator")+"))", true)
				pbt.Label("history:state-changed-from-inside-a-function")
				break
			}
			h.add("println(g1, g2, K1)", false)
		default:
			h.add("println(g1, g2, K1)", false)
		}
	}
	// finish with a round of calls so that every state change is followed by calls
	for i := 0; i < 6; i++ {
		h.repeat()
	}
	return Case{Inputs: h.inputs}, h.lastState
}

var explore = os.Getenv("VERIF_EXPLORE") != ""

func TestHistories(t *testing.T) {
	pbt.Check(t, 2500, 300000, func(rt *rapid.T) {
		c, lastState := genHistory(rt)
		if ex := excludedHistory(c); ex != "" {
			pbt.Excluded(ex)
			return
		}
		hits, err := check(c)
		if err != nil {
			pbt.Fail(rt, "history", c, "%v", err)
		}
		after := int64(0)
		if hits > 0 {
			after = hitsAfterChange(c, lastState)
		}
		lbl := "history:no-hit"
		switch {
		case after > 0:
			lbl = "history:hit-after-state-change"
		case hits > 0:
			lbl = "history:hit"
		}
		pbt.Case(after > 0, strings.Join(c.Inputs, "\n"), lbl)
		pbt.Sample("history", c.Inputs)
	})
}

// typed-grammar programs, statement by statement
func TestPrograms(t *testing.T) {
	pbt.Check(t, 1200, 150000, func(rt *rapid.T) {
		g := gen.NewTGen(rt, gen.TCfg{MaxDepth: 3, MaxStmts: 4, MaxBlockDepth: 3, MaxParams: 3, MaxLoopDepth: 2,
			Floats: true, Containers: true, Errors: true, Closures: true, Recursion: true, PrintEvery: true, Variadics: true, IncrDecr: true, ShadowNames: true})
		stmts := g.Program(4, 12)
		var c Case
		for _, s := range stmts {
			c.Inputs = append(c.Inputs, gen.Print([]*gen.Node{s}, gen.PrintOptions{}))
		}
		if ex := excludedHistory(c); ex != "" {
			pbt.Excluded(ex)
			return
		}
		hits, err := check(c)
		if err != nil {
			pbt.Fail(rt, "program", c, "%v", err)
		}
		lbl := "program:no-hit"
		if hits > 0 {
			lbl = "program:hit"
		}
		pbt.Case(hits > 0, strings.Join(c.Inputs, "\n"), lbl)
		pbt.Sample("program", c.Inputs)
	})
}

func oracle(kind string, raw json.RawMessage) error {
	var c Case
	if err := json.Unmarshal(raw, &c); err != nil {
		return err
	}
	_, err := check(c)
	return err
}

func TestReplay(t *testing.T)   { pbt.RunReplay(t, oracle) }
func TestARegress(t *testing.T) { pbt.RunRegress(t, "C04", oracle) }
