// C17 — the confinement must not depend on process state around the attempts: where the script being run lives
// (eval.State.CurrentFile) and later, documented-as-harmless, extensions.Init calls.
package c17

import (
	"fmt"
	"path/filepath"
	"strings"
	"testing"

	"pgregory.net/rapid"
	"verif/pbt"
)

var namePieces = []string{"..", "/", "a", "Z9_", ".gr", ".", "\\", "\x00", " ", "~", "\xff", "ok", "sub", "inner", "outside", "cwd", "elsewhere", "scripts", "main", "secret", "é", "a.gr.gr", "A_b"}

// plainName draws a name the restricted predicate accepts (letters, digits, underscore; sometimes with .gr).
func plainName(rt *rapid.T) string {
	n := rapid.StringOfN(rapid.SampledFrom([]rune("abzAZ09_grx")), 1, 6, -1).Draw(rt, "plain")
	if rapid.IntRange(0, 3).Draw(rt, "suffixed") == 0 {
		n += ".gr"
	}
	return n
}

func drawNames(rt *rapid.T, fixed []string, plain, mixed int) [][]byte {
	var names [][]byte
	for _, f := range fixed {
		names = append(names, []byte(f))
	}
	for i := 0; i < plain; i++ {
		names = append(names, []byte(plainName(rt)))
	}
	for i := 0; i < mixed; i++ {
		names = append(names, []byte(strings.Join(rapid.SliceOfN(rapid.SampledFrom(namePieces), 0, 5).Draw(rt, "name"), "")))
	}
	return names
}

// scriptPath draws the path of the script being run: relative or absolute, above, below or beside the working
// directory (always inside the scratch tree; rootMark is replaced by the tree's absolute path), cleaned or not.
func scriptPath(rt *rapid.T) string {
	prefix := rapid.SampledFrom([]string{"", "./", "../", "../", rootMark + "/", rootMark + "/cwd/", "../cwd/", "sub/../../", rootMark + "/cwd/../", "..//", ".././"}).Draw(rt, "prefix")
	// none of these is a file of the base tree (cwd/a, cwd/ok, cwd/secret are)
	dirs := rapid.SliceOfN(rapid.SampledFrom([]string{"elsewhere", "scripts", "sub", "lib_2", "outside", "Z.d", "with-dash", "x", "."}), 0, 3).Draw(rt, "dirs")
	base := rapid.SampledFrom([]string{"main.gr", "x.gr", "run", "a.gr", ".gr", "ok.gr", "secret.gr"}).Draw(rt, "base")
	p := prefix
	for _, d := range dirs {
		p += d + "/"
	}
	return p + base
}

// besideCwd: the script's directory is, lexically, not the working directory.
func besideCwd(script string) bool {
	return filepath.Dir(script) != "."
}

// TestScriptLocation: the same attempts while a script file is being run (CurrentFile set as main.go does), the
// script living above, below or beside the working directory, with a sentinel planted next to it for every plain
// name tried. The oracle is the package's: acceptance by the name alone, an accepted save writes cwd/<stem>.gr only,
// an accepted load evaluates cwd/<stem>.gr only, everything else leaves the tree as it was.
func TestScriptLocation(t *testing.T) {
	pbt.Check(t, 10, 400, func(rt *rapid.T) {
		script := scriptPath(rt)
		cfg := rapid.SampledFrom([]Config{cfgRestricted, cfgRestricted, cfgEmptyOnly}).Draw(rt, "cfg")
		base := filepath.Base(script)
		fixed := []string{"", "a", "ok", "secret", "main", "a.gr", base, strings.TrimSuffix(base, ".gr"), script, strings.TrimSuffix(script, ".gr"), filepath.Dir(script) + "/a", "../a", "sub/inner"}
		c := Case{Cfg: cfg, Names: drawNames(rt, fixed, 6, 12), Script: script}
		if err := check(c); err != nil {
			pbt.Fail(rt, "script-location", c, "%v", err)
		}
		for _, n := range c.Names {
			pbt.Case(besideCwd(script), cfg.Name+"|"+script+"|"+string(n), "script:"+cfg.Name)
		}
		pbt.Sample("script-location", fmt.Sprintf("%s script=%q names=%q", cfg.Name, script, c.Names[:8]))
	})
}

func drawReinit(rt *rapid.T, nNames int) Reinit {
	r := Reinit{At: rapid.IntRange(0, nNames).Draw(rt, "at")}
	switch rapid.IntRange(0, 4).Draw(rt, "kind") {
	case 0:
		r.Nil = true
	case 1:
		r.Cfg = cfgUnrestricted
	default:
		r.Cfg = Config{Name: "again", HasLoad: rapid.Bool().Draw(rt, "load"), HasSave: rapid.Bool().Draw(rt, "save"), EmptyOnly: rapid.Bool().Draw(rt, "emptyOnly"), Unrestricted: rapid.Bool().Draw(rt, "unrestricted")}
	}
	return r
}

// TestInitAgain: extensions.Init called again in the child (nil, or another configuration: unrestricted, other
// empty-only flag, load/save enabled) after the first, restricting, call and before some of the attempts. Only the
// first call counts: the oracle is the package's, with the first configuration.
func TestInitAgain(t *testing.T) {
	pbt.Check(t, 10, 400, func(rt *rapid.T) {
		cfg := rapid.SampledFrom([]Config{cfgRestricted, cfgEmptyOnly, cfgEmptyOnly, cfgDisabled}).Draw(rt, "cfg")
		fixed := []string{"", "a", "abc", "a.gr", "../outside.gr", "../escaped", "sub/new", "../outside/new", ".gr"}
		names := drawNames(rt, fixed, 4, 10)
		n := rapid.IntRange(1, 3).Draw(rt, "inits")
		c := Case{Cfg: cfg, Names: names}
		differs := false
		for i := 0; i < n; i++ {
			r := drawReinit(rt, len(names))
			c.Reinit = append(c.Reinit, r)
			if r.Cfg.Unrestricted != cfg.Unrestricted || r.Cfg.EmptyOnly != cfg.EmptyOnly || r.Cfg.HasLoad != cfg.HasLoad || r.Cfg.HasSave != cfg.HasSave {
				differs = true
			}
		}
		if err := check(c); err != nil {
			pbt.Fail(rt, "init-again", c, "%v", err)
		}
		for _, nm := range names {
			pbt.Case(differs, cfg.Name+"|"+c.context()+"|"+string(nm), "init-again:"+cfg.Name)
		}
		pbt.Sample("init-again", fmt.Sprintf("%s%s names=%q", cfg.Name, c.context(), names[:6]))
	})
}
