// C17 — restricted IO confines file access to plain .gr names in the current directory.
package c17

import (
	"context"
	"crypto/sha256"
	"encoding/hex"
	"encoding/json"
	"fmt"
	"io/fs"
	"os"
	"path/filepath"
	"sort"
	"strings"
	"testing"

	"fortio.org/log"
	"grol.io/grol/eval"
	"grol.io/grol/extensions"
	"grol.io/grol/repl"
	"pgregory.net/rapid"
	"verif/child"
	"verif/pbt"
	"verif/val"
)

func TestMain(m *testing.M) {
	child.Dispatch(map[string]child.Handler{"c17": childMain})
	pbt.Main(m, pbt.Meta{
		Property: "C17",
		Level:    "exploration",
		Rule: "file-name strings passed to save(name) and load(name) through repl.EvalStringWithOption in a child process per IO configuration (restricted, empty-only, load/save disabled; unrestricted as a " +
			"positive control of the detector), working directory inside a scratch tree seeded with sentinel .gr files that print LEAK <path> when evaluated (outside the directory, in a sub-directory, " +
			"dot files). Oracle: acceptance equals a reference predicate written from the property (name minus one .gr suffix consists only of letters, digits, underscore; name == \"\" in " +
			"empty-only mode; nothing when disabled) and does not depend on previous calls (second pass in reversed order); an accepted save creates exactly cwd/<stem>.gr; a rejected request leaves the whole " +
			"tree (names, sizes, content hashes) unchanged; no LEAK line for any file but cwd/<stem>.gr of an accepted name; exec and run do not exist; image.save creates only cwd/grol.png. Enumerated " +
			"completely: all names up to the tier's length over an 11-symbol alphabet, bare and with .gr appended. Non-trivial: the name contains a separator, dot, NUL, space, tilde or non-ASCII byte, or .gr " +
			"not at the end; counted exactly (enumeration), random names by text. Process state around the attempts (same oracle, first configuration): script-location runs the attempts with the interpreter " +
			"state's CurrentFile set to a generated script path (relative or absolute, above, below or beside the working directory, cleaned or not) with a sentinel planted next to the script for every plain " +
			"name tried (non-trivial: the script's directory is not the working directory); init-again calls extensions.Init one to three more times in the child (nil, unrestricted, or random flags) before a " +
			"generated position in the name list, and only the first call may count (non-trivial: a later configuration differs from the first).",
		Assumptions: []string{
			"no symlink is planted in the working directory: a pre-existing symlink with a plain name (cwd/link.gr -> ../outside.gr) is followed by save/load, which is about the directory's content, not about names a program can choose (observed while building the check; not asserted)",
			"reads of files that are not sentinels cannot be observed through output; the confinement of reads relies on the sentinel placement and on the name predicate",
		},
		Exhaustive:      true,
		ExhaustiveBound: "all names of length <= 5 (quick) / <= 6 (thorough) over {a, Z, 0, _, '.', '/', '\\', NUL, space, '~', 0xff}, each bare and with .gr appended, in the restricted and empty-only configurations",
	})
}

var alphabet = []byte{'a', 'Z', '0', '_', '.', '/', '\\', 0, ' ', '~', 0xff}

type Config struct {
	Name         string `json:"name"`
	HasLoad      bool   `json:"has_load"`
	HasSave      bool   `json:"has_save"`
	EmptyOnly    bool   `json:"empty_only"`
	Unrestricted bool   `json:"unrestricted"`
}

var (
	cfgRestricted   = Config{Name: "restricted", HasLoad: true, HasSave: true}
	cfgEmptyOnly    = Config{Name: "empty-only", HasLoad: true, HasSave: true, EmptyOnly: true}
	cfgDisabled     = Config{Name: "disabled"}
	cfgUnrestricted = Config{Name: "unrestricted", HasLoad: true, HasSave: true, Unrestricted: true}
)

// Reinit is a later extensions.Init call in the same child process, made just before the attempts for name number At.
// Init is documented as safe to call more than once; only the first call counts.
type Reinit struct {
	At  int    `json:"at"`
	Nil bool   `json:"nil"` // Init(nil)
	Cfg Config `json:"cfg"` // Init(&cfg) otherwise
}

type ChildArgs struct {
	Cfg    Config   `json:"cfg"`
	Names  [][]byte `json:"names"`
	Script string   `json:"script,omitempty"` // eval.State.CurrentFile during the attempts ("" = not set, as with -c / EvalString)
	Reinit []Reinit `json:"reinit,omitempty"`
}

type NameResult struct {
	SaveErr   string `json:"save_err"`
	SaveOut   string `json:"save_out"`
	LoadErr   string `json:"load_err"`
	LoadOut   string `json:"load_out"`
	TreeDelta string `json:"tree_delta"` // what changed in the scratch tree because of this name ("" = nothing)
}

type ChildOut struct {
	Results  []NameResult `json:"results"`
	ExecErr  string       `json:"exec_err"`
	RunErr   string       `json:"run_err"`
	ImageNew []string     `json:"image_new"` // files created by image.save
	Fatal    string       `json:"fatal"`
}

// ---- the scratch tree -----------------------------------------------------------------------------------

func sentinel(rel string) string { return fmt.Sprintf("println(\"LEAK %s\")\n", rel) }

// buildTree creates <root>/{outside.gr, a.gr, .gr, Z.gr, cwd/{ok.gr, .hidden.gr, a.txt, sub/inner.gr, sub/a.gr}}
func buildTree(root string) error {
	files := map[string]string{
		"outside.gr": "", "a.gr": "", ".gr": "", "Z.gr": "",
		"cwd/ok.gr": "", "cwd/.hidden.gr": "", "cwd/sub/inner.gr": "", "cwd/sub/a.gr": "", "cwd/a.txt": "",
		// a directory where the file of an allowed name would go: save("aZ") must fail and leave nothing behind
		"cwd/aZ.gr/keep.txt": "",
		// targets for image names that look like paths
		"outside/victim.png": "", "cwd/sub/inner.png": "",
		// files without the .gr extension named like allowed names: load("a") may read cwd/a.gr only
		"cwd/a": "", "cwd/Z0": "", "cwd/secret": "", "cwd/ok": "",
	}
	for rel := range files {
		p := filepath.Join(root, rel)
		if err := os.MkdirAll(filepath.Dir(p), 0o755); err != nil {
			return err
		}
		if err := os.WriteFile(p, []byte(sentinel(rel)), 0o644); err != nil {
			return err
		}
	}
	return nil
}

func snapshot(root string) map[string]string {
	out := map[string]string{}
	_ = filepath.WalkDir(root, func(p string, d fs.DirEntry, err error) error {
		if err != nil {
			return nil
		}
		rel, _ := filepath.Rel(root, p)
		if d.IsDir() {
			out[rel+"/"] = "dir"
			return nil
		}
		if d.Type()&fs.ModeSymlink != 0 {
			t, _ := os.Readlink(p)
			out[rel] = "symlink->" + t
			return nil
		}
		b, err := os.ReadFile(p)
		if err != nil {
			out[rel] = "unreadable"
			return nil
		}
		h := sha256.Sum256(b)
		out[rel] = fmt.Sprintf("%d:%s", len(b), hex.EncodeToString(h[:8]))
		return nil
	})
	return out
}

func diffSnap(before, after map[string]string) string {
	var ds []string
	for k, v := range after {
		if bv, ok := before[k]; !ok {
			ds = append(ds, "created "+k)
		} else if bv != v {
			ds = append(ds, "modified "+k)
		}
	}
	for k := range before {
		if _, ok := after[k]; !ok {
			ds = append(ds, "removed "+k)
		}
	}
	sort.Strings(ds)
	return strings.Join(ds, "; ")
}

// ---- the child: one IO configuration, many names --------------------------------------------------------------------

// currentFile is what the interpreter state's CurrentFile is set to before each evaluation (main.go does that for a
// script file given on the command line); "" leaves it alone.
var currentFile string

func evalIn(src string) (string, []string) {
	opts := repl.EvalStringOptions()
	if currentFile != "" {
		opts.PreInput = func(s *eval.State) { s.CurrentFile = currentFile }
	}
	res, errs, _ := repl.EvalStringWithOption(context.Background(), opts, src)
	return res, errs
}

func reinit(rs []Reinit, at int) {
	for _, r := range rs {
		if r.At != at {
			continue
		}
		if r.Nil {
			_ = extensions.Init(nil)
			continue
		}
		_ = extensions.Init(&extensions.Config{HasLoad: r.Cfg.HasLoad, HasSave: r.Cfg.HasSave, LoadSaveEmptyOnly: r.Cfg.EmptyOnly, UnrestrictedIOs: r.Cfg.Unrestricted})
	}
}

func childMain(raw json.RawMessage) int {
	var args ChildArgs
	var out ChildOut
	emit := func() int {
		b, _ := json.Marshal(out)
		_, _ = os.Stdout.Write(b)
		return 0
	}
	if err := json.Unmarshal(raw, &args); err != nil {
		out.Fatal = err.Error()
		return emit()
	}
	log.SetLogLevelQuiet(log.Critical)
	c := extensions.Config{HasLoad: args.Cfg.HasLoad, HasSave: args.Cfg.HasSave, LoadSaveEmptyOnly: args.Cfg.EmptyOnly, UnrestrictedIOs: args.Cfg.Unrestricted}
	if err := extensions.Init(&c); err != nil {
		out.Fatal = err.Error()
		return emit()
	}
	root := filepath.Dir(mustGetwd())
	currentFile = strings.ReplaceAll(args.Script, rootMark, root)
	base := snapshot(root)
	for i, name := range args.Names {
		reinit(args.Reinit, i)
		lit := val.StrSrc(string(name))
		var r NameResult
		lo, le := evalIn("load(" + lit + ")")
		r.LoadOut, r.LoadErr = lo, strings.Join(le, " | ")
		so, se := evalIn("save(" + lit + ")")
		r.SaveOut, r.SaveErr = so, strings.Join(se, " | ")
		after := snapshot(root)
		r.TreeDelta = diffSnap(base, after)
		if r.TreeDelta != "" {
			// put the tree back so that every name starts from the same state
			restore(root, base, after)
		}
		out.Results = append(out.Results, r)
	}
	reinit(args.Reinit, len(args.Names)) // a later Init that comes after every name, before the look for exec/run and image.save
	_, ee := evalIn(`exec("true")`)
	out.ExecErr = strings.Join(ee, " | ")
	_, re := evalIn(`run("true")`)
	out.RunErr = strings.Join(re, " | ")
	before := snapshot(root)
	for _, img := range []string{"i", "a.png", "../outside/victim.png", "../outside/new.png", "sub/inner.png", "../a.gr", ".gr", "grol.png", "x/../../outside/victim.png"} {
		evalIn("image.new(" + val.StrSrc(img) + ", 2, 2); image.save(" + val.StrSrc(img) + ")")
	}
	after := snapshot(root)
	if d := diffSnap(before, after); d != "" {
		out.ImageNew = strings.Split(d, "; ")
	}
	return emit()
}

func mustGetwd() string {
	d, err := os.Getwd()
	if err != nil {
		panic(err)
	}
	return d
}

// restore removes created files and rewrites modified sentinels.
func restore(root string, base, after map[string]string) {
	for k := range after {
		if _, ok := base[k]; !ok && !strings.HasSuffix(k, "/") {
			_ = os.Remove(filepath.Join(root, k))
		}
	}
	for k, v := range base {
		if av, ok := after[k]; ok && av != v && !strings.HasSuffix(k, "/") && !strings.HasPrefix(v, "symlink") {
			_ = os.WriteFile(filepath.Join(root, k), []byte(sentinel(k)), 0o644)
		}
	}
}

// ---- the reference predicate, written from the property ---------------------------------------------------------------

func plainStem(name string) (string, bool) {
	stem := strings.TrimSuffix(name, ".gr")
	for i := 0; i < len(stem); i++ {
		c := stem[i]
		if !(c == '_' || c >= '0' && c <= '9' || c >= 'a' && c <= 'z' || c >= 'A' && c <= 'Z') {
			return "", false
		}
	}
	return stem, true
}

func accepted(cfg Config, name string) (file string, ok bool) {
	switch {
	case !cfg.HasSave:
		return "", false
	case cfg.EmptyOnly:
		return ".gr", name == ""
	case cfg.Unrestricted:
		return name, true
	}
	stem, ok := plainStem(name)
	return stem + ".gr", ok
}

const dirTarget = "aZ.gr" // see buildTree

// Case: the first (and only effective) IO configuration, the names tried, and the process state around the attempts:
// the path of the script being run (rootMark stands for the absolute path of the scratch tree) and later Init calls.
type Case struct {
	Cfg    Config   `json:"cfg"`
	Names  [][]byte `json:"names"`
	Script string   `json:"script,omitempty"`
	Reinit []Reinit `json:"reinit,omitempty"`
}

const rootMark = "{ROOT}"

// judge compares the child's observations with the predicate.
func judge(cfg Config, names [][]byte, out ChildOut) error {
	if out.Fatal != "" {
		return fmt.Errorf("harness: child failed: %s", out.Fatal)
	}
	if len(out.Results) != len(names) {
		return fmt.Errorf("harness: child returned %d results for %d names", len(out.Results), len(names))
	}
	for i, nm := range names {
		name := string(nm)
		r := out.Results[i]
		file, ok := accepted(cfg, name)
		saveAccepted := r.SaveErr == "" && !strings.Contains(r.SaveOut, "<err")
		if !cfg.HasSave {
			if !strings.Contains(r.SaveErr, "identifier not found") || !strings.Contains(r.LoadErr, "identifier not found") {
				return fmt.Errorf("[%s] save/load must not exist, but save(%q) gave %q / %q and load gave %q", cfg.Name, name, r.SaveOut, r.SaveErr, r.LoadErr)
			}
			if r.TreeDelta != "" {
				return fmt.Errorf("[%s] save(%q)/load(%q) changed the file system: %s", cfg.Name, name, name, r.TreeDelta)
			}
			continue
		}
		if ok && file == dirTarget {
			// the name is allowed but its file cannot be created: the save fails and leaves nothing behind
			if saveAccepted {
				return fmt.Errorf("[%s] save(%q) reports success although cwd/%s is a directory (output %q)", cfg.Name, name, file, r.SaveOut)
			}
			if r.TreeDelta != "" {
				return fmt.Errorf("[%s] the failed save(%q) (cwd/%s is a directory) changed the file system: %s", cfg.Name, name, file, r.TreeDelta)
			}
			continue
		}
		if saveAccepted != ok {
			return fmt.Errorf("[%s] save(%q): accepted=%v (output %q, errors %q) but the name predicate says %v", cfg.Name, name, saveAccepted, r.SaveOut, r.SaveErr, ok)
		}
		if cfg.Unrestricted {
			continue // positive control: effects are judged by the caller
		}
		if !ok {
			if r.TreeDelta != "" {
				return fmt.Errorf("[%s] rejected save(%q)/load(%q) changed the file system: %s", cfg.Name, name, name, r.TreeDelta)
			}
			if strings.Contains(r.LoadOut, "LEAK") || strings.Contains(r.SaveOut, "LEAK") {
				return fmt.Errorf("[%s] rejected load(%q) evaluated a file: %q", cfg.Name, name, r.LoadOut)
			}
			if r.LoadErr == "" {
				return fmt.Errorf("[%s] load(%q) did not fail although the name is not allowed (output %q)", cfg.Name, name, r.LoadOut)
			}
			continue
		}
		// accepted: exactly cwd/<file> may have been created or modified
		want := "cwd/" + file
		for _, d := range strings.Split(r.TreeDelta, "; ") {
			if d == "" {
				continue
			}
			if d != "created "+want && d != "modified "+want {
				return fmt.Errorf("[%s] accepted save(%q) touched %q, only %s is allowed", cfg.Name, name, d, want)
			}
		}
		if !strings.Contains(r.TreeDelta, want) {
			return fmt.Errorf("[%s] accepted save(%q) did not write %s (delta %q, output %q)", cfg.Name, name, want, r.TreeDelta, r.SaveOut)
		}
		if !strings.Contains(r.SaveOut, `"filename":"`+file+`"`) {
			return fmt.Errorf("[%s] save(%q) reports %q, expected filename %q", cfg.Name, name, r.SaveOut, file)
		}
		// a load of an accepted name may only evaluate cwd/<file>
		for _, line := range strings.Split(r.LoadOut, "\n") {
			if strings.HasPrefix(line, "LEAK ") && line != "LEAK "+want {
				return fmt.Errorf("[%s] load(%q) evaluated %q, only %s is allowed", cfg.Name, name, line, want)
			}
		}
	}
	if !cfg.Unrestricted {
		if !strings.Contains(out.ExecErr, "identifier not found") || !strings.Contains(out.RunErr, "identifier not found") {
			return fmt.Errorf("[%s] exec/run must not exist: exec gave %q, run gave %q", cfg.Name, out.ExecErr, out.RunErr)
		}
		for _, d := range out.ImageNew {
			if d != "created cwd/grol.png" && d != "modified cwd/grol.png" {
				return fmt.Errorf("[%s] image.save touched %q, only cwd/grol.png is allowed", cfg.Name, d)
			}
		}
	}
	return nil
}

func runChild(cfg Config, names [][]byte) (ChildOut, error) {
	return runCase(Case{Cfg: cfg}, names)
}

// plantSiblings puts, next to the script, the script itself and a sentinel for every file a plain name of the case
// stands for (<stem>.gr, and .gr): whatever the script's location, none of them may be evaluated or touched unless
// the script's directory is the working directory.
func plantSiblings(root, script string, names [][]byte) error {
	p := strings.ReplaceAll(script, rootMark, root)
	if !filepath.IsAbs(p) {
		p = filepath.Join(root, "cwd", p)
	}
	dir := filepath.Dir(p)
	rel, err := filepath.Rel(root, dir)
	if err != nil || rel == ".." || strings.HasPrefix(rel, "../") {
		return fmt.Errorf("script %q is not inside the scratch tree", script)
	}
	if err := os.MkdirAll(dir, 0o755); err != nil {
		return err
	}
	files := []string{filepath.Base(p), ".gr"}
	for _, n := range names {
		if stem, ok := plainStem(string(n)); ok {
			files = append(files, stem+".gr")
		}
	}
	for _, f := range files {
		fp := filepath.Join(dir, f)
		if _, err := os.Lstat(fp); err == nil {
			continue // already there (a sentinel of the base tree, or planted for another name)
		}
		r, _ := filepath.Rel(root, fp)
		if err := os.WriteFile(fp, []byte(sentinel(r)), 0o644); err != nil {
			return err
		}
	}
	return nil
}

func runCase(c Case, names [][]byte) (ChildOut, error) {
	root, err := os.MkdirTemp("", "verif-c17-")
	if err != nil {
		return ChildOut{}, err
	}
	defer os.RemoveAll(root)
	if err := buildTree(root); err != nil {
		return ChildOut{}, err
	}
	if c.Script != "" {
		if err := plantSiblings(root, c.Script, names); err != nil {
			return ChildOut{}, err
		}
	}
	cfg := c.Cfg
	res := child.Spawn("c17", ChildArgs{Cfg: cfg, Names: names, Script: c.Script, Reinit: c.Reinit}, child.Opts{Dir: filepath.Join(root, "cwd"), Timeout: 0, RlimitFsize: -1})
	if res.Err != nil || res.Exit != 0 || res.TimedOut {
		return ChildOut{}, fmt.Errorf("child %s: %v stderr=%s", res, res.Err, tailStr(res.Stderr))
	}
	var out ChildOut
	if err := json.Unmarshal(res.Stdout, &out); err != nil {
		return out, fmt.Errorf("child output: %v: %s", err, tailStr(res.Stdout))
	}
	return out, nil
}

func tailStr(b []byte) string {
	if len(b) > 600 {
		b = b[len(b)-600:]
	}
	return string(b)
}

// context describes the process state of a case, for the failure message.
func (c Case) context() string {
	s := ""
	if c.Script != "" {
		s += fmt.Sprintf(" [script being run: %q]", c.Script)
	}
	for _, r := range c.Reinit {
		if r.Nil {
			s += fmt.Sprintf(" [Init(nil) again before name #%d]", r.At)
		} else {
			s += fmt.Sprintf(" [Init(%+v) again before name #%d]", r.Cfg, r.At)
		}
	}
	return s
}

func check(c Case) error {
	if s := c.context(); s != "" {
		if err := check1(c); err != nil {
			return fmt.Errorf("%v%s", err, s)
		}
		return nil
	}
	return check1(c)
}

func check1(c Case) error {
	out, err := runCase(c, c.Names)
	if err != nil {
		return fmt.Errorf("harness: %v", err)
	}
	if err := judge(c.Cfg, c.Names, out); err != nil {
		return err
	}
	// acceptance depends only on the name: same names, reversed order, fresh child
	rev := make([][]byte, len(c.Names))
	for i := range c.Names {
		rev[len(rev)-1-i] = c.Names[i]
	}
	out2, err := runCase(c, rev)
	if err != nil {
		return fmt.Errorf("harness: %v", err)
	}
	if c.context() != "" {
		// with process state around the attempts, the other order puts other names after the later Init calls
		if err := judge(c.Cfg, rev, out2); err != nil {
			return fmt.Errorf("%v (names in reversed order)", err)
		}
	}
	for i := range c.Names {
		a, b := out.Results[i], out2.Results[len(rev)-1-i]
		if (a.SaveErr == "") != (b.SaveErr == "") || (a.LoadErr == "") != (b.LoadErr == "") {
			return fmt.Errorf("[%s] the outcome for name %q depends on what was requested before: first pass save=%q load=%q, reversed pass save=%q load=%q",
				c.Cfg.Name, c.Names[i], a.SaveErr, a.LoadErr, b.SaveErr, b.LoadErr)
		}
	}
	return nil
}

func nontrivial(name []byte) bool {
	for _, c := range name {
		switch c {
		case '.', '/', '\\', 0, ' ', '~', 0xff:
			return true
		}
		if c >= 0x80 {
			return true
		}
	}
	return false
}

func allNames(maxLen int) [][]byte {
	var out [][]byte
	cur := [][]byte{{}}
	out = append(out, []byte{})
	for l := 1; l <= maxLen; l++ {
		var next [][]byte
		for _, w := range cur {
			for _, c := range alphabet {
				n := append(append([]byte{}, w...), c)
				next = append(next, n)
			}
		}
		out = append(out, next...)
		cur = next
	}
	return out
}

func TestExhaustiveNames(t *testing.T) {
	maxLen := pbt.N(5, 6)
	names := allNames(maxLen)
	// with the suffix too
	n0 := len(names)
	for i := 0; i < n0; i++ {
		names = append(names, append(append([]byte{}, names[i]...), []byte(".gr")...))
	}
	const batch = 1500
	idx := 0
	for start := 0; start < len(names); start += batch {
		idx++
		if !pbt.Mine(idx) {
			continue
		}
		end := start + batch
		if end > len(names) {
			end = len(names)
		}
		for _, cfg := range []Config{cfgRestricted, cfgEmptyOnly} {
			c := Case{Cfg: cfg, Names: names[start:end]}
			if err := check(c); err != nil {
				pbt.Fail(t, "names", c, "%v", err)
			}
			nt := int64(0)
			for _, n := range c.Names {
				if nontrivial(n) {
					nt++
				}
			}
			pbt.AddExact(int64(len(c.Names)), nt, "names:"+cfg.Name)
		}
	}
	pbt.Sample("names", fmt.Sprintf("all %d names of length <= %d over %q, bare and with .gr", len(names), maxLen, alphabet))
}

func TestDisabledAndControl(t *testing.T) {
	if !pbt.Mine(0) {
		return
	}
	names := [][]byte{[]byte(""), []byte("a"), []byte("../a"), []byte("a.gr"), []byte("/tmp/x")}
	if err := check(Case{Cfg: cfgDisabled, Names: names}); err != nil {
		pbt.Fail(t, "disabled", Case{Cfg: cfgDisabled, Names: names}, "%v", err)
	}
	pbt.AddExact(int64(len(names)), 3, "names:disabled")
	// positive control: without restrictions the detector must see an escape
	ctl := [][]byte{[]byte("../escaped.gr"), []byte("sub/new.gr")}
	out, err := runChild(cfgUnrestricted, ctl)
	if err != nil {
		t.Fatalf("harness: %v", err)
	}
	if !strings.Contains(out.Results[0].TreeDelta, "created escaped.gr") || !strings.Contains(out.Results[1].TreeDelta, "created cwd/sub/new.gr") {
		t.Fatalf("harness: the detector does not see an unrestricted save outside the directory: %+v", out.Results)
	}
	if out.ExecErr != "" && strings.Contains(out.ExecErr, "identifier not found") {
		t.Fatalf("harness: exec missing in the unrestricted control")
	}
	pbt.AddExact(2, 2, "control:unrestricted-escape-detected")
}

func TestRandomNames(t *testing.T) {
	pieces := []string{"..", "/", "a", "Z9_", ".gr", ".", "\\", "\x00", " ", "~", "\xff", "ok", "sub", "inner", "outside", "cwd", "link", "/etc/passwd", "é", "%2e", "a.gr.gr", ".gr.gr", "gr", "A_b",
		// code points above U+00FF whose low byte is a letter, digit or underscore (a byte-wise check on a rune would let them pass)
		"♥", "‰", "≡", "ş", "Ł", "İ", "😀", "g", "r"}
	pbt.Check(t, 40, 1500, func(rt *rapid.T) {
		var names [][]byte
		for _, p := range pieces { // every piece alone and next to a plain letter
			names = append(names, []byte(p), []byte("a"+p), []byte(p+"b"))
		}
		for i := 0; i < 150; i++ {
			names = append(names, []byte(strings.Join(rapid.SliceOfN(rapid.SampledFrom(pieces), 0, 5).Draw(rt, "name"), "")))
		}
		// absolute paths into the scratch tree cannot be known before the child exists; relative escapes are covered
		cfg := rapid.SampledFrom([]Config{cfgRestricted, cfgEmptyOnly}).Draw(rt, "cfg")
		c := Case{Cfg: cfg, Names: names}
		if err := check(c); err != nil {
			pbt.Fail(rt, "random-names", c, "%v", err)
		}
		for _, n := range names {
			pbt.Case(nontrivial(n), cfg.Name+"|"+string(n), "random:"+cfg.Name)
		}
		pbt.Sample("random-names", fmt.Sprintf("%q", names[:6]))
	})
}

func oracle(kind string, raw json.RawMessage) error {
	var c Case
	if err := json.Unmarshal(raw, &c); err != nil {
		return err
	}
	return check(c)
}

func TestReplay(t *testing.T)   { pbt.RunReplay(t, oracle) }
func TestARegress(t *testing.T) { pbt.RunRegress(t, "C17", oracle) }
