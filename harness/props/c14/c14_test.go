// C14 — saved state loads back to the same state.
package c14

import (
	"bytes"
	"encoding/json"
	"fmt"
	"math"
	"os"
	"path/filepath"
	"regexp"
	"sort"
	"strings"
	"testing"
	"time"

	"grol.io/grol/object"
	"grol.io/grol/repl"
	"pgregory.net/rapid"
	"verif/gen"
	"verif/gv"
	"verif/known"
	"verif/pbt"
	"verif/rt"
	"verif/sess"
	"verif/val"
)

var scratch string

func TestMain(m *testing.M) {
	sess.Init() // restricted IO with load and save present
	// grol's allocation guard measures against the Go memory limit: without one, a generated `42 : b` with a huge b is
	// attempted for real (and kills this process)
	pbt.SafetyNets()
	dir, err := os.MkdirTemp("", "verif-c14-")
	if err == nil {
		scratch = dir
		_ = os.Chdir(dir) // ./.gr and save("name") live in the current directory
	}
	pbt.SetMeta(pbt.Meta{
		Property: "C14",
		Level:    "exploration",
		Rule: "global environments built by evaluating generated definitions: integers (both int64 extremes), floats (integral-valued, subnormal, huge, +-Inf, NaN, -0), strings over all bytes and with lengths around " +
			"the save limit, nested arrays and maps (keys of every type, sizes around the thresholds), named functions / func literals / lambdas whose bodies come from the whole statement grammar, names in lower, upper " +
			"and mixed case; saved with State.SaveGlobals and loaded into fresh states by repl.AutoLoad (line at a time) and by load() (whole file). Oracle: one line per saved binding, each starting with " +
			"<name>= or func <name>(, sorted; no load error; every data global has the same type and a structurally identical value (NaN = NaN, -0 distinguished from 0); every function has the same printed form and " +
			"gives the same output / result / error as the original on generated argument tuples; saving the reloaded state gives the same bytes; with a length limit a longer value is absent, not truncated, and all others are present; " +
			"repeated save / load / mutate cycles. Non-trivial: state with >= 1 float or non-ASCII / control string or function with >= 2 statements; distinct by the saved bytes.",
		Assumptions: []string{
			"function bodies in the class of known finding K-C02-1 (right operand of the same precedence loses its parentheses when printed) are excluded by construction: the compact printer used by save changes such trees",
			"functions are compared by printed form and by behaviour on 3 argument tuples, not on all arguments",
		},
	})
	code := m.Run()
	pbt.Flush()
	if scratch != "" {
		_ = os.RemoveAll(scratch)
	}
	os.Exit(code)
}

type Case struct {
	Defs        []string `json:"defs"` // inputs that build the state
	MaxValueLen int      `json:"max_value_len"`
	Calls       []string `json:"calls"` // expressions evaluated on the original and on the reloaded state
}

// the deadline is a safety net for generated bodies that loop; loading gets more (a busy machine must not turn a
// 200 KB binding into a failure)
var cfg = sess.Config{MaxDepth: 500, MaxDuration: 400 * time.Millisecond}

func userGlobals(s *sess.S) map[string]object.Object {
	out := map[string]object.Object{}
	for _, line := range strings.Split(s.Globals(), "\n") {
		if line == "" {
			continue
		}
		name := line
		if strings.HasPrefix(line, "func ") {
			name = line[5:strings.IndexByte(line, '(')]
		} else if i := strings.IndexByte(line, '='); i >= 0 {
			name = line[:i]
		}
		o, err := s.Obj(name)
		if err == nil {
			out[name] = o
		}
	}
	return out
}

var lineStart = regexp.MustCompile(`^([A-Za-z_][A-Za-z0-9_]*=|func [A-Za-z_][A-Za-z0-9_]*\()`)

func sameValue(a, b object.Object) error {
	if a.Type() != b.Type() {
		return fmt.Errorf("type %s became %s (%s -> %s)", a.Type(), b.Type(), a.Inspect(), b.Inspect())
	}
	if a.Type() == object.FUNC || a.Type() == object.EXTENSION {
		if a.Inspect() != b.Inspect() {
			return fmt.Errorf("function text differs: %s -> %s", a.Inspect(), b.Inspect())
		}
		return nil
	}
	va, ea := gv.FromObject(a)
	vb, eb := gv.FromObject(b)
	if ea != nil || eb != nil {
		if a.Inspect() != b.Inspect() {
			return fmt.Errorf("%s -> %s", a.Inspect(), b.Inspect())
		}
		return nil
	}
	if !val.Identical(va, vb) {
		return fmt.Errorf("value %s (%s) became %s (%s)", va.Show(), a.Inspect(), vb.Show(), b.Inspect())
	}
	return nil
}

func check(c Case) (saved []byte, err error) {
	pbt.InFlight("inflight", c)
	_ = os.Remove(".gr")
	_ = os.Remove("vsave.gr")
	orig := sess.New(cfg)
	orig.St.MaxValueLen = c.MaxValueLen
	for _, d := range c.Defs {
		if r := orig.Run(d); r.Failed() {
			return nil, fmt.Errorf("harness: definition %q failed: %v", d, r.Errs)
		}
	}
	var buf bytes.Buffer
	n, serr := orig.St.SaveGlobals(&buf)
	if serr != nil {
		return nil, fmt.Errorf("SaveGlobals failed: %v", serr)
	}
	saved = buf.Bytes()
	// (1) shape of the file
	lines := strings.Split(strings.TrimSuffix(string(saved), "\n"), "\n")
	if len(saved) == 0 {
		lines = nil
	}
	if bytes.Count(saved, []byte("\n")) != n || len(lines) != n {
		return saved, fmt.Errorf("SaveGlobals reports %d bindings but wrote %d newline(s) / %d line(s): a binding does not occupy exactly one line\n%s", n, bytes.Count(saved, []byte("\n")), len(lines), trunc(saved))
	}
	var names []string
	for _, l := range lines {
		m := lineStart.FindString(l)
		if m == "" {
			return saved, fmt.Errorf("saved line does not start with <name>= or func <name>(: %q", trunc([]byte(l)))
		}
		names = append(names, strings.TrimSuffix(strings.TrimSuffix(strings.TrimPrefix(m, "func "), "("), "="))
	}
	if !sort.StringsAreSorted(names) {
		return saved, fmt.Errorf("saved bindings are not sorted by name: %v", names)
	}
	og := userGlobals(orig)
	// (4) length limit: longer values absent, all others present
	present := map[string]bool{}
	for _, nm := range names {
		present[nm] = true
	}
	for nm, o := range og {
		f, isF := o.(object.Function)
		tooLong := c.MaxValueLen > 0 && len(o.Inspect()) > c.MaxValueLen && !(isF && f.Name != nil)
		if tooLong && present[nm] {
			return saved, fmt.Errorf("%s is longer than the limit %d (%d) but was saved", nm, c.MaxValueLen, len(o.Inspect()))
		}
		if !tooLong && !present[nm] && !(object.Constant(nm) && (nm == "PI" || nm == "E")) {
			return saved, fmt.Errorf("%s (%d bytes, limit %d) is missing from the saved file", nm, len(o.Inspect()), c.MaxValueLen)
		}
	}
	if present["PI"] || present["E"] {
		return saved, fmt.Errorf("built-in constants were saved: %v", names)
	}
	// the original's behaviour on the calls, evaluated once (the bodies may have side effects on globals)
	// ... on a twin of the original session, so that the original's values stay what was saved
	var origCalls []sess.Res
	if c.MaxValueLen == 0 && len(c.Calls) > 0 {
		twin := sess.New(cfg)
		for _, d := range c.Defs {
			twin.Run(d)
		}
		for _, call := range c.Calls {
			origCalls = append(origCalls, twin.Run(call))
		}
	}
	// (2) load back, both ways
	if err := os.WriteFile(".gr", saved, 0o644); err != nil {
		return saved, fmt.Errorf("harness: %v", err)
	}
	_ = os.WriteFile("vsave.gr", saved, 0o644)
	for _, how := range []string{"autoload", "load()"} {
		fresh := sess.New(cfg)
		switch how {
		case "autoload":
			if lerr := repl.AutoLoad(fresh.St, repl.Options{AutoLoad: true, MaxValueLen: c.MaxValueLen}); lerr != nil {
				if strings.Contains(lerr.Error(), "context deadline exceeded") {
					pbt.Label("load-deadline-inconclusive")
					return saved, nil
				}
				return saved, fmt.Errorf("auto-load (line at a time) of the saved file failed: %v\nfile:\n%s", lerr, trunc(saved))
			}
		default:
			if r := fresh.RunWith(`load("vsave")`, 5*time.Second); r.Failed() {
				if sess.TimedOut(r) || strings.Contains(strings.Join(r.Errs, " "), "context deadline exceeded") {
					pbt.Label("load-deadline-inconclusive")
					return saved, nil
				}
				return saved, fmt.Errorf("load() of the saved file failed: %v\nfile:\n%s", r.Errs, trunc(saved))
			}
		}
		ng := userGlobals(fresh)
		for _, nm := range names {
			a, b := og[nm], ng[nm]
			if a == nil {
				continue
			}
			if b == nil {
				return saved, fmt.Errorf("[%s] %s is not defined after loading\nline: %s", how, nm, lineOf(lines, nm))
			}
			if verr := sameValue(a, b); verr != nil {
				return saved, fmt.Errorf("[%s] %s: %v\nline: %s", how, nm, verr, lineOf(lines, nm))
			}
		}
		// (3) saving the reloaded state gives the same bytes
		var again bytes.Buffer
		fresh.St.MaxValueLen = c.MaxValueLen
		if _, err := fresh.St.SaveGlobals(&again); err != nil || !bytes.Equal(again.Bytes(), saved) {
			return saved, fmt.Errorf("[%s] saving the reloaded state gives a different file (%v):\nfirst:  %s\nsecond: %s", how, err, trunc(saved), trunc(again.Bytes()))
		}
		// behaviour of functions (with a length limit some globals are skipped on purpose: nothing to compare)
		for ci, call := range c.Calls {
			if c.MaxValueLen > 0 {
				break
			}
			ra, rb := origCalls[ci], fresh.Run(call)
			if sess.TimedOut(ra) || sess.TimedOut(rb) || sess.MemoryRefused(ra) || sess.MemoryRefused(rb) || strings.Contains(ra.Out+rb.Out, "context deadline exceeded") || strings.Contains(ra.Out+rb.Out, "context canceled") {
				break // a deadline fired (possibly inside catch()): everything after it depends on timing
			}
			if ra.Out != rb.Out || ra.Echo != rb.Echo || ra.Failed() != rb.Failed() {
				return saved, fmt.Errorf("[%s] %s behaves differently after loading: output %q echo %q failed=%v, originally output %q echo %q failed=%v\nfile:\n%s",
					how, call, rb.Out, rb.Echo, rb.Failed(), ra.Out, ra.Echo, ra.Failed(), trunc(saved))
			}
		}
	}
	return saved, nil
}

func lineOf(lines []string, name string) string {
	for _, l := range lines {
		if strings.HasPrefix(l, name+"=") || strings.HasPrefix(l, "func "+name+"(") {
			return string(trunc([]byte(l)))
		}
	}
	return "?"
}

func trunc(b []byte) []byte {
	if len(b) > 700 {
		return append(append([]byte{}, b[:700]...), "..."...)
	}
	return b
}

// ---- generators ----------------------------------------------------------------------------------------------------------

var specialFloats = []float64{0, math.Copysign(0, -1), 1, -1, 2.5, 1e15, 123456789, 9007199254740993, 9223372036854775808, -9223372036854775808, 1e300, 5e-324, 2.2250738585072014e-308,
	math.Inf(1), math.Inf(-1), math.NaN(), 0.1, 1.0 / 3, 1e21, 1e-7}
var specialInts = []int64{0, 1, -1, math.MaxInt64, math.MinInt64, math.MinInt64 + 1, 1 << 53, 4000, -4000}

func genValue(t *rapid.T, depth int) val.V {
	k := rapid.IntRange(0, 11).Draw(t, "kind")
	if depth <= 0 && k >= 8 {
		k = rapid.IntRange(0, 7).Draw(t, "leaf")
	}
	switch k {
	case 0:
		return val.I(rapid.SampledFrom(specialInts).Draw(t, "si"))
	case 1:
		return val.I(rapid.Int64().Draw(t, "i"))
	case 2, 3:
		return val.F(rapid.SampledFrom(specialFloats).Draw(t, "sf"))
	case 4:
		return val.F(rapid.Float64().Draw(t, "f"))
	case 5:
		return val.S(string(rapid.SliceOfN(rapid.Byte(), 0, 12).Draw(t, "bytes")))
	case 6:
		return val.S(rapid.SampledFrom([]string{"", "plain", "two\nlines", "tab\t", "quote\"", "back\\slash", "\x00\x01\x07\x08\x0b\x0c\x1b\x7f", "é😀 ", "\xff\xfe", "a=b", "func f(){}", "// not a comment", "`"}).Draw(t, "str"))
	case 7:
		switch rapid.IntRange(0, 2).Draw(t, "bn") {
		case 0:
			return val.B(rapid.Bool().Draw(t, "b"))
		default:
			return val.N()
		}
	case 8, 9:
		n := rapid.SampledFrom([]int{0, 1, 2, 7, 8, 9, 12}).Draw(t, "alen")
		els := make([]val.V, n)
		for i := range els {
			els[i] = genValue(t, depth-1)
		}
		return val.A(els...)
	default:
		n := rapid.SampledFrom([]int{0, 1, 3, 4, 5, 7}).Draw(t, "mlen")
		m := val.M()
		for i := 0; i < n; i++ {
			m = m.Set(genKey(t, depth-1), genValue(t, depth-1))
		}
		return m
	}
}

func genKey(t *rapid.T, depth int) val.V {
	v := genValue(t, depth)
	if v.K == val.Float && math.IsNaN(v.F) {
		return val.S("nan-key")
	}
	return v
}

var namePool = []string{"a", "b", "zeta", "x1", "camelCase", "snake_case", "UPPER", "MAX_LEN", "K9", "Mixed_Case9", "_under", "i", "fn", "data",
	// names every session starts with (library functions written in grol, aliases): rebinding them is an ordinary binding
	"str", "keys", "abs", "log2", "printf", "null", "Inf", "NaN"}

var preSeeded = map[string]bool{"str": true, "keys": true, "abs": true, "log2": true, "printf": true, "null": true, "Inf": true, "NaN": true}

// K-C14-1: Inf and NaN are ordinary names, and the written form of the special floats (+Inf is + applied to Inf).
const kSpecialFloatNames = "K-C14-1"

// K-C14-2: comments inside a function body are not part of its saved form; rest(<function>) can see them.
const kCommentIntrospection = "K-C14-2"

func nontrivialValue(v val.V) bool {
	switch v.K {
	case val.Float:
		return true
	case val.Str:
		for i := 0; i < len(v.S); i++ {
			if v.S[i] < 0x20 || v.S[i] >= 0x7f {
				return true
			}
		}
	case val.Arr:
		for _, e := range v.A {
			if nontrivialValue(e) {
				return true
			}
		}
	case val.Map:
		for _, p := range v.M {
			if nontrivialValue(p.K) || nontrivialValue(p.V) {
				return true
			}
		}
	}
	return false
}

func genFunction(t *rapid.T, i int) (def string, calls []string, multi bool, excluded string) {
	cfgS := gen.SynCfg{MaxDepth: rapid.IntRange(1, 3).Draw(t, "fdepth"), MaxStmts: 3, Comments: rapid.Bool().Draw(t, "comments"), NoLog: true, NoQuote: true}
	body := gen.SynBlock(t, cfgS, cfgS.MaxDepth)
	if len(body) == 0 {
		body = []*gen.Node{gen.Infix("+", gen.Id("a"), gen.IntLit("1"))}
	}
	if known.Classes(body)[known.RightAssocParens] {
		excluded = known.RightAssocParens
		body = known.Repair(body)
	}
	if pbt.KnownOpen(kCommentIntrospection) {
		// K-C14-2: first() / rest() of a function literal list its parameters / statements, comments included, and
		// the saved form of a function has no comments: with both in one body, look at something else.
		hasComment, lookers := false, []*gen.Node{}
		gen.WalkAll(body, func(n *gen.Node) {
			if n.K == gen.KComment {
				hasComment = true
			}
			if n.K == gen.KBuiltin && (n.S == "first" || n.S == "rest") {
				lookers = append(lookers, n)
			}
		})
		if hasComment && len(lookers) > 0 {
			excluded = kCommentIntrospection
			for _, n := range lookers {
				n.S = "len"
			}
		}
	}
	params := []string{"a", "b", "x"}[:rapid.IntRange(0, 3).Draw(t, "np")]
	name := fmt.Sprintf("fun%d", i)
	var fn *gen.Node
	switch rapid.IntRange(0, 2).Draw(t, "form") {
	case 0:
		fn = gen.Func(name, params, false, body...)
		def = gen.Print([]*gen.Node{fn}, gen.PrintOptions{})
	case 1:
		def = gen.Print([]*gen.Node{gen.Assign(name, gen.Func("", params, false, body...))}, gen.PrintOptions{})
	default:
		def = gen.Print([]*gen.Node{gen.Assign(name, gen.LambdaBlock(params, false, body...))}, gen.PrintOptions{})
	}
	argPool := []string{"1", "0", `"s"`, "[1, 2, 3]", `{"k": 1}`, "2.5", "nil", "true"}
	for k := 0; k < 3; k++ {
		args := make([]string, len(params))
		for j := range args {
			args[j] = rapid.SampledFrom(argPool).Draw(t, "arg")
		}
		calls = append(calls, fmt.Sprintf("println(catch(%s(%s)))", name, strings.Join(args, ", ")))
	}
	nst := 0
	for _, s := range body {
		if s.K != gen.KComment {
			nst++
		}
	}
	return def, calls, nst >= 2, excluded
}

func TestStates(t *testing.T) {
	pbt.Check(t, 2000, 200000, func(rt *rapid.T) {
		var c Case
		nt := false
		// with a length limit a binding that is skipped when saving reverts, after a reload, to what every session
		// starts with under that name: the names sessions start with are only rebound without a limit
		limited := rapid.IntRange(0, 3).Draw(rt, "limit") == 0
		n := rapid.IntRange(1, 8).Draw(rt, "nvals")
		used := map[string]bool{}
		for i := 0; i < n; i++ {
			name := rapid.SampledFrom(namePool).Draw(rt, "name")
			if used[name] || (limited && preSeeded[name]) {
				continue
			}
			if (name == "Inf" || name == "NaN") && pbt.KnownOpen(kSpecialFloatNames) {
				pbt.Excluded(kSpecialFloatNames)
				continue
			}
			if preSeeded[name] {
				pbt.Label("state:rebinds-a-name-every-session-starts-with")
			}
			used[name] = true
			v := genValue(rt, 2)
			nt = nt || nontrivialValue(v)
			c.Defs = append(c.Defs, name+" = "+v.Src())
		}
		// prelude symbols the generated function bodies refer to, so that some calls get somewhere
		c.Defs = append(c.Defs, "c = 3", "y = [1, 2]", "n = nil", "foo = q => q", "N = 5", "AB = 2", "m = {\"k\": 1}", "arr = [1, 2, 3]", "func f(p) { p }", "func g(p, q) { p }", "func helper(..) { 0 }")
		nf := rapid.IntRange(0, 3).Draw(rt, "nfuncs")
		for i := 0; i < nf; i++ {
			def, calls, multi, ex := genFunction(rt, i)
			if ex != "" {
				pbt.Excluded(ex)
			}
			c.Defs = append(c.Defs, def)
			c.Calls = append(c.Calls, calls...)
			nt = nt || multi
		}
		if limited {
			c.MaxValueLen = rapid.SampledFrom([]int{1, 10, 40, 200, 4000}).Draw(rt, "maxlen")
			if rapid.Bool().Draw(rt, "around") { // a string right at the limit
				k := c.MaxValueLen
				c.Defs = append(c.Defs, fmt.Sprintf("edge1 = \"a\" * %d", max(0, k-2)), fmt.Sprintf("edge2 = \"a\" * %d", max(0, k-1)), fmt.Sprintf("edge3 = \"a\" * %d", k))
			}
		}
		saved, err := check(c)
		if err != nil {
			pbt.Fail(rt, "state", c, "%v", err)
		}
		lbl := "state:plain"
		if nt {
			lbl = "state:float/special-string/multi-statement-function"
		}
		if c.MaxValueLen > 0 {
			pbt.Label("state:with-length-limit")
		}
		pbt.Case(nt, string(saved), lbl)
		pbt.Sample("state", c.Defs)
	})
}

// repeated save -> load -> mutate -> save cycles through the language's own save() / load()
// bindings whose saved line is long: around the length limit (4000 by default), around 64 KiB (a common line
// buffer size) and well beyond, as a named function (saved whatever its length), an anonymous one and a string,
// with other bindings sorted before and after.
func TestLongBindings(t *testing.T) {
	idx := 0
	for _, size := range []int{3000, 4500, 5200, 20000, 65000, 66000, 200000} {
		for _, limit := range []int{0, 4000} {
			for _, kind := range []string{"named-function", "lambda", "string", "array"} {
				idx++
				if !pbt.Mine(idx) {
					continue
				}
				var stmts []string
				for i := 0; len(strings.Join(stmts, "; ")) < size; i++ {
					stmts = append(stmts, fmt.Sprintf("x%d = %d", i, i))
				}
				body := strings.Join(stmts, "; ")
				var def string
				switch kind {
				case "named-function":
					def = "func lookup() { " + body + "; 7 }"
				case "lambda":
					def = "lookup = () => { " + body + "; 7 }"
				case "string":
					def = "lookup = \"" + strings.Repeat("s", size) + "\""
				default:
					def = "lookup = [" + strings.Repeat("1, ", size/3) + "1]"
				}
				c := Case{Defs: []string{"aa = 1", def, "mid = [1, 2]", "zz = \"last\"", "func zzf(a) { a + 1 }"}, MaxValueLen: limit,
					Calls: []string{"println(aa, mid, zz, zzf(1))", "println(len(str(lookup)))"}}
				if _, err := check(c); err != nil {
					short := c
					short.Defs = append([]string{}, c.Defs...)
					pbt.Fail(t, "long", short, "%s of about %d bytes, length limit %d: %.1500s", kind, size, limit, err.Error())
				}
				pbt.CaseExact(true, "long-binding:"+kind)
			}
		}
	}
}

// every (operand position x operand construct) pair as the body of a saved function: the function must compute
// the same after a reload (its saved text is the compact printed form)
func TestPairBodies(t *testing.T) {
	idx := 0
	for _, ctx := range rt.Contexts() {
		for _, ch := range rt.Children() {
			idx++
			if !pbt.Mine(idx) {
				continue
			}
			body := []*gen.Node{ctx.Wrap(ch.Make())}
			if cl := known.Classes(body); cl[known.RightAssocParens] {
				pbt.Excluded(known.RightAssocParens)
				continue
			}
			fn := gen.Func("pb", []string{"a", "b", "c", "d", "y", "z"}, false, body...)
			c := Case{Defs: []string{"f = q => q * 2", gen.Print([]*gen.Node{fn}, gen.PrintOptions{})},
				Calls: []string{"println(catch(pb(10, 1, 2, 3, 4, 5)))", "println(catch(pb([1, 2, 3], 1, 0, 2, 0, 1)))", "println(catch(pb({\"k\": 1}, \"k\", true, false, 1, 2)))"}}
			if _, err := check(c); err != nil {
				pbt.Fail(t, "state", c, "function body with %s in %s: %v", ch.Name, ctx.Name, err)
			}
			pbt.CaseExact(true, "pair-body")
			// the same body as the single expression of a lambda (the saved form is name=(params)=>body, where a body
			// that starts with a map literal must keep its braces apart from a block's)
			lam := gen.Assign("pl", gen.Lambda([]string{"a", "b", "c", "d", "y", "z"}, false, ctx.Wrap(ch.Make())))
			cl := Case{Defs: []string{"f = q => q * 2", gen.Print([]*gen.Node{lam}, gen.PrintOptions{})},
				Calls: []string{"println(catch(pl(10, 1, 2, 3, 4, 5)))", "println(catch(pl([1, 2, 3], 1, 0, 2, 0, 1)))", "println(catch(pl({\"k\": 1}, \"k\", true, false, 1, 2)))"}}
			if _, err := check(cl); err != nil {
				pbt.Fail(t, "state", cl, "lambda body with %s in %s: %v", ch.Name, ctx.Name, err)
			}
			pbt.CaseExact(true, "pair-lambda-body")
		}
	}
	// bodies that start with a map literal, in every position a printer has to look through to see it
	starts := []string{`({"r": 1, "g": 2})[k]`, `({"r": 1, "g": 2}).r`, `({"r": 1})[k] + 1`, `({"r": [1, 2]}).r[0]`, `({"r": x => x}).r(k)`, `({"r": 1})`, `({"r": 1}) + {"g": k}`, `({"r": 1}).r == k`,
		`({1: 2})[1] * 3 - k`, `({"r": {"g": 7}}).r.g`, `({})`, `({"r": 1})[k] || true`, `[{"r": 1}[k]]`, `-({"r": 1}).r`}
	for i, b := range starts {
		if !pbt.Mine(i) {
			continue
		}
		for _, form := range []string{"pm = k => %s", "pm = (k) => %s", "pm = (k, j) => %s", "pm = func(k) { %s }", "func pm(k) { %s }", "pm = k => { %s }", "pm = k => j => %s"} {
			c := Case{Defs: []string{fmt.Sprintf(form, b)}, Calls: []string{`println(catch(pm("r")))`, `println(catch(pm("g", 1)))`, `println(catch(pm(1)(2)))`}}
			if _, err := check(c); err != nil {
				pbt.Fail(t, "state", c, "body starting with a map literal (%s): %v", b, err)
			}
			pbt.CaseExact(true, "map-start-body")
		}
	}
}

func TestCycles(t *testing.T) {
	pbt.Check(t, 300, 30000, func(rt *rapid.T) {
		_ = os.Remove(filepath.Join(scratch, "cyc.gr"))
		cur := sess.New(cfg)
		model := map[string]val.V{}
		var hist []string
		for round := 0; round < rapid.IntRange(2, 5).Draw(rt, "rounds"); round++ {
			for i := 0; i < rapid.IntRange(1, 4).Draw(rt, "muts"); i++ {
				name := rapid.SampledFrom(namePool[:8]).Draw(rt, "name")
				if rapid.IntRange(0, 4).Draw(rt, "del") == 0 && len(model) > 0 {
					src := "del(" + name + ")"
					hist = append(hist, src)
					cur.Run(src)
					delete(model, name)
					continue
				}
				v := genValue(rt, 1)
				src := name + " = " + v.Src()
				if object.Constant(name) {
					if _, bound := model[name]; bound {
						src = "del(" + name + "); " + src
					}
				}
				hist = append(hist, src)
				if r := cur.RunWith(src, 5*time.Second); r.Failed() {
					if sess.TimedOut(r) {
						rt.Skip("deadline on a busy machine")
					}
					pbt.Fail(rt, "cycle", hist, "harness: %q failed: %v", src, r.Errs)
				}
				model[name] = v
			}
			hist = append(hist, `save("cyc")`)
			if r := cur.RunWith(`save("cyc")`, 5*time.Second); r.Failed() {
				if sess.TimedOut(r) {
					rt.Skip("deadline on a busy machine")
				}
				pbt.Fail(rt, "cycle", hist, "save failed: %v", r.Errs)
			}
			next := sess.New(cfg)
			hist = append(hist, `<fresh session> load("cyc")`)
			if r := next.RunWith(`load("cyc")`, 5*time.Second); r.Failed() {
				if sess.TimedOut(r) {
					rt.Skip("deadline on a busy machine")
				}
				pbt.Fail(rt, "cycle", hist, "load failed: %v\nhistory:\n%s", r.Errs, strings.Join(hist, "\n"))
			}
			for name, want := range model {
				o, err := next.Obj(name)
				if err != nil {
					pbt.Fail(rt, "cycle", hist, "%s lost after save/load: %v\nhistory:\n%s", name, err, strings.Join(hist, "\n"))
				}
				got, err := gv.FromObject(o)
				if err != nil || !val.Identical(got, want) {
					pbt.Fail(rt, "cycle", hist, "%s = %s after save/load, expected %s\nhistory:\n%s", name, got.Show(), want.Show(), strings.Join(hist, "\n"))
				}
			}
			cur = next
		}
		pbt.Case(true, strings.Join(hist, "\n"), "cycle")
		pbt.Sample("cycle", hist)
	})
}

func oracle(kind string, raw json.RawMessage) error {
	if kind == "cycle" {
		return fmt.Errorf("cycle cases are replayed by re-running the history stored in the message (statements only)")
	}
	var c Case
	if err := json.Unmarshal(raw, &c); err != nil {
		return err
	}
	_, err := check(c)
	return err
}

func TestReplay(t *testing.T)   { pbt.RunReplay(t, oracle) }
func TestARegress(t *testing.T) { pbt.RunRegress(t, "C14", oracle) }
