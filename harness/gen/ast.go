// Package gen holds the harness's own syntax tree for grol programs, its own printer (written from
// the documented grammar and precedence, not imported from /repo) and random program generators.
// Because every text is printed from a tree we own, the intended tree of every generated program is
// known without asking grol's parser.
package gen

import (
	"fmt"
	"strconv"
	"strings"
)

type Kind int

const (
	KInt Kind = iota
	KFloat
	KStr
	KBool
	KIdent
	KPrefix
	KPostfix
	KInfix
	KIndex
	KDot
	KSlice
	KCall
	KBuiltin
	KArray
	KMap
	KFunc   // func [name](params) { body }
	KLambda // params => expr   or   params => { body }
	KIf
	KFor
	KCtl
	KReturn
	KComment
	KMacro
)

type Node struct {
	K        Kind
	S        string  // literal text, operator, identifier, builtin name, comment text, field name (KDot)
	Kids     []*Node // operands / arguments / elements / (key,value)*
	Params   []string
	Variadic bool    // last parameter is ".."
	Body     []*Node // statements of a function / loop / then-branch
	Else     []*Node // else branch statements
	HasElse  bool
	ElseIf   *Node // else if ...
	Block    bool  // KLambda: body written as a block
	Raw      bool  // KStr: written with back quotes
}

// ---- constructors ---------------------------------------------------------------------------------

func Int(i int64) *Node {
	if i < 0 {
		if i == -9223372036854775808 {
			return Infix("-", Prefix("-", &Node{K: KInt, S: "9223372036854775807"}), &Node{K: KInt, S: "1"})
		}
		return Prefix("-", &Node{K: KInt, S: strconv.FormatInt(-i, 10)})
	}
	return &Node{K: KInt, S: strconv.FormatInt(i, 10)}
}
func IntLit(text string) *Node   { return &Node{K: KInt, S: text} }
func FloatLit(text string) *Node { return &Node{K: KFloat, S: text} }
func Str(s string) *Node         { return &Node{K: KStr, S: s} }
func Bool(b bool) *Node          { return &Node{K: KBool, S: strconv.FormatBool(b)} }
func Id(name string) *Node       { return &Node{K: KIdent, S: name} }
func Nil() *Node                 { return Id("nil") }
func Prefix(op string, x *Node) *Node {
	return &Node{K: KPrefix, S: op, Kids: []*Node{x}}
}
func Postfix(op string, id string) *Node { return &Node{K: KPostfix, S: op, Kids: []*Node{Id(id)}} }
func Infix(op string, l, r *Node) *Node  { return &Node{K: KInfix, S: op, Kids: []*Node{l, r}} }
func Assign(name string, v *Node) *Node  { return Infix("=", Id(name), v) }
func Define(name string, v *Node) *Node  { return Infix(":=", Id(name), v) }
func Index(t, i *Node) *Node             { return &Node{K: KIndex, Kids: []*Node{t, i}} }
func Dot(t *Node, field string) *Node    { return &Node{K: KDot, S: field, Kids: []*Node{t}} }
func Slice(t, l, r *Node) *Node          { return &Node{K: KSlice, Kids: []*Node{t, l, r}} }
func Call(f *Node, args ...*Node) *Node  { return &Node{K: KCall, Kids: append([]*Node{f}, args...)} }
func Builtin(name string, args ...*Node) *Node {
	return &Node{K: KBuiltin, S: name, Kids: args}
}
func Array(els ...*Node) *Node { return &Node{K: KArray, Kids: els} }
func Map(kvs ...*Node) *Node   { return &Node{K: KMap, Kids: kvs} }
func Func(name string, params []string, variadic bool, body ...*Node) *Node {
	return &Node{K: KFunc, S: name, Params: params, Variadic: variadic, Body: body}
}
func Lambda(params []string, variadic bool, expr *Node) *Node {
	return &Node{K: KLambda, Params: params, Variadic: variadic, Body: []*Node{expr}}
}
func LambdaBlock(params []string, variadic bool, body ...*Node) *Node {
	return &Node{K: KLambda, Params: params, Variadic: variadic, Body: body, Block: true}
}
func If(cond *Node, then []*Node) *Node { return &Node{K: KIf, Kids: []*Node{cond}, Body: then} }
func IfElse(cond *Node, then, els []*Node) *Node {
	return &Node{K: KIf, Kids: []*Node{cond}, Body: then, Else: els, HasElse: true}
}
func For(cond *Node, body ...*Node) *Node { return &Node{K: KFor, Kids: []*Node{cond}, Body: body} }
func Break() *Node                        { return &Node{K: KCtl, S: "break"} }
func Continue() *Node                     { return &Node{K: KCtl, S: "continue"} }
func Return(v *Node) *Node {
	if v == nil {
		return &Node{K: KReturn}
	}
	return &Node{K: KReturn, Kids: []*Node{v}}
}
func Comment(text string) *Node   { return &Node{K: KComment, S: text} }
func Println(args ...*Node) *Node { return Builtin("println", args...) }

// Clone makes a deep copy.
func (n *Node) Clone() *Node {
	if n == nil {
		return nil
	}
	c := *n
	c.Kids = cloneList(n.Kids)
	c.Body = cloneList(n.Body)
	c.Else = cloneList(n.Else)
	c.ElseIf = n.ElseIf.Clone()
	c.Params = append([]string(nil), n.Params...)
	return &c
}

func cloneList(l []*Node) []*Node {
	if l == nil {
		return nil
	}
	out := make([]*Node, len(l))
	for i, x := range l {
		out[i] = x.Clone()
	}
	return out
}

// Walk visits every node (pre-order).
func Walk(n *Node, f func(*Node)) {
	if n == nil {
		return
	}
	f(n)
	for _, k := range n.Kids {
		Walk(k, f)
	}
	for _, k := range n.Body {
		Walk(k, f)
	}
	for _, k := range n.Else {
		Walk(k, f)
	}
	Walk(n.ElseIf, f)
}

func WalkAll(stmts []*Node, f func(*Node)) {
	for _, s := range stmts {
		Walk(s, f)
	}
}

// Size counts nodes.
func Size(stmts []*Node) int {
	n := 0
	WalkAll(stmts, func(*Node) { n++ })
	return n
}

// ---- the intended tree, in the format of package dump ----------------------------------------------------

var tokName = map[string]string{
	"=": "ASSIGN", ":=": "DEFINE", "+": "PLUS", "-": "MINUS", "!": "BANG", "*": "ASTERISK", "/": "SLASH", "%": "PERCENT",
	"<": "LT", ">": "GT", "&": "BITAND", "|": "BITOR", "^": "BITXOR", "~": "BITNOT", ":": "COLON", ".": "DOT", "[": "LBRACKET",
	"<=": "LTEQ", ">=": "GTEQ", "==": "EQ", "!=": "NOTEQ", "++": "INCR", "--": "DECR", "||": "OR", "&&": "AND",
	"<<": "LEFTSHIFT", ">>": "RIGHTSHIFT", "=>": "LAMBDA", "..": "DOTDOT",
}

func tk(op string) string { return tokName[op] + ":" + strconv.Quote(op) }

// Expect renders the tree the parser is expected to build for the program, as dump.Dump would print it.
func Expect(stmts []*Node, dropComments bool) string {
	var sb strings.Builder
	expectBlock(&sb, stmts, dropComments)
	return sb.String()
}

func expectBlock(sb *strings.Builder, stmts []*Node, dc bool) {
	sb.WriteString("(block")
	for _, s := range stmts {
		if dc && s.K == KComment {
			continue
		}
		sb.WriteByte(' ')
		expectNode(sb, s, dc)
	}
	sb.WriteString(")")
}

func expectList(sb *strings.Builder, name string, l []*Node, dc bool) {
	sb.WriteString(" (" + name)
	for _, x := range l {
		sb.WriteByte(' ')
		expectNode(sb, x, dc)
	}
	sb.WriteString(")")
}

func expectParams(sb *strings.Builder, params []string) {
	sb.WriteString(" (params")
	for _, p := range params {
		if p == ".." {
			sb.WriteString(" (id DOTDOT:\"..\")")
		} else {
			sb.WriteString(" (id IDENT:" + strconv.Quote(p) + ")")
		}
	}
	sb.WriteString(")")
}

func expectNode(sb *strings.Builder, n *Node, dc bool) {
	switch n.K {
	case KInt:
		v, err := strconv.ParseInt(n.S, 0, 64)
		if err != nil {
			f, _ := strconv.ParseFloat(n.S, 64)
			sb.WriteString("(float INT:" + strconv.Quote(n.S) + " " + strconv.FormatFloat(f, 'g', -1, 64) + ")")
			return
		}
		sb.WriteString("(int INT:" + strconv.Quote(n.S) + " " + strconv.FormatInt(v, 10) + ")")
	case KFloat:
		f, _ := strconv.ParseFloat(n.S, 64)
		sb.WriteString("(float FLOAT:" + strconv.Quote(n.S) + " " + strconv.FormatFloat(f, 'g', -1, 64) + ")")
	case KStr:
		sb.WriteString("(str STRING:" + strconv.Quote(n.S) + ")")
	case KBool:
		sb.WriteString("(bool " + n.S + ")")
	case KIdent:
		if n.S == ".." {
			sb.WriteString("(id DOTDOT:\"..\")")
		} else {
			sb.WriteString("(id IDENT:" + strconv.Quote(n.S) + ")")
		}
	case KPrefix:
		sb.WriteString("(prefix " + tk(n.S) + " ")
		expectNode(sb, n.Kids[0], dc)
		sb.WriteString(")")
	case KPostfix:
		sb.WriteString("(postfix " + tk(n.S) + " IDENT:" + strconv.Quote(n.Kids[0].S) + ")")
	case KInfix:
		sb.WriteString("(infix " + tk(n.S) + " ")
		expectNode(sb, n.Kids[0], dc)
		sb.WriteByte(' ')
		expectNode(sb, n.Kids[1], dc)
		sb.WriteString(")")
	case KIndex:
		sb.WriteString("(index " + tk("[") + " ")
		expectNode(sb, n.Kids[0], dc)
		sb.WriteByte(' ')
		expectNode(sb, n.Kids[1], dc)
		sb.WriteString(")")
	case KDot:
		sb.WriteString("(index " + tk(".") + " ")
		expectNode(sb, n.Kids[0], dc)
		sb.WriteString(" (id IDENT:" + strconv.Quote(n.S) + "))")
	case KSlice:
		sb.WriteString("(index " + tk("[") + " ")
		expectNode(sb, n.Kids[0], dc)
		sb.WriteString(" (infix " + tk(":") + " ")
		expectNode(sb, n.Kids[1], dc)
		sb.WriteByte(' ')
		if n.Kids[2] == nil {
			sb.WriteString("<open>")
		} else {
			expectNode(sb, n.Kids[2], dc)
		}
		sb.WriteString("))")
	case KCall:
		sb.WriteString("(call ")
		expectNode(sb, n.Kids[0], dc)
		expectList(sb, "args", n.Kids[1:], dc)
		sb.WriteString(")")
	case KBuiltin:
		sb.WriteString("(builtin " + strings.ToUpper(n.S) + ":" + strconv.Quote(n.S))
		expectList(sb, "args", n.Kids, dc)
		sb.WriteString(")")
	case KArray:
		sb.WriteString("(array")
		expectList(sb, "els", n.Kids, dc)
		sb.WriteString(")")
	case KMap:
		sb.WriteString("(map")
		for i := 0; i+1 < len(n.Kids); i += 2 {
			sb.WriteString(" (pair ")
			expectNode(sb, n.Kids[i], dc)
			sb.WriteByte(' ')
			expectNode(sb, n.Kids[i+1], dc)
			sb.WriteString(")")
		}
		sb.WriteString(")")
	case KFunc, KLambda:
		sb.WriteString("(func")
		if n.K == KFunc && n.S != "" {
			sb.WriteString(" name=" + strconv.Quote(n.S))
		}
		sb.WriteString(fmt.Sprintf(" lambda=%v variadic=%v", n.K == KLambda, n.Variadic))
		expectParams(sb, n.Params)
		sb.WriteByte(' ')
		expectBlock(sb, n.Body, dc)
		sb.WriteString(")")
	case KMacro:
		sb.WriteString("(macro")
		expectParams(sb, n.Params)
		sb.WriteByte(' ')
		expectBlock(sb, n.Body, dc)
		sb.WriteString(")")
	case KIf:
		sb.WriteString("(if ")
		expectNode(sb, n.Kids[0], dc)
		sb.WriteByte(' ')
		expectBlock(sb, n.Body, dc)
		sb.WriteByte(' ')
		switch {
		case n.ElseIf != nil:
			sb.WriteString("(block ")
			expectNode(sb, n.ElseIf, dc)
			sb.WriteString(")")
		case n.HasElse:
			expectBlock(sb, n.Else, dc)
		default:
			sb.WriteString("<none>")
		}
		sb.WriteString(")")
	case KFor:
		sb.WriteString("(for ")
		expectNode(sb, n.Kids[0], dc)
		sb.WriteByte(' ')
		expectBlock(sb, n.Body, dc)
		sb.WriteString(")")
	case KCtl:
		sb.WriteString("(control " + strings.ToUpper(n.S) + ":" + strconv.Quote(n.S) + ")")
	case KReturn:
		sb.WriteString("(return")
		if len(n.Kids) > 0 {
			sb.WriteByte(' ')
			expectNode(sb, n.Kids[0], dc)
		}
		sb.WriteString(")")
	case KComment:
		t := "LINECOMMENT"
		if strings.HasPrefix(n.S, "/*") {
			t = "BLOCKCOMMENT"
		}
		text := n.S
		if t == "LINECOMMENT" {
			text = strings.TrimSpace(text) // the lexer trims line comments
		}
		sb.WriteString("(comment " + t + ":" + strconv.Quote(text) + ")")
	}
}
