package gen

import (
	"strconv"
	"strings"
)

// Precedence table written from the language documentation / parser tests (binding strength, low to high):
//
//	1: = :=      2: ||      3: && and the range/pair ':'      4: =>      5: == !=      6: < > <= >=
//	7: + - | ^   8: & * % << >>     9: /     10: unary prefix (! - + ~ ^ ++ --)     11: call, index, field
//
// All binary operators associate to the left.
var infixPrec = map[string]int{
	"=": 1, ":=": 1, "||": 2, "&&": 3, ":": 3, "=>": 4, "==": 5, "!=": 5, "<": 6, ">": 6, "<=": 6, ">=": 6,
	"+": 7, "-": 7, "|": 7, "^": 7, "&": 8, "*": 8, "%": 8, "<<": 8, ">>": 8, "/": 9,
}

const (
	precLambda  = 4
	precPrefix  = 10
	precPostfix = 11
)

// InfixOps lists every binary operator (without assignment and ':').
var InfixOps = []string{"||", "&&", "==", "!=", "<", ">", "<=", ">=", "+", "-", "|", "^", "&", "*", "%", "<<", ">>", "/"}
var PrefixOps = []string{"!", "-", "+", "~", "^", "++", "--"}

func Prec(op string) int { return infixPrec[op] }

// Tok is one token of the printed program.
type Tok struct {
	Text   string
	Glue   bool     // no whitespace may precede this token (call parenthesis, index bracket)
	NeedNL bool     // a newline must follow (line comment)
	Open   []string // constructs open AFTER this token: "(", "[", "{block", "{map", plus "op" when the token is a binary/prefix operator or '=' awaiting its operand
}

type printer struct {
	toks  []Tok
	stack []string
	// extra parentheses: called for every expression; returns true to wrap it in redundant parens
	redundant func() bool
	sep       func(n int) int // chooser for statement separators
}

func (p *printer) emit(text string) {
	p.toks = append(p.toks, Tok{Text: text, Open: append([]string(nil), p.stack...)})
}

func (p *printer) emitGlue(text string) {
	p.emit(text)
	p.toks[len(p.toks)-1].Glue = true
}

// markOp notes that the token just emitted awaits an operand: "op" after a binary operator (infix operators,
// '=', ':=', ':', '=>'), "kw" after a prefix operator, a dot or a keyword that needs more (if, for, else).
func (p *printer) markOp() { p.mark("op") }
func (p *printer) markKw() { p.mark("kw") }

func (p *printer) mark(what string) {
	t := &p.toks[len(p.toks)-1]
	t.Open = append(t.Open, what)
}

func (p *printer) open(tok, what string, glue bool) {
	p.stack = append(p.stack, what)
	if glue {
		p.emitGlue(tok)
	} else {
		p.emit(tok)
	}
}

func (p *printer) close(tok string) {
	p.stack = p.stack[:len(p.stack)-1]
	p.emit(tok)
}

// nodePrec is the binding strength of the node's outermost construct.
func nodePrec(n *Node) int {
	switch n.K {
	case KInfix:
		return infixPrec[n.S]
	case KPrefix:
		return precPrefix
	case KLambda:
		return precLambda
	case KIf, KFor, KFunc, KMacro, KCtl, KReturn, KComment:
		return 0 // only bare in statement-like positions; parenthesised as operands
	}
	return precPostfix
}

// expr prints n so that it is read back as one operand where at least minPrec is required.
func (p *printer) expr(n *Node, minPrec int) {
	need := nodePrec(n) < minPrec
	if !need && p.redundant != nil && n.K != KComment && n.K != KReturn && n.K != KCtl && p.redundant() {
		need = true
	}
	if need {
		p.open("(", "(", false)
		p.bare(n)
		p.close(")")
		return
	}
	p.bare(n)
}

// target prints the left side of a call / index / field access.
func (p *printer) target(n *Node) {
	switch n.K {
	case KIdent, KCall, KIndex, KDot, KSlice, KArray, KStr, KBuiltin, KMap:
		p.bare(n)
	default:
		p.open("(", "(", false)
		p.bare(n)
		p.close(")")
	}
}

func (p *printer) list(l []*Node) {
	for i, x := range l {
		if i > 0 {
			p.emit(",")
		}
		p.expr(x, 2) // an assignment or anything looser is parenthesised; a lambda (4) is fine
	}
}

func (p *printer) params(ps []string, parens bool) {
	if parens {
		p.open("(", "(", false)
	}
	for i, s := range ps {
		if i > 0 {
			p.emit(",")
		}
		p.emit(s)
	}
	if parens {
		p.close(")")
	}
}

func (p *printer) block(stmts []*Node) {
	p.open("{", "{block", false)
	p.stmts(stmts)
	p.close("}")
}

func firstTokRisky(t string) bool {
	switch t {
	case "-", "+", "^", "++", "--", "*", "/", "%", "&", "|", "<", ">", "=", ":":
		return true
	}
	return strings.HasPrefix(t, "-") // the smallest integer literal carries its sign
}

// stmts prints a statement list with sound separators.
func (p *printer) stmts(stmts []*Node) {
	for i, s := range stmts {
		p.expr(s, 0)
		if i == len(stmts)-1 {
			if p.sep != nil && s.K != KComment && !(s.K == KReturn && len(s.Kids) == 0) && p.sep(4) == 0 {
				p.emit(";")
			}
			continue
		}
		// decide the separator by looking at what comes next
		mark := len(p.toks)
		save, saveR, saveS := p.stack, p.redundant, p.sep
		p.redundant, p.sep = nil, nil // structural first token, no random draws while peeking
		p.expr(stmts[i+1], 0)
		nextFirst := p.toks[mark].Text
		p.toks = p.toks[:mark]
		p.stack, p.redundant, p.sep = save, saveR, saveS
		lineComment := s.K == KComment && strings.HasPrefix(s.S, "//")
		switch {
		case lineComment:
			// a line comment ends with its line and is a complete statement: nothing to separate
		case firstTokRisky(nextFirst):
			p.emit(";")
		case p.sep != nil && p.sep(3) == 0:
			p.emit(";")
		default:
			// whitespace only; the layout pass guarantees at least one blank between statements
			p.toks[len(p.toks)-1].Open = append(p.toks[len(p.toks)-1].Open, "stmt-end")
		}
	}
}

func quoteStr(s string, raw bool) string {
	if raw && !strings.ContainsAny(s, "`\x00") {
		return "`" + s + "`"
	}
	var sb strings.Builder
	sb.WriteByte('"')
	for i := 0; i < len(s); i++ {
		c := s[i]
		switch {
		case c == '"' || c == '\\':
			sb.WriteByte('\\')
			sb.WriteByte(c)
		case c == '\n':
			sb.WriteString(`\n`)
		case c == '\t':
			sb.WriteString(`\t`)
		case c == '\r':
			sb.WriteString(`\r`)
		case c >= 0x20 && c < 0x7f:
			sb.WriteByte(c)
		default:
			sb.WriteString(`\x` + strconv.FormatInt(int64(c>>4), 16) + strconv.FormatInt(int64(c&15), 16))
		}
	}
	sb.WriteByte('"')
	return sb.String()
}

func (p *printer) bare(n *Node) {
	switch n.K {
	case KInt, KFloat, KBool, KIdent:
		p.emit(n.S)
	case KStr:
		p.emit(quoteStr(n.S, n.Raw))
	case KPrefix:
		p.emit(n.S)
		p.markKw()
		p.expr(n.Kids[0], precPrefix)
	case KPostfix:
		p.emit(n.Kids[0].S)
		p.emit(n.S)
	case KInfix:
		pr := infixPrec[n.S]
		l, r := n.Kids[0], n.Kids[1]
		if l.K == KLambda {
			p.expr(l, precPostfix) // a lambda on the left would swallow the operator into its body
		} else {
			p.expr(l, pr)
		}
		p.emit(n.S)
		p.markOp()
		p.expr(r, pr+1)
	case KIndex:
		p.target(n.Kids[0])
		p.open("[", "[", true)
		p.expr(n.Kids[1], 0)
		p.close("]")
	case KSlice:
		p.target(n.Kids[0])
		p.open("[", "[", true)
		p.expr(n.Kids[1], 4)
		p.emit(":")
		if n.Kids[2] != nil {
			p.markOp()
			p.expr(n.Kids[2], 4)
		}
		p.close("]")
	case KDot:
		if n.Kids[0].K == KInt || n.Kids[0].K == KFloat {
			p.open("(", "(", false)
			p.bare(n.Kids[0])
			p.close(")")
		} else {
			p.target(n.Kids[0])
		}
		p.emit(".")
		p.markKw()
		p.emit(n.S)
	case KCall:
		p.target(n.Kids[0])
		p.open("(", "(", true)
		p.list(n.Kids[1:])
		p.close(")")
	case KBuiltin:
		p.emit(n.S)
		p.open("(", "(", false)
		p.list(n.Kids)
		p.close(")")
	case KArray:
		p.open("[", "[", false)
		p.list(n.Kids)
		p.close("]")
	case KMap:
		p.open("{", "{map", false)
		for i := 0; i+1 < len(n.Kids); i += 2 {
			if i > 0 {
				p.emit(",")
			}
			p.expr(n.Kids[i], 4)
			p.emit(":")
			p.markOp()
			p.expr(n.Kids[i+1], 4)
		}
		p.close("}")
	case KFunc:
		p.emit("func")
		if n.S != "" {
			p.emit(n.S)
		}
		p.params(n.Params, true)
		p.block(n.Body)
	case KMacro:
		p.emit("macro")
		p.params(n.Params, true)
		p.block(n.Body)
	case KLambda:
		p.params(n.Params, len(n.Params) != 1)
		p.emit("=>")
		p.markOp()
		if n.Block {
			p.block(n.Body)
		} else {
			b := n.Body[0]
			// a body whose text starts with '{' would be read as a block
			mark := len(p.toks)
			save, saveR, saveS := p.stack, p.redundant, p.sep
			p.redundant, p.sep = nil, nil
			p.expr(b, precLambda+1)
			startsWithBrace := p.toks[mark].Text == "{"
			p.toks = p.toks[:mark]
			p.stack, p.redundant, p.sep = save, saveR, saveS
			if startsWithBrace || b.K == KLambda {
				p.open("(", "(", false)
				p.bare(b)
				p.close(")")
			} else {
				p.expr(b, precLambda+1)
			}
		}
	case KIf:
		p.emit("if")
		p.markKw()
		p.expr(n.Kids[0], 2)
		p.block(n.Body)
		switch {
		case n.ElseIf != nil:
			p.emit("else")
			p.markKw()
			p.bare(n.ElseIf)
		case n.HasElse:
			p.emit("else")
			p.markKw()
			p.block(n.Else)
		}
	case KFor:
		p.emit("for")
		p.markKw()
		p.expr(n.Kids[0], 0)
		p.block(n.Body)
	case KCtl:
		p.emit(n.S)
	case KReturn:
		p.emit("return")
		if len(n.Kids) > 0 {
			p.expr(n.Kids[0], 0)
		}
	case KComment:
		p.emit(n.S)
		if strings.HasPrefix(n.S, "//") {
			p.toks[len(p.toks)-1].NeedNL = true
		}
	}
}

// Chooser returns a number in [0,n); implementations draw from rapid or are fixed.
type Chooser func(n int) int

type PrintOptions struct {
	Choose         Chooser // nil: canonical layout (single spaces, newline between statements)
	RedundantParen bool    // with Choose: sometimes wrap sub-expressions in extra parentheses
}

// Tokens prints the program to tokens.
func Tokens(stmts []*Node, o PrintOptions) []Tok {
	p := &printer{}
	if o.Choose != nil {
		p.sep = o.Choose
		if o.RedundantParen {
			p.redundant = func() bool { return o.Choose(12) == 0 }
		}
	}
	p.stmts(stmts)
	return p.toks
}

func wordish(c byte) bool {
	return c == '_' || c >= '0' && c <= '9' || c >= 'a' && c <= 'z' || c >= 'A' && c <= 'Z' || c >= 0x80
}

func opish(c byte) bool { return strings.IndexByte("+-*/<>=!&|:.^%~", c) >= 0 }

// canGlue: may b follow a without whitespace and still lex as the same two tokens?
func canGlue(a, b string) bool {
	x, y := a[len(a)-1], b[0]
	if wordish(x) && wordish(y) {
		return false
	}
	if (opish(x) || x == '.') && (opish(y) || y == '.') {
		return false
	}
	if (x == '.' && y >= '0' && y <= '9') || (y == '.' && x >= '0' && x <= '9') {
		return false
	}
	if x == '/' || y == '/' || x == '*' && y == '/' {
		return !(opish(x) && opish(y))
	}
	return true
}

// Layout joins tokens with whitespace. It returns the text and, for every token, its [start,end) offsets.
func Layout(toks []Tok, choose Chooser) (string, [][2]int) {
	var sb strings.Builder
	offs := make([][2]int, len(toks))
	for i, t := range toks {
		if i > 0 {
			prev := toks[i-1]
			stmtEnd := false
			for _, o := range prev.Open {
				if o == "stmt-end" {
					stmtEnd = true
				}
			}
			switch {
			case prev.NeedNL:
				sb.WriteByte('\n')
			case t.Glue:
			case choose == nil:
				switch {
				case stmtEnd || prev.Text == ";":
					sb.WriteByte('\n')
				case t.Text == "," || t.Text == ";" || t.Text == ")" || t.Text == "]" || prev.Text == "(" || prev.Text == "[":
				default:
					sb.WriteByte(' ')
				}
			default:
				ws := []string{" ", "", " ", "\n", "  ", "\t", "", " \n "}[choose(8)]
				if stmtEnd && ws == "" {
					ws = "\n"
				}
				if stmtEnd && (t.Text == "(" || t.Text == "[") && ws == "" {
					ws = " "
				}
				if ws == "" && !canGlue(prev.Text, t.Text) {
					ws = " "
				}
				// an opening parenthesis / bracket directly after an operand would become a call / index
				if ws == "" && (t.Text == "(" || t.Text == "[") && !t.Glue {
					x := prev.Text[len(prev.Text)-1]
					if wordish(x) || x == ')' || x == ']' || x == '}' || x == '"' || x == '`' {
						ws = " "
					}
				}
				sb.WriteString(ws)
			}
		}
		offs[i][0] = sb.Len()
		sb.WriteString(t.Text)
		offs[i][1] = sb.Len()
	}
	if len(toks) > 0 && toks[len(toks)-1].NeedNL {
		sb.WriteByte('\n')
	} else if choose == nil || choose(2) == 0 {
		sb.WriteByte('\n')
	}
	return sb.String(), offs
}

// Print renders the program canonically (or with random layout when o.Choose is set).
func Print(stmts []*Node, o PrintOptions) string {
	s, _ := Layout(Tokens(stmts, o), o.Choose)
	return s
}

// PrintExpr renders a single expression canonically.
func PrintExpr(n *Node) string {
	return strings.TrimRight(Print([]*Node{n}, PrintOptions{}), "\n")
}
