package gen

import (
	"fmt"

	"pgregory.net/rapid"
)

// The typed generator builds programs that mostly evaluate without error: every expression is
// drawn for a wanted type from the variables in scope. It is deliberately not perfect (indexing may
// leave the range, a division may hit zero): runtime errors are legitimate outcomes that the
// differential checks compare too.

type TType int

const (
	TInt TType = iota
	TFloat
	TBool
	TStr
	TArr // array of integers
	TMap // string -> integer
	TFunc
)

type tvar struct {
	name    string
	t       TType
	sig     *FSig // for TFunc
	loop    bool  // loop variable or recursion budget: never assigned
	counted bool  // variable of a counted loop (for i = n, for i = a:b): may live in a register
	elem    bool  // loop variable holding the elements of an array: an integer only if every element is
	param   bool
}

type FSig struct {
	Name     string
	Params   []TType
	Ret      TType
	Variadic bool
	Fuel     bool // first parameter is a recursion budget
}

type TCfg struct {
	MaxDepth           int // expression depth
	MaxStmts           int // statements per block
	MaxBlockDepth      int
	MaxParams          int  // up to this many parameters per function
	MaxLoopDepth       int  // nesting of counted loops
	Floats             bool // use float arithmetic
	Containers         bool // arrays and maps
	Errors             bool // error()/catch() and deliberate type errors
	Closures           bool // nested function literals capturing variables
	Recursion          bool
	PrintEvery         bool // println of a variable after most statements
	UpperNames         bool // some variables / parameters / loop variables get upper-case (constant style) names
	ShadowNames        bool // loop variables and parameters may reuse names of outer bindings
	BoundaryInts       bool
	Variadics          bool
	IncrDecr           bool
	FreshLoopVars      bool // loop variables get fresh lower-case names that nothing else uses (known finding K-C05-1/-4)
	NoLoopVarCapture   bool // function literals inside a counted loop never mention its variable (known finding K-C05-3)
	PureParamAssign    bool // an integer parameter is only ever assigned pure integer arithmetic (known finding K-C05-2)
	NoUpperInRecursion bool // no upper-case (constant) names are bound inside a function that calls itself (known finding K-C04-1)
	NoAssocRight       bool // never build a right operand with the same precedence as its parent (known finding K-C02-1 changes such trees when printed)
}

type TGen struct {
	t           *rapid.T
	c           TCfg
	scopes      [][]tvar
	funcs       []*FSig
	ret         *TType // inside a function: its return type
	loops       int    // loop nesting (break/continue allowed)
	cloops      int    // counted loop nesting
	blocks      int
	nameN       int
	fuelOK      bool // a fuel variable "fuel" is in scope (recursive call allowed)
	inRecursive int  // nesting of self-calling functions being generated
	self        *FSig
}

func NewTGen(t *rapid.T, c TCfg) *TGen {
	if c.MaxDepth == 0 {
		c.MaxDepth = 3
	}
	if c.MaxStmts == 0 {
		c.MaxStmts = 4
	}
	if c.MaxBlockDepth == 0 {
		c.MaxBlockDepth = 3
	}
	if c.MaxParams == 0 {
		c.MaxParams = 3
	}
	if c.MaxLoopDepth == 0 {
		c.MaxLoopDepth = 2
	}
	return &TGen{t: t, c: c, scopes: [][]tvar{nil}}
}

func (g *TGen) intn(n int, label string) int { return rapid.IntRange(0, n-1).Draw(g.t, label) }
func (g *TGen) chance(oneIn int, label string) bool {
	return rapid.IntRange(0, oneIn-1).Draw(g.t, label) == 0
}

func (g *TGen) push() { g.scopes = append(g.scopes, nil) }
func (g *TGen) pop()  { g.scopes = g.scopes[:len(g.scopes)-1] }
func (g *TGen) declare(v tvar) {
	top := len(g.scopes) - 1
	for i, o := range g.scopes[top] {
		if o.name == v.name {
			g.scopes[top][i] = v
			return
		}
	}
	g.scopes[top] = append(g.scopes[top], v)
}

// visible variables, innermost first, without shadowed ones.
func (g *TGen) vars(pred func(tvar) bool) []tvar {
	seen := map[string]bool{}
	var out []tvar
	for i := len(g.scopes) - 1; i >= 0; i-- {
		for j := len(g.scopes[i]) - 1; j >= 0; j-- {
			v := g.scopes[i][j]
			if seen[v.name] {
				continue
			}
			seen[v.name] = true
			if pred(v) {
				out = append(out, v)
			}
		}
	}
	return out
}

func (g *TGen) varsOf(t TType) []tvar { return g.vars(func(v tvar) bool { return v.t == t }) }

var lowerNames = []string{"a", "b", "c", "d", "e", "k", "p", "q", "r", "s", "u", "v", "w", "cnt", "acc", "tmp", "idx", "val"}
var upperNames = []string{"A", "B", "N", "MAX", "K9", "A_B", "LIMIT"}

func (g *TGen) loopVarName() string {
	if g.c.FreshLoopVars {
		g.nameN++
		return fmt.Sprintf("lv%d", g.nameN)
	}
	return g.newName(true)
}

func (g *TGen) newName(shadowOK bool) string {
	if g.c.UpperNames && !(g.c.NoUpperInRecursion && g.inRecursive > 0) && g.chance(6, "upper") {
		return rapid.SampledFrom(upperNames).Draw(g.t, "uname")
	}
	if g.c.ShadowNames && shadowOK && g.chance(3, "shadow") {
		if vs := g.vars(func(tvar) bool { return true }); len(vs) > 0 {
			return vs[g.intn(len(vs), "shadowed")].name
		}
	}
	if g.chance(3, "fresh") {
		g.nameN++
		return fmt.Sprintf("x%d", g.nameN)
	}
	return rapid.SampledFrom(lowerNames).Draw(g.t, "lname")
}

var smallInts = []int64{0, 1, 2, 3, 4, 5, 7, 10, -1, -2, -3}
var boundaryInts = []int64{9223372036854775807, -9223372036854775808, 9007199254740993, 4611686018427387904, 4294967296, 255, -255, 63, 64}

func (g *TGen) intLit() *Node {
	if g.c.BoundaryInts && g.chance(6, "boundary") {
		return Int(rapid.SampledFrom(boundaryInts).Draw(g.t, "bint"))
	}
	return Int(rapid.SampledFrom(smallInts).Draw(g.t, "sint"))
}

var floatLits = []string{"0.5", "1.5", "2.0", "0.25", "3.75", "10.0", "1e3", "0.1"}
var strLits = []string{"", "a", "ab", "xyz", "hello", "é", "x y", "0"}

func (g *TGen) pickVar(t TType) *Node {
	vs := g.varsOf(t)
	if len(vs) == 0 {
		return nil
	}
	return Id(vs[g.intn(len(vs), "var")].name)
}

// infix builds l op r, parenthesisation is the printer's business; with NoAssocRight a right operand of
// the same precedence is moved to the left instead.
func (g *TGen) infix(op string, l, r *Node) *Node {
	if g.c.NoAssocRight && r.K == KInfix && Prec(r.S) == Prec(op) {
		l, r = r, l
		if r.K == KInfix && Prec(r.S) == Prec(op) {
			r = Call(Id("ident"), r) // both sides are: route the right one through the identity function of the prelude
		}
	}
	return Infix(op, l, r)
}

// Expr draws an expression of the wanted type.
func (g *TGen) Expr(t TType, depth int) *Node {
	if depth <= 0 || g.chance(4, "leaf") {
		if v := g.pickVar(t); v != nil && !g.chance(3, "lit") {
			return v
		}
		return g.lit(t)
	}
	d := depth - 1
	if fs := g.callable(t); len(fs) > 0 && g.chance(5, "call") {
		return g.call(fs[g.intn(len(fs), "fn")], d)
	}
	switch t {
	case TInt:
		switch g.intn(12, "int") {
		case 0, 1, 2:
			return g.infix(rapid.SampledFrom([]string{"+", "-", "*"}).Draw(g.t, "op"), g.Expr(TInt, d), g.Expr(TInt, d))
		case 3:
			// divisor made odd so it is never zero
			return g.infix(rapid.SampledFrom([]string{"/", "%"}).Draw(g.t, "op"), g.Expr(TInt, d), Infix("|", g.Expr(TInt, d), Int(1)))
		case 4:
			return g.infix(rapid.SampledFrom([]string{"&", "|", "^"}).Draw(g.t, "op"), g.Expr(TInt, d), g.Expr(TInt, d))
		case 5:
			return g.infix(rapid.SampledFrom([]string{"<<", ">>"}).Draw(g.t, "op"), g.Expr(TInt, d), Int(int64(g.intn(8, "shift"))))
		case 6:
			return Prefix(rapid.SampledFrom([]string{"-", "~", "+"}).Draw(g.t, "pop"), g.Expr(TInt, d))
		case 7:
			if g.c.Containers {
				src := g.Expr(rapid.SampledFrom([]TType{TArr, TStr, TMap}).Draw(g.t, "lentype"), d)
				return Builtin("len", src)
			}
		case 8:
			if g.c.Containers {
				if a := g.pickVar(TArr); a != nil {
					return Index(a, Int(int64(g.intn(3, "i")-1)))
				}
			}
		case 9:
			if g.c.Containers {
				if m := g.pickVar(TMap); m != nil {
					return Dot(m, rapid.SampledFrom([]string{"k", "a", "b"}).Draw(g.t, "field"))
				}
			}
		case 10:
			return IfElse(g.Expr(TBool, d), []*Node{g.Expr(TInt, d)}, []*Node{g.Expr(TInt, d)})
		}
		return g.infix("+", g.Expr(TInt, d), g.intLit())
	case TFloat:
		switch g.intn(4, "float") {
		case 0, 1:
			return g.infix(rapid.SampledFrom([]string{"+", "-", "*", "/"}).Draw(g.t, "op"), g.Expr(TFloat, d), g.Expr(TFloat, d))
		case 2:
			return g.infix("*", g.Expr(TFloat, d), g.Expr(TInt, d))
		}
		return Prefix("-", g.Expr(TFloat, d))
	case TBool:
		switch g.intn(7, "bool") {
		case 0, 1, 2:
			return g.infix(rapid.SampledFrom([]string{"<", ">", "<=", ">=", "==", "!="}).Draw(g.t, "cmp"), g.Expr(TInt, d), g.Expr(TInt, d))
		case 3:
			return g.infix(rapid.SampledFrom([]string{"&&", "||"}).Draw(g.t, "logic"), g.Expr(TBool, d), g.Expr(TBool, d))
		case 4:
			return Prefix("!", g.Expr(TBool, d))
		case 5:
			return g.infix(rapid.SampledFrom([]string{"==", "<", "!="}).Draw(g.t, "scmp"), g.Expr(TStr, d), g.Expr(TStr, d))
		}
		return g.infix("==", g.infix("%", g.Expr(TInt, d), Int(2)), Int(0))
	case TStr:
		switch g.intn(4, "str") {
		case 0, 1:
			return g.infix("+", g.Expr(TStr, d), g.Expr(TStr, d))
		case 2:
			return g.infix("*", g.Expr(TStr, d), Int(int64(g.intn(4, "rep"))))
		}
		if g.c.Containers {
			return Slice(g.Expr(TStr, d), Int(int64(g.intn(3, "l"))), nil)
		}
		return g.lit(TStr)
	case TArr:
		switch g.intn(6, "arr") {
		case 0:
			return g.infix("+", g.Expr(TArr, d), g.Expr(TArr, d))
		case 1:
			return g.infix("+", g.Expr(TArr, d), g.Expr(TInt, d))
		case 2:
			return Slice(g.Expr(TArr, d), Int(int64(g.intn(3, "l"))), Int(int64(g.intn(6, "r")+2)))
		case 3:
			return g.infix(":", Int(int64(g.intn(3, "from"))), Int(int64(g.intn(12, "to")+3)))
		case 4:
			return g.infix("*", g.lit(TArr), Int(int64(g.intn(5, "rep"))))
		}
		return g.lit(TArr)
	case TMap:
		if g.chance(2, "merge") {
			return g.infix("+", g.Expr(TMap, d), g.Expr(TMap, d))
		}
		return g.lit(TMap)
	}
	return g.lit(t)
}

// pureInt draws integer arithmetic that can only evaluate to an integer (no indexing, calls or division).
func (g *TGen) pureInt(depth int) *Node {
	if depth <= 0 || g.chance(3, "pleaf") {
		// only names that certainly hold an integer: the recursion fuel, counters and counted-loop variables (a
		// parameter holds whatever the call passed, an element of an array may be nil)
		if vs := g.vars(func(v tvar) bool { return v.t == TInt && v.loop && (v.counted || !v.elem) }); len(vs) > 0 && g.chance(2, "pvar") {
			return Id(vs[g.intn(len(vs), "pv")].name)
		}
		return Int(rapid.SampledFrom(smallInts).Draw(g.t, "pint"))
	}
	return g.infix(rapid.SampledFrom([]string{"+", "-", "*", "&", "|"}).Draw(g.t, "pop2"), g.pureInt(depth-1), g.pureInt(depth-1))
}

func (g *TGen) lit(t TType) *Node {
	switch t {
	case TInt:
		return g.intLit()
	case TFloat:
		return FloatLit(rapid.SampledFrom(floatLits).Draw(g.t, "flit"))
	case TBool:
		return Bool(rapid.Bool().Draw(g.t, "blit"))
	case TStr:
		return Str(rapid.SampledFrom(strLits).Draw(g.t, "slit"))
	case TArr:
		n := rapid.SampledFrom([]int{0, 1, 2, 3, 4, 7, 8, 9, 10, 12}).Draw(g.t, "alen")
		els := make([]*Node, n)
		for i := range els {
			els[i] = g.element("el")
		}
		return Array(els...)
	case TMap:
		n := rapid.SampledFrom([]int{0, 1, 2, 3, 4, 5, 6}).Draw(g.t, "mlen")
		keys := []string{"k", "a", "b", "c", "d", "e", "f"}
		var kvs []*Node
		for i := 0; i < n; i++ {
			kvs = append(kvs, Str(keys[i]), g.element("mv"))
		}
		return Map(kvs...)
	}
	return Nil()
}

// element of a container literal: a small integer, sometimes the current value of an integer variable
// (a parameter or loop variable: what the literal holds must be the value, not the variable).
func (g *TGen) element(label string) *Node {
	if g.chance(5, label+"var") {
		if v := g.pickVar(TInt); v != nil {
			return v
		}
	}
	return Int(int64(g.intn(10, label)))
}

func (g *TGen) callable(ret TType) []*FSig {
	var out []*FSig
	for _, f := range g.funcs {
		if f.Ret == ret && (!f.Fuel || g.self != f) {
			out = append(out, f)
		}
	}
	for _, v := range g.vars(func(v tvar) bool { return v.t == TFunc && v.sig != nil && v.sig.Ret == ret }) {
		s := *v.sig
		s.Name = v.name
		out = append(out, &s)
	}
	return out
}

func (g *TGen) call(f *FSig, depth int) *Node {
	var args []*Node
	for i, pt := range f.Params {
		if i == 0 && f.Fuel {
			args = append(args, Int(int64(g.intn(4, "fuel")+1)))
			continue
		}
		// recurring simple arguments (so that memoization sees equal calls) mixed with computed ones
		if g.chance(2, "simplearg") {
			args = append(args, g.lit(pt))
		} else {
			args = append(args, g.Expr(pt, depth))
		}
	}
	if f.Variadic {
		n := g.intn(3, "extra")
		if n == 0 && len(f.Params) > 0 && f.Params[len(f.Params)-1] == TArr {
			n = 1 // a trailing array argument of a variadic call is spread over the parameters: keep it from being last
		}
		for ; n > 0; n-- {
			args = append(args, g.Expr(TInt, 0))
		}
	}
	return Call(Id(f.Name), args...)
}

func typeName(t TType) string {
	return [...]string{"int", "float", "bool", "str", "arr", "map", "func"}[t]
}

func (g *TGen) dataType() TType {
	ts := []TType{TInt, TInt, TInt, TBool, TStr}
	if g.c.Floats {
		ts = append(ts, TFloat)
	}
	if g.c.Containers {
		ts = append(ts, TArr, TMap)
	}
	return rapid.SampledFrom(ts).Draw(g.t, "type")
}

// show prints a variable (or expression) so that intermediate states are observable.
func (g *TGen) show() *Node {
	vs := g.vars(func(v tvar) bool { return v.t != TFunc })
	if len(vs) == 0 {
		return Println(Str("."))
	}
	v := vs[g.intn(len(vs), "showvar")]
	return Println(Str(v.name), Id(v.name))
}

// Block draws a statement list in a new scope.
func (g *TGen) Block(minStmts int) []*Node {
	g.push()
	g.blocks++
	defer func() { g.blocks--; g.pop() }()
	n := minStmts + g.intn(g.c.MaxStmts-minStmts+1, "nstmts")
	var out []*Node
	for i := 0; i < n; i++ {
		out = append(out, g.Stmt()...)
	}
	return out
}

// Stmt draws one statement (sometimes followed by a println of the state).
func (g *TGen) Stmt() []*Node {
	s := g.stmt()
	if g.c.PrintEvery && g.chance(2, "show") {
		s = append(s, g.show())
	}
	return s
}

func (g *TGen) stmt() []*Node {
	deep := g.blocks >= g.c.MaxBlockDepth
	for {
		switch g.intn(22, "stmt") {
		case 0, 1, 2, 3: // assignment to a new or existing variable
			t := g.dataType()
			if vs := g.vars(func(v tvar) bool { return v.t == t && !v.loop }); len(vs) > 0 && g.chance(2, "update") {
				v := vs[g.intn(len(vs), "target")]
				if v.param && v.t == TInt && g.c.PureParamAssign {
					return []*Node{Assign(v.name, g.pureInt(2))}
				}
				return []*Node{Assign(v.name, g.Expr(t, g.c.MaxDepth))}
			}
			name := g.newName(false)
			// a new variable must not re-type a parameter or loop variable of the same name (known finding K-C05-2)
			if g.c.PureParamAssign {
				for _, v := range g.vars(func(v tvar) bool { return v.name == name }) {
					if (v.param || v.loop) && v.t != t {
						g.nameN++
						name = fmt.Sprintf("x%d", g.nameN)
					}
				}
			}
			e := g.Expr(t, g.c.MaxDepth)
			if g.c.PureParamAssign && t == TInt {
				// re-binding an integer parameter: only arithmetic that can't produce anything but an integer
				// (an index out of range or a missing field gives nil, which a register can't hold: K-C05-2)
				for _, v := range g.vars(func(v tvar) bool { return v.name == name && (v.param || v.loop) }) {
					_ = v
					e = g.pureInt(2)
					break
				}
			}
			nv := tvar{name: name, t: t}
			// re-declaring a parameter (a := a) does not make it an ordinary variable: it may still live in a register
			for _, v := range g.vars(func(v tvar) bool { return v.name == name }) {
				nv.param = nv.param || v.param
			}
			g.declare(nv)
			if g.chance(3, "define") {
				return []*Node{Define(name, e)}
			}
			return []*Node{Assign(name, e)}
		case 4, 5:
			return []*Node{Println(g.Expr(g.dataType(), g.c.MaxDepth))}
		case 6, 7:
			if deep {
				continue
			}
			cond := g.Expr(TBool, g.c.MaxDepth-1)
			then := g.Block(1)
			if g.chance(2, "else") {
				return []*Node{IfElse(cond, then, g.Block(1))}
			}
			return []*Node{If(cond, then)}
		case 8, 9, 10:
			if deep {
				continue
			}
			return g.loop()
		case 11:
			if g.loops > 0 {
				ctl := Break()
				if g.chance(2, "continue") {
					ctl = Continue()
				}
				return []*Node{If(g.Expr(TBool, 1), []*Node{ctl})}
			}
			continue
		case 12:
			if g.ret != nil {
				r := Return(g.Expr(*g.ret, g.c.MaxDepth-1))
				if g.chance(2, "guarded") {
					return []*Node{If(g.Expr(TBool, 1), []*Node{r})}
				}
				return []*Node{r}
			}
			continue
		case 13, 14:
			if (g.ret == nil && g.blocks == 0) || g.c.Closures {
				return g.funcDef()
			}
			continue
		case 15:
			if !g.c.IncrDecr {
				continue
			}
			// (also the variable of a counted loop: the next iteration sets it again)
			if vs := g.vars(func(v tvar) bool { return v.t == TInt && (!v.loop || (v.counted && !g.c.NoLoopVarCapture)) }); len(vs) > 0 {
				v := vs[g.intn(len(vs), "incr")]
				switch g.intn(4, "incrform") {
				case 0:
					return []*Node{Postfix("++", v.name)}
				case 1:
					return []*Node{Postfix("--", v.name)}
				case 2:
					return []*Node{Println(Prefix("++", Id(v.name)))}
				default:
					return []*Node{Println(Postfix("--", v.name))}
				}
			}
			continue
		case 16:
			if !g.c.Containers {
				continue
			}
			if vs := g.varsOf(TArr); len(vs) > 0 && g.chance(2, "arrset") {
				v := vs[g.intn(len(vs), "arr")]
				if iv := g.pickVar(TInt); iv != nil && g.chance(3, "varindex") {
					return []*Node{Infix("=", Index(Id(v.name), iv), g.Expr(TInt, 1))}
				}
				return []*Node{Infix("=", Index(Id(v.name), Int(int64(g.intn(4, "i")-1))), g.Expr(TInt, 1))}
			}
			if vs := g.varsOf(TMap); len(vs) > 0 {
				v := vs[g.intn(len(vs), "map")]
				if iv := g.pickVar(TInt); iv != nil && g.chance(4, "varkey") {
					// an integer variable (maybe a parameter or loop variable) as key
					return []*Node{Infix("=", Index(Id(v.name), iv), g.Expr(TInt, 1))}
				}
				key := rapid.SampledFrom([]string{"k", "a", "z"}).Draw(g.t, "key")
				if g.chance(2, "dotset") {
					return []*Node{Infix("=", Dot(Id(v.name), key), g.Expr(TInt, 1))}
				}
				return []*Node{Infix("=", Index(Id(v.name), Str(key)), g.Expr(TInt, 1))}
			}
			continue
		case 17:
			if !g.c.Errors {
				continue
			}
			switch g.intn(3, "err") {
			case 0:
				return []*Node{Println(Builtin("catch", g.Expr(TInt, 2)))}
			case 1:
				return []*Node{Println(Dot(Builtin("catch", Infix("+", g.Expr(TInt, 1), Builtin("error", Str("boom"), g.Expr(TInt, 0)))), "err"))}
			default:
				// a deliberate type error, caught
				return []*Node{Println(Dot(Builtin("catch", Infix("-", g.Expr(TStr, 1), g.Expr(TInt, 1))), "err"))}
			}
		case 18:
			if fs := g.callable(g.dataType()); len(fs) > 0 {
				return []*Node{Println(g.call(fs[g.intn(len(fs), "fn")], 1))}
			}
			continue
		default:
			return []*Node{g.show()}
		}
	}
}

func (g *TGen) loop() []*Node {
	form := g.intn(7, "loopform")
	if g.cloops >= g.c.MaxLoopDepth && form <= 2 {
		form = 3
	}
	g.loops++
	defer func() { g.loops-- }()
	bodyWith := func(v *tvar) []*Node {
		g.push()
		if v != nil {
			g.declare(*v)
		}
		body := g.Block(1)
		if v != nil && g.chance(2, "usevar") {
			body = append(body, Println(Id(v.name)))
		}
		g.pop()
		return body
	}
	count := func() *Node {
		if v := g.pickVar(TInt); v != nil && g.chance(3, "countvar") {
			return Infix("%", Infix("&", v, Int(7)), Int(5)) // bounded whatever the variable holds
		}
		// the deeper the nesting, the fewer iterations: the product over all levels stays small
		max := 5 - g.cloops
		if max < 2 {
			max = 2
		}
		return Int(int64(g.intn(max, "count")))
	}
	switch form {
	case 0: // for n { }
		g.cloops++
		defer func() { g.cloops-- }()
		return []*Node{For(count(), bodyWith(nil)...)}
	case 1: // for i = n { }
		g.cloops++
		defer func() { g.cloops-- }()
		v := tvar{name: g.loopVarName(), t: TInt, loop: true, counted: true}
		return []*Node{For(Assign(v.name, count()), bodyWith(&v)...)}
	case 2: // for i = a:b { }
		g.cloops++
		defer func() { g.cloops-- }()
		v := tvar{name: g.loopVarName(), t: TInt, loop: true, counted: true}
		from := int64(g.intn(4, "from") - 1)
		span := 5 - g.cloops
		if span < 2 {
			span = 2
		}
		return []*Node{For(Assign(v.name, Infix(":", Int(from), Int(from+int64(g.intn(span, "span"))))), bodyWith(&v)...)}
	case 3:
		if g.c.Containers { // for x = array
			v := tvar{name: g.loopVarName(), t: TInt, loop: true, elem: true}
			src := g.Expr(TArr, 1)
			if src.K == KInfix && src.S == ":" { // for v = a:b is the counted form, whatever produced the range
				v.counted = true
			}
			return []*Node{For(Assign(v.name, src), bodyWith(&v)...)}
		}
		fallthrough
	case 4: // for cond { } with a counter that makes it end
		g.nameN++
		c := fmt.Sprintf("n%d", g.nameN)
		g.declare(tvar{name: c, t: TInt, loop: true})
		body := bodyWith(nil)
		body = append([]*Node{Assign(c, Infix("-", Id(c), Int(1)))}, body...)
		return []*Node{Assign(c, Int(int64(g.intn(4, "iters")))), For(Infix(">", Id(c), Int(0)), body...)}
	case 5:
		if g.c.Containers { // for c = string
			v := tvar{name: g.loopVarName(), t: TStr, loop: true}
			return []*Node{For(Assign(v.name, g.Expr(TStr, 1)), bodyWith(&v)...)}
		}
		fallthrough
	default:
		if g.c.Containers { // for kv = map
			g.nameN++
			kv := fmt.Sprintf("kv%d", g.nameN)
			body := bodyWith(nil)
			body = append([]*Node{Println(Dot(Id(kv), "key"), Dot(Id(kv), "value"))}, body...)
			return []*Node{For(Assign(kv, g.Expr(TMap, 1)), body...)}
		}
		g.cloops++
		defer func() { g.cloops-- }()
		return []*Node{For(count(), bodyWith(nil)...)}
	}
}

func (g *TGen) funcDef() []*Node {
	np := g.intn(g.c.MaxParams+1, "nparams")
	sig := &FSig{Ret: g.dataType()}
	recursive := g.c.Recursion && g.chance(3, "recursive")
	var params []string
	var savedScopes [][]tvar
	if g.c.NoLoopVarCapture {
		savedScopes = g.scopes
		filtered := make([][]tvar, len(g.scopes))
		for i, sc := range g.scopes {
			for _, v := range sc {
				if !v.counted {
					filtered[i] = append(filtered[i], v)
				}
			}
		}
		g.scopes = filtered
	}
	g.push()
	oldRet, oldLoops, oldCloops, oldSelf := g.ret, g.loops, g.cloops, g.self
	g.loops, g.cloops = 0, 0
	if recursive {
		g.inRecursive++
		defer func() { g.inRecursive-- }()
		sig.Fuel = true
		sig.Params = append(sig.Params, TInt)
		params = append(params, "fuel")
		g.declare(tvar{name: "fuel", t: TInt, param: true, loop: true}) // never reassigned: recursion must end
	}
	for i := len(params); i < np; i++ {
		pt := g.dataType()
		name := g.newName(true)
		for _, p := range params {
			if p == name {
				g.nameN++
				name = fmt.Sprintf("p%d", g.nameN)
			}
		}
		params = append(params, name)
		sig.Params = append(sig.Params, pt)
		g.declare(tvar{name: name, t: pt, param: true})
	}
	if g.c.Variadics && g.chance(5, "variadic") {
		sig.Variadic = true
		params = append(params, "..")
	}
	g.nameN++
	named := oldRet == nil && g.blocks == 0 && g.chance(2, "named") // named functions only at top level
	sig.Name = fmt.Sprintf("fn%d", g.nameN)
	g.ret = &sig.Ret
	var body []*Node
	if recursive {
		g.self = sig
		rec := Call(Id(sig.Name), append([]*Node{Infix("-", Id("fuel"), Int(1))}, g.recArgs(sig)...)...)
		body = append(body, If(Infix("<=", Id("fuel"), Int(0)), []*Node{Return(g.Expr(sig.Ret, 1))}))
		body = append(body, g.Block(0)...)
		switch sig.Ret {
		case TInt:
			body = append(body, Infix("+", rec, g.Expr(TInt, 1)))
		case TStr:
			body = append(body, Infix("+", rec, g.Expr(TStr, 1)))
		default:
			body = append(body, rec)
		}
	} else {
		body = g.Block(0)
		if sig.Variadic && g.chance(2, "uselen") {
			body = append(body, Println(Builtin("len", Id(".."))))
		}
		body = append(body, g.Expr(sig.Ret, g.c.MaxDepth-1))
	}
	g.ret, g.loops, g.cloops, g.self = oldRet, oldLoops, oldCloops, oldSelf
	g.pop()
	if savedScopes != nil {
		g.scopes = savedScopes
	}
	if named {
		g.funcs = append(g.funcs, sig)
		return []*Node{Func(sig.Name, params, sig.Variadic, body...)}
	}
	// anonymous: bound to a variable, as func literal or lambda
	g.declare(tvar{name: sig.Name, t: TFunc, sig: sig})
	if g.chance(2, "lambda") {
		return []*Node{Assign(sig.Name, LambdaBlock(params, sig.Variadic, body...))}
	}
	return []*Node{Assign(sig.Name, Func("", params, sig.Variadic, body...))}
}

func (g *TGen) recArgs(sig *FSig) []*Node {
	var args []*Node
	for _, pt := range sig.Params[1:] {
		args = append(args, g.Expr(pt, 1))
	}
	if sig.Variadic && len(sig.Params) > 0 && sig.Params[len(sig.Params)-1] == TArr {
		args = append(args, Int(0))
	}
	return args
}

// Program draws top-level statements. The prelude defines ident(x), used to keep trees out of the class of a known finding.
func (g *TGen) Program(minStmts, maxStmts int) []*Node {
	n := minStmts + g.intn(maxStmts-minStmts+1, "ntop")
	var out []*Node
	for i := 0; i < n; i++ {
		out = append(out, g.Stmt()...)
	}
	return out
}

// TypedPrelude is evaluated before typed programs.
const TypedPrelude = "func ident(x) { x }\n"
