package gen

import (
	"pgregory.net/rapid"
)

// SynCfg configures the untyped (syntactic) program generator: every tree it makes is a valid
// program text once printed, but nothing says it evaluates without error.
type SynCfg struct {
	MaxDepth   int  // expression nesting
	MaxStmts   int  // statements per block
	Comments   bool // comments in statement positions
	NoLog      bool // leave out log() (it writes to the process logger)
	NoQuote    bool // leave out quote/unquote
	NoFuncs    bool // no function literals / lambdas (used inside register-sensitive bodies)
	BlockDepth int  // nesting of blocks
}

var identPool = []string{"a", "b", "c", "x", "y", "n", "foo", "i", "N", "AB", "nil", "m", "arr"}
var intForms = []string{"0", "1", "2", "7", "42", "-9223372036854775808", "0x1F", "0xff", "0b101", "1_000", "9223372036854775807", "007", "99999999999999999999"}
var floatForms = []string{"1.5", ".5", "0.25", "1e3", "1.5e-3", "2E+2", "3.14159", "100.", "1_0.5", "1e300"}
var strForms = []string{"", "a", "abc", "hello world", "a\"b", "back\\slash", "tab\there", "nl\nx", "\x00", "\xff\xfe", "é😀", "`", "//", "/*", "${x}", " "}

func SynIdent() *rapid.Generator[string] { return rapid.SampledFrom(identPool) }

func synLeaf(t *rapid.T) *Node {
	switch rapid.IntRange(0, 9).Draw(t, "leaf") {
	case 0, 1:
		return IntLit(rapid.SampledFrom(intForms).Draw(t, "int"))
	case 2:
		return FloatLit(rapid.SampledFrom(floatForms).Draw(t, "float"))
	case 3, 4:
		n := Str(rapid.SampledFrom(strForms).Draw(t, "str"))
		n.Raw = rapid.IntRange(0, 3).Draw(t, "raw") == 0
		return n
	case 5:
		return Bool(rapid.Bool().Draw(t, "bool"))
	default:
		return Id(SynIdent().Draw(t, "id"))
	}
}

var synBuiltins1 = []string{"len", "first", "rest", "catch", "del"}
var synBuiltinsN = []string{"print", "println", "error"}

// SynExpr draws an arbitrary expression tree.
func SynExpr(t *rapid.T, c SynCfg, depth int) *Node {
	if depth <= 0 {
		return synLeaf(t)
	}
	sub := func() *Node { return SynExpr(t, c, depth-1) }
	switch rapid.IntRange(0, 21).Draw(t, "expr") {
	case 0, 1, 2:
		return synLeaf(t)
	case 3, 4, 5, 6:
		return Infix(rapid.SampledFrom(InfixOps).Draw(t, "op"), sub(), sub())
	case 7:
		return Prefix(rapid.SampledFrom(PrefixOps).Draw(t, "pop"), sub())
	case 8:
		return Postfix(rapid.SampledFrom([]string{"++", "--"}).Draw(t, "postop"), SynIdent().Draw(t, "id"))
	case 9:
		return Index(sub(), sub())
	case 10:
		return Dot(sub(), rapid.SampledFrom([]string{"k", "key", "value", "a"}).Draw(t, "field"))
	case 11:
		if rapid.Bool().Draw(t, "open") {
			return Slice(sub(), sub(), nil)
		}
		return Slice(sub(), sub(), sub())
	case 12, 13:
		n := rapid.IntRange(0, 3).Draw(t, "nargs")
		args := make([]*Node, n)
		for i := range args {
			args[i] = sub()
		}
		var f *Node
		if rapid.IntRange(0, 3).Draw(t, "callee") == 0 {
			f = sub()
		} else {
			f = Id(rapid.SampledFrom([]string{"f", "g", "foo", "sin", "max", "str"}).Draw(t, "fn"))
		}
		return Call(f, args...)
	case 14:
		if rapid.Bool().Draw(t, "b1") {
			return Builtin(rapid.SampledFrom(synBuiltins1).Draw(t, "bi"), sub())
		}
		names := synBuiltinsN
		if !c.NoLog {
			names = append(append([]string{}, names...), "log")
		}
		n := rapid.IntRange(1, 3).Draw(t, "nargs")
		args := make([]*Node, n)
		for i := range args {
			args[i] = sub()
		}
		return Builtin(rapid.SampledFrom(names).Draw(t, "bi"), args...)
	case 15:
		n := rapid.IntRange(0, 4).Draw(t, "nels")
		els := make([]*Node, n)
		for i := range els {
			els[i] = sub()
		}
		return Array(els...)
	case 16:
		n := rapid.IntRange(0, 3).Draw(t, "npairs")
		kvs := make([]*Node, 0, 2*n)
		for i := 0; i < n; i++ {
			kvs = append(kvs, sub(), sub())
		}
		return Map(kvs...)
	case 17:
		if c.NoFuncs {
			return synLeaf(t)
		}
		params, variadic := synParams(t)
		if rapid.Bool().Draw(t, "block") {
			return LambdaBlock(params, variadic, SynBlock(t, c, depth-1)...)
		}
		return Lambda(params, variadic, sub())
	case 18:
		if c.NoFuncs {
			return synLeaf(t)
		}
		params, variadic := synParams(t)
		name := ""
		if rapid.IntRange(0, 2).Draw(t, "named") == 0 {
			name = rapid.SampledFrom([]string{"f", "g", "helper"}).Draw(t, "fname")
		}
		return Func(name, params, variadic, SynBlock(t, c, depth-1)...)
	case 19:
		return synIf(t, c, depth)
	case 20:
		if c.NoQuote {
			return synLeaf(t)
		}
		return Builtin(rapid.SampledFrom([]string{"quote", "unquote"}).Draw(t, "q"), sub())
	default:
		return Infix(":", sub(), sub())
	}
}

func synParams(t *rapid.T) ([]string, bool) {
	n := rapid.IntRange(0, 3).Draw(t, "nparams")
	var ps []string
	pool := []string{"a", "b", "x", "n", "N"}
	for i := 0; i < n; i++ {
		ps = append(ps, pool[(i+rapid.IntRange(0, 4).Draw(t, "p"))%len(pool)])
	}
	// duplicate names are legal syntax
	variadic := rapid.IntRange(0, 5).Draw(t, "variadic") == 0
	if variadic {
		ps = append(ps, "..")
	}
	return ps, variadic
}

func synIf(t *rapid.T, c SynCfg, depth int) *Node {
	cond := SynExpr(t, c, depth-1)
	then := SynBlock(t, c, depth-1)
	switch rapid.IntRange(0, 3).Draw(t, "else") {
	case 0:
		return If(cond, then)
	case 1:
		n := If(cond, then)
		n.ElseIf = synIf(t, c, depth-1)
		if depth <= 1 {
			n.ElseIf = If(synLeaf(t), SynBlock(t, c, 0))
		}
		return n
	default:
		return IfElse(cond, then, SynBlock(t, c, depth-1))
	}
}

var commentPool = []string{"// c", "// a comment with = and { and \"", "/* block */", "/* multi\n line */", "//", "/**/", "// trailing   "}

// SynStmt draws a statement.
func SynStmt(t *rapid.T, c SynCfg, depth int) *Node {
	switch rapid.IntRange(0, 15).Draw(t, "stmt") {
	case 0, 1, 2:
		return SynExpr(t, c, depth)
	case 3, 4:
		return Infix(rapid.SampledFrom([]string{"=", ":="}).Draw(t, "asg"), Id(SynIdent().Draw(t, "lhs")), SynExpr(t, c, depth))
	case 5:
		tgt := Id(SynIdent().Draw(t, "lhs"))
		if rapid.Bool().Draw(t, "dot") {
			return Infix("=", Dot(tgt, "k"), SynExpr(t, c, depth))
		}
		return Infix("=", Index(tgt, SynExpr(t, c, depth-1)), SynExpr(t, c, depth))
	case 6, 7:
		return synIf(t, c, depth)
	case 8, 9:
		var cond *Node
		v := SynIdent().Draw(t, "loopvar")
		switch rapid.IntRange(0, 4).Draw(t, "forform") {
		case 0:
			cond = SynExpr(t, c, depth-1)
		case 1:
			cond = Infix("=", Id(v), SynExpr(t, c, depth-1))
		case 2:
			cond = Infix("=", Id(v), Infix(":", SynExpr(t, c, depth-1), SynExpr(t, c, depth-1)))
		case 3:
			cond = IntLit("3")
		default:
			cond = Infix(":=", Id(v), SynExpr(t, c, depth-1))
		}
		return For(cond, SynBlock(t, c, depth-1)...)
	case 10:
		switch rapid.IntRange(0, 3).Draw(t, "ctl") {
		case 0:
			return Break()
		case 1:
			return Continue()
		case 2:
			return Return(nil)
		default:
			return Return(SynExpr(t, c, depth))
		}
	case 11:
		if c.NoFuncs {
			return SynExpr(t, c, depth)
		}
		params, variadic := synParams(t)
		return Func(rapid.SampledFrom([]string{"f", "g", "helper", "fact"}).Draw(t, "fname"), params, variadic, SynBlock(t, c, depth-1)...)
	case 12, 13:
		if c.Comments {
			return Comment(rapid.SampledFrom(commentPool).Draw(t, "comment"))
		}
		return SynExpr(t, c, depth)
	default:
		return Println(SynExpr(t, c, depth))
	}
}

// SynBlock draws a statement list (possibly empty).
func SynBlock(t *rapid.T, c SynCfg, depth int) []*Node {
	maxN := c.MaxStmts
	if maxN <= 0 {
		maxN = 3
	}
	if depth <= 0 && maxN > 2 {
		maxN = 2
	}
	n := rapid.IntRange(0, maxN).Draw(t, "nstmts")
	out := make([]*Node, 0, n)
	for i := 0; i < n; i++ {
		out = append(out, SynStmt(t, c, depth))
	}
	return fixBareReturns(out)
}

// A bare `return` can only be written as the last statement of a block (anything after it, even `;`,
// is read as its value or rejected), so earlier ones get an explicit value.
func fixBareReturns(stmts []*Node) []*Node {
	for i, s := range stmts {
		if s.K == KReturn && len(s.Kids) == 0 && i < len(stmts)-1 {
			stmts[i] = Return(Id("nil"))
		}
	}
	return stmts
}

// SynProgram draws a whole program.
func SynProgram(t *rapid.T, c SynCfg) []*Node {
	if c.MaxDepth <= 0 {
		c.MaxDepth = 3
	}
	n := rapid.IntRange(1, 6).Draw(t, "ntop")
	out := make([]*Node, 0, n)
	for i := 0; i < n; i++ {
		out = append(out, SynStmt(t, c, c.MaxDepth))
	}
	return fixBareReturns(out)
}

// RapidChooser adapts rapid draws to the printer's layout choices.
func RapidChooser(t *rapid.T) Chooser {
	return func(n int) int { return rapid.IntRange(0, n-1).Draw(t, "layout") }
}
