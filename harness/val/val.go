// Package val is the harness's own model of grol data values: construction, rendering to grol
// source text, the reference total order (written from the documented semantics, sharing no code
// with /repo) and the printed form.
package val

import (
	"fmt"
	"math"
	"sort"
	"strconv"
	"strings"
)

type Kind int

const (
	Int Kind = iota
	Float
	Bool
	Nil
	Str
	Arr
	Map
	Fn // a function: only the reference evaluator (package ref) builds these; S is its text, P its closure
)

type KV struct {
	K, V V
}

// V is a plain value. Map pairs are kept sorted by key in the reference order with unique keys.
type V struct {
	K Kind
	I int64
	F float64
	B bool
	S string
	A []V
	M []KV
	P any // Fn only
}

func I(i int64) V   { return V{K: Int, I: i} }
func F(f float64) V { return V{K: Float, F: f} }
func B(b bool) V    { return V{K: Bool, B: b} }
func N() V          { return V{K: Nil} }
func S(s string) V  { return V{K: Str, S: s} }
func A(els ...V) V  { return V{K: Arr, A: append([]V{}, els...)} }
func M(pairs ...KV) V {
	m := V{K: Map}
	for _, p := range pairs {
		m = m.Set(p.K, p.V)
	}
	return m
}

// CmpIntFloat compares an int64 with a float64 exactly. NaN sorts below every number.
func CmpIntFloat(i int64, f float64) int {
	switch {
	case math.IsNaN(f):
		return 1
	case f >= 9223372036854775808.0:
		return -1
	case f < -9223372036854775808.0:
		return 1
	}
	t := math.Trunc(f)
	ti := int64(t)
	switch {
	case i < ti:
		return -1
	case i > ti:
		return 1
	}
	switch fr := f - t; {
	case fr > 0:
		return -1
	case fr < 0:
		return 1
	}
	return 0
}

func cmpFloat(a, b float64) int {
	an, bn := math.IsNaN(a), math.IsNaN(b)
	switch {
	case an && bn:
		return 0
	case an:
		return -1
	case bn:
		return 1
	case a < b:
		return -1
	case a > b:
		return 1
	}
	return 0
}

func rank(k Kind) int {
	switch k {
	case Int, Float:
		return 0
	case Bool:
		return 1
	case Nil:
		return 2
	case Fn:
		return 3
	case Str:
		return 4 // functions (3) sit between nil and strings
	case Arr:
		return 5
	default:
		return 6
	}
}

// Cmp is the reference order: numbers (by exact value, NaN lowest) < booleans (false<true) < nil <
// functions < strings (bytewise) < arrays (by length, then element-wise) < maps (by length, then pair-wise).
func Cmp(a, b V) int {
	ra, rb := rank(a.K), rank(b.K)
	if ra != rb {
		if ra < rb {
			return -1
		}
		return 1
	}
	switch a.K {
	case Int:
		if b.K == Int {
			switch {
			case a.I < b.I:
				return -1
			case a.I > b.I:
				return 1
			}
			return 0
		}
		return CmpIntFloat(a.I, b.F)
	case Float:
		if b.K == Int {
			return -CmpIntFloat(b.I, a.F)
		}
		return cmpFloat(a.F, b.F)
	case Bool:
		switch {
		case a.B == b.B:
			return 0
		case a.B:
			return 1
		}
		return -1
	case Nil:
		return 0
	case Str, Fn:
		return strings.Compare(a.S, b.S)
	case Arr:
		if len(a.A) != len(b.A) {
			if len(a.A) < len(b.A) {
				return -1
			}
			return 1
		}
		for i := range a.A {
			if c := Cmp(a.A[i], b.A[i]); c != 0 {
				return c
			}
		}
		return 0
	default:
		if len(a.M) != len(b.M) {
			if len(a.M) < len(b.M) {
				return -1
			}
			return 1
		}
		for i := range a.M {
			if c := Cmp(a.M[i].K, b.M[i].K); c != 0 {
				return c
			}
			if c := Cmp(a.M[i].V, b.M[i].V); c != 0 {
				return c
			}
		}
		return 0
	}
}

// SameType is the language's "same type class" used by ==.
func SameType(a, b V) bool { return a.K == b.K }

// Equal is the language's ==: same type and order-equivalent, at every level of a container ([1] is not [1.0]).
func Equal(a, b V) bool {
	if !SameType(a, b) {
		return false
	}
	switch a.K {
	case Arr:
		if len(a.A) != len(b.A) {
			return false
		}
		for i := range a.A {
			if !Equal(a.A[i], b.A[i]) {
				return false
			}
		}
		return true
	case Map:
		if len(a.M) != len(b.M) {
			return false
		}
		for i := range a.M {
			if !Equal(a.M[i].K, b.M[i].K) || !Equal(a.M[i].V, b.M[i].V) {
				return false
			}
		}
		return true
	}
	return Cmp(a, b) == 0
}

// Identical is structural identity including type, NaN==NaN, and -0 distinguished from +0.
func Identical(a, b V) bool {
	if a.K != b.K {
		return false
	}
	switch a.K {
	case Int:
		return a.I == b.I
	case Float:
		return math.Float64bits(a.F) == math.Float64bits(b.F) || (math.IsNaN(a.F) && math.IsNaN(b.F))
	case Bool:
		return a.B == b.B
	case Nil:
		return true
	case Str:
		return a.S == b.S
	case Fn:
		return a.P == b.P
	case Arr:
		if len(a.A) != len(b.A) {
			return false
		}
		for i := range a.A {
			if !Identical(a.A[i], b.A[i]) {
				return false
			}
		}
		return true
	default:
		if len(a.M) != len(b.M) {
			return false
		}
		for i := range a.M {
			if !Identical(a.M[i].K, b.M[i].K) || !Identical(a.M[i].V, b.M[i].V) {
				return false
			}
		}
		return true
	}
}

func (v V) Copy() V {
	c := v
	if v.A != nil {
		c.A = make([]V, len(v.A))
		for i := range v.A {
			c.A[i] = v.A[i].Copy()
		}
	}
	if v.M != nil {
		c.M = make([]KV, len(v.M))
		for i := range v.M {
			c.M[i] = KV{v.M[i].K.Copy(), v.M[i].V.Copy()}
		}
	}
	return c
}

func (v V) find(k V) (int, bool) {
	i := sort.Search(len(v.M), func(i int) bool { return Cmp(v.M[i].K, k) >= 0 })
	return i, i < len(v.M) && Cmp(v.M[i].K, k) == 0
}

// Get looks a key up (order-equivalence, so 1 and 1.0 are the same key).
func (v V) Get(k V) (V, bool) {
	i, ok := v.find(k)
	if !ok {
		return N(), false
	}
	return v.M[i].V, true
}

// Set returns a new map with k bound to val. An existing equivalent key keeps its original key value.
func (v V) Set(k, val V) V {
	r := v.Copy()
	r.K = Map
	i, ok := r.find(k)
	if ok {
		r.M[i].V = val.Copy()
		return r
	}
	r.M = append(r.M, KV{})
	copy(r.M[i+1:], r.M[i:])
	r.M[i] = KV{k.Copy(), val.Copy()}
	return r
}

func (v V) Del(k V) (V, bool) {
	i, ok := v.find(k)
	if !ok {
		return v, false
	}
	r := v.Copy()
	r.M = append(r.M[:i], r.M[i+1:]...)
	return r, true
}

func (v V) Len() int {
	switch v.K {
	case Arr:
		return len(v.A)
	case Map:
		return len(v.M)
	case Str:
		return len(v.S)
	}
	return 0
}

// FloatSrc renders a float so that grol's lexer/parser reads back exactly that float.
func FloatSrc(f float64) string {
	switch {
	case math.IsNaN(f):
		return "NaN"
	case math.IsInf(f, 1):
		return "Inf"
	case math.IsInf(f, -1):
		return "-Inf"
	}
	neg := math.Signbit(f)
	s := strconv.FormatFloat(math.Abs(f), 'g', -1, 64)
	if !strings.ContainsAny(s, ".e") {
		s += ".0"
	}
	if neg {
		return "-" + s
	}
	return s
}

// StrSrc renders a byte string as a double-quoted grol literal using only escapes the lexer documents.
func StrSrc(s string) string {
	var sb strings.Builder
	sb.WriteByte('"')
	for i := 0; i < len(s); i++ {
		c := s[i]
		switch {
		case c == '"' || c == '\\':
			sb.WriteByte('\\')
			sb.WriteByte(c)
		case c == '\n':
			sb.WriteString(`\n`)
		case c == '\t':
			sb.WriteString(`\t`)
		case c >= 0x20 && c < 0x7f:
			sb.WriteByte(c)
		default:
			fmt.Fprintf(&sb, `\x%02x`, c)
		}
	}
	sb.WriteByte('"')
	return sb.String()
}

// Src renders the value as a grol expression that evaluates to it. Negative numbers are
// parenthesised so the text can be used as an operand anywhere.
func (v V) Src() string {
	switch v.K {
	case Int:
		if v.I == math.MinInt64 {
			return "(-9223372036854775807-1)"
		}
		if v.I < 0 {
			return "(" + strconv.FormatInt(v.I, 10) + ")"
		}
		return strconv.FormatInt(v.I, 10)
	case Float:
		s := FloatSrc(v.F)
		if strings.HasPrefix(s, "-") {
			return "(" + s + ")"
		}
		return s
	case Bool:
		return strconv.FormatBool(v.B)
	case Nil:
		return "nil"
	case Str:
		return StrSrc(v.S)
	case Fn:
		return "<func " + v.S + ">"
	case Arr:
		parts := make([]string, len(v.A))
		for i, e := range v.A {
			parts[i] = e.Src()
		}
		return "[" + strings.Join(parts, ", ") + "]"
	default:
		parts := make([]string, len(v.M))
		for i, p := range v.M {
			parts[i] = p.K.Src() + ": " + p.V.Src()
		}
		return "{" + strings.Join(parts, ", ") + "}"
	}
}

// Show is a readable rendering for messages (not grol's printed form).
func (v V) Show() string {
	switch v.K {
	case Float:
		return "float(" + FloatSrc(v.F) + ")"
	case Arr:
		parts := make([]string, len(v.A))
		for i, e := range v.A {
			parts[i] = e.Show()
		}
		return "[" + strings.Join(parts, ",") + "]"
	case Map:
		parts := make([]string, len(v.M))
		for i, p := range v.M {
			parts[i] = p.K.Show() + ":" + p.V.Show()
		}
		return "{" + strings.Join(parts, ",") + "}"
	}
	return v.Src()
}

// Inspect is the documented printed form of a data value (what println of a container shows, and what
// save() writes): integers in decimal, floats in shortest 'f' form, strings Go-quoted, containers without spaces.
func (v V) Inspect() string {
	switch v.K {
	case Int:
		return strconv.FormatInt(v.I, 10)
	case Float:
		s := strconv.FormatFloat(v.F, 'f', -1, 64)
		// an integral float inside the integer range keeps a ".0" (it would read back as an integer otherwise)
		if v.F > -9223372036854775808.0 && v.F < 9223372036854775808.0 && !strings.Contains(s, ".") {
			s += ".0"
		}
		return s
	case Bool:
		return strconv.FormatBool(v.B)
	case Nil:
		return "nil"
	case Str:
		return strconv.Quote(v.S)
	case Fn:
		return v.S
	case Arr:
		parts := make([]string, len(v.A))
		for i, e := range v.A {
			parts[i] = e.Inspect()
		}
		return "[" + strings.Join(parts, ",") + "]"
	default:
		parts := make([]string, len(v.M))
		for i, p := range v.M {
			parts[i] = p.K.Inspect() + ":" + p.V.Inspect()
		}
		return "{" + strings.Join(parts, ",") + "}"
	}
}

// Rest / First / Range on maps as the language documents them.
func (v V) MapFirst() V {
	if len(v.M) == 0 {
		return N()
	}
	return M(KV{S("key"), v.M[0].K}, KV{S("value"), v.M[0].V})
}

func (v V) MapRest() V {
	if len(v.M) <= 1 {
		return N()
	}
	r := v.Copy()
	r.M = r.M[1:]
	return r
}

func (v V) MapRange(l, r int) V {
	c := v.Copy()
	c.M = c.M[l:r]
	return c
}

// Merge is m + n: pairs of n set into m one by one.
func (v V) Merge(n V) V {
	r := v.Copy()
	for _, p := range n.M {
		r = r.Set(p.K, p.V)
	}
	return r
}
