// Package dump renders a grol syntax tree as a canonical S-expression: node kind, token type and
// literal, children in order. Layout information (comment same-line flags) is not part of it.
// Two trees are "the same program" iff their dumps are equal.
package dump

import (
	"fmt"
	"strconv"
	"strings"

	"grol.io/grol/ast"
	"grol.io/grol/object"
	"grol.io/grol/token"
)

type Options struct {
	DropComments bool // leave statement-level comments out (compact mode drops them by design)
}

type dumper struct {
	sb      strings.Builder
	opt     Options
	missing []string
	path    []string
	opComm  int
}

// Info is the full result of a dump.
type Info struct {
	Text            string
	Missing         []string
	OperandComments int // comments that are not statements of a block (operands): "the program without comments" is undefined for those
}

func DumpInfo(n ast.Node, opt Options) Info {
	d := &dumper{opt: opt}
	d.node(n, "root")
	return Info{Text: d.sb.String(), Missing: d.missing, OperandComments: d.opComm}
}

// Dump returns the S-expression and the list of places where a required child is missing (nil).
func Dump(n ast.Node, opt Options) (string, []string) {
	d := &dumper{opt: opt}
	d.node(n, "root")
	return d.sb.String(), d.missing
}

func (d *dumper) miss(what string) {
	d.missing = append(d.missing, strings.Join(d.path, "/")+"/"+what)
	d.sb.WriteString("<nil>")
}

func tok(t *token.Token) string {
	if t == nil {
		return "<notoken>"
	}
	return t.Type().String() + ":" + strconv.Quote(t.Literal())
}

func (d *dumper) list(name string, nodes []ast.Node) {
	d.sb.WriteString(" (" + name)
	for i, n := range nodes {
		d.sb.WriteByte(' ')
		d.node(n, name+strconv.Itoa(i))
	}
	d.sb.WriteString(")")
}

func (d *dumper) stmts(s *ast.Statements, what string, optional bool) {
	if s == nil {
		if optional {
			d.sb.WriteString("<none>")
			return
		}
		d.miss(what)
		return
	}
	d.path = append(d.path, what)
	d.sb.WriteString("(block")
	for i, st := range s.Statements {
		if d.opt.DropComments {
			if _, ok := st.(*ast.Comment); ok {
				continue
			}
		}
		d.sb.WriteByte(' ')
		d.node(st, "stmt"+strconv.Itoa(i))
	}
	d.sb.WriteString(")")
	d.path = d.path[:len(d.path)-1]
}

func (d *dumper) node(n ast.Node, what string) {
	if n == nil {
		d.miss(what)
		return
	}
	d.path = append(d.path, what)
	defer func() { d.path = d.path[:len(d.path)-1] }()
	switch n := n.(type) {
	case *ast.Statements:
		d.path = d.path[:len(d.path)-1]
		d.stmts(n, what, false)
		d.path = append(d.path, what)
	case *ast.Identifier:
		if n == nil {
			d.miss(what)
			return
		}
		d.sb.WriteString("(id " + tok(n.Token) + ")")
	case *ast.Comment:
		if n == nil {
			d.miss(what)
			return
		}
		if !strings.HasPrefix(what, "stmt") {
			d.opComm++
		}
		d.sb.WriteString("(comment " + tok(n.Token) + ")")
	case *ast.IntegerLiteral:
		if n == nil {
			d.miss(what)
			return
		}
		d.sb.WriteString("(int " + tok(n.Token) + " " + strconv.FormatInt(n.Val, 10) + ")")
	case ast.IntegerLiteral:
		d.sb.WriteString("(int " + tok(n.Token) + " " + strconv.FormatInt(n.Val, 10) + ")")
	case *ast.FloatLiteral:
		if n == nil {
			d.miss(what)
			return
		}
		d.sb.WriteString("(float " + tok(n.Token) + " " + strconv.FormatFloat(n.Val, 'g', -1, 64) + ")")
	case *ast.StringLiteral:
		if n == nil {
			d.miss(what)
			return
		}
		d.sb.WriteString("(str " + tok(n.Token) + ")")
	case *ast.Boolean:
		if n == nil {
			d.miss(what)
			return
		}
		d.sb.WriteString("(bool " + strconv.FormatBool(n.Val) + ")")
	case ast.Boolean:
		d.sb.WriteString("(bool " + strconv.FormatBool(n.Val) + ")")
	case *ast.ControlExpression:
		if n == nil {
			d.miss(what)
			return
		}
		d.sb.WriteString("(control " + tok(n.Token) + ")")
	case *ast.ReturnStatement:
		if n == nil {
			d.miss(what)
			return
		}
		d.sb.WriteString("(return")
		if n.ReturnValue != nil {
			d.sb.WriteByte(' ')
			d.node(n.ReturnValue, "value")
		}
		d.sb.WriteString(")")
	case *ast.PrefixExpression:
		if n == nil {
			d.miss(what)
			return
		}
		d.sb.WriteString("(prefix " + tok(n.Token) + " ")
		d.node(n.Right, "operand")
		d.sb.WriteString(")")
	case *ast.PostfixExpression:
		if n == nil {
			d.miss(what)
			return
		}
		d.sb.WriteString("(postfix " + tok(n.Token) + " " + tok(n.Prev) + ")")
	case *ast.InfixExpression:
		if n == nil {
			d.miss(what)
			return
		}
		d.sb.WriteString("(infix " + tok(n.Token) + " ")
		d.node(n.Left, "left")
		d.sb.WriteByte(' ')
		if n.Right == nil && n.Token != nil && n.Token.Type() == token.COLON && strings.HasPrefix(what, "index") {
			d.sb.WriteString("<open>") // a[n:] — the one place the grammar allows a missing right side
		} else {
			d.node(n.Right, "right")
		}
		d.sb.WriteString(")")
	case *ast.ForExpression:
		if n == nil {
			d.miss(what)
			return
		}
		d.sb.WriteString("(for ")
		d.node(n.Condition, "cond")
		d.sb.WriteByte(' ')
		d.stmts(n.Body, "body", false)
		d.sb.WriteString(")")
	case *ast.IfExpression:
		if n == nil {
			d.miss(what)
			return
		}
		d.sb.WriteString("(if ")
		d.node(n.Condition, "cond")
		d.sb.WriteByte(' ')
		d.stmts(n.Consequence, "then", false)
		d.sb.WriteByte(' ')
		d.stmts(n.Alternative, "else", true)
		d.sb.WriteString(")")
	case *ast.Builtin:
		if n == nil {
			d.miss(what)
			return
		}
		d.sb.WriteString("(builtin " + tok(n.Token))
		d.list("args", n.Parameters)
		d.sb.WriteString(")")
	case *ast.FunctionLiteral:
		if n == nil {
			d.miss(what)
			return
		}
		d.sb.WriteString("(func")
		if n.Name != nil {
			d.sb.WriteString(" name=" + strconv.Quote(n.Name.Literal()))
		}
		d.sb.WriteString(fmt.Sprintf(" lambda=%v variadic=%v", n.IsLambda, n.Variadic))
		d.list("params", n.Parameters)
		d.sb.WriteByte(' ')
		d.stmts(n.Body, "body", false)
		d.sb.WriteString(")")
	case *ast.MacroLiteral:
		if n == nil {
			d.miss(what)
			return
		}
		d.sb.WriteString("(macro")
		d.list("params", n.Parameters)
		d.sb.WriteByte(' ')
		d.stmts(n.Body, "body", false)
		d.sb.WriteString(")")
	case *ast.CallExpression:
		if n == nil {
			d.miss(what)
			return
		}
		d.sb.WriteString("(call ")
		d.node(n.Function, "callee")
		d.list("args", n.Arguments)
		d.sb.WriteString(")")
	case *ast.ArrayLiteral:
		if n == nil {
			d.miss(what)
			return
		}
		d.sb.WriteString("(array")
		d.list("els", n.Elements)
		d.sb.WriteString(")")
	case *ast.IndexExpression:
		if n == nil {
			d.miss(what)
			return
		}
		d.sb.WriteString("(index " + tok(n.Token) + " ")
		d.node(n.Left, "target")
		d.sb.WriteByte(' ')
		d.node(n.Index, "index")
		d.sb.WriteString(")")
	case *ast.MapLiteral:
		if n == nil {
			d.miss(what)
			return
		}
		d.sb.WriteString("(map")
		for i, k := range n.Order {
			d.sb.WriteString(" (pair ")
			d.node(k, "key"+strconv.Itoa(i))
			d.sb.WriteByte(' ')
			v, ok := n.Pairs[k]
			if !ok {
				d.miss("value" + strconv.Itoa(i))
			} else {
				d.node(v, "value"+strconv.Itoa(i))
			}
			d.sb.WriteString(")")
		}
		if len(n.Pairs) != len(n.Order) {
			d.missing = append(d.missing, strings.Join(d.path, "/")+fmt.Sprintf("/map has %d pairs but %d ordered keys", len(n.Pairs), len(n.Order)))
		}
		d.sb.WriteString(")")
	case *object.Register:
		d.sb.WriteString("(register " + strconv.Quote(n.Literal()) + ")")
	default:
		d.sb.WriteString(fmt.Sprintf("(unknown %T)", n))
		d.missing = append(d.missing, strings.Join(d.path, "/")+fmt.Sprintf("/unknown node type %T", n))
	}
}
