// Package sess drives persistent interpreter sessions the way the REPL and the bot do.
package sess

import (
	"bytes"
	"context"
	"fmt"
	"strings"
	"sync"
	"time"

	"fortio.org/log"
	"grol.io/grol/eval"
	"grol.io/grol/extensions"
	"grol.io/grol/lexer"
	"grol.io/grol/object"
	"grol.io/grol/parser"
	"grol.io/grol/repl"
)

var initOnce sync.Once

// Init initialises the extensions once per process (restricted IO, load/save present) and silences logging.
func Init() {
	initOnce.Do(func() {
		log.SetLogLevelQuiet(log.Critical)
		log.Config.ForceColor = false
		_ = extensions.Init(&extensions.Config{HasLoad: true, HasSave: true})
	})
}

type S struct {
	St   *eval.State
	Out  *bytes.Buffer // the session writer: set ONCE, never re-set between inputs
	Opts repl.Options
}

const globalsUnavailable = "UNAVAILABLE: "

// GlobalsUnavailable tells that Globals() could not render the state (see there).
func GlobalsUnavailable(g string) bool { return strings.HasPrefix(g, globalsUnavailable) }

// limitWriter keeps the first outputLimit bytes a session prints. A generated program can print a string of hundreds of
// megabytes in a loop: in the REPL that goes to the terminal, here it would pile up in the test process.
type limitWriter struct {
	buf       *bytes.Buffer
	truncated bool
}

const outputLimit = 16 << 20

func (w *limitWriter) Write(p []byte) (int, error) {
	if room := outputLimit - w.buf.Len(); len(p) > room {
		w.truncated = true
		if room > 0 {
			w.buf.Write(p[:room])
		}
		return len(p), nil
	}
	return w.buf.Write(p)
}

type Config struct {
	NoReg       bool
	MaxDepth    int
	MaxDuration time.Duration
	LineMode    bool
}

func New(c Config) *S {
	Init()
	st := eval.NewState()
	buf := &bytes.Buffer{}
	lw := &limitWriter{buf: buf}
	st.Out = lw
	st.LogOut = lw
	st.NoLog = true
	st.NoReg = c.NoReg
	if c.MaxDepth > 0 {
		st.MaxDepth = c.MaxDepth
	}
	return &S{St: st, Out: buf, Opts: repl.Options{
		All: !c.LineMode, ShowEval: true, NoColor: true, NilAndErr: false,
		NoReg: c.NoReg, MaxDepth: c.MaxDepth, MaxDuration: c.MaxDuration,
	}}
}

type Res struct {
	Out      string // bytes appended to the session writer by this input
	Echo     string // what EvalOne wrote to its out argument (result echo)
	Errs     []string
	Panicked bool
	Cont     bool
	Fmt      string
	Late     bool // the input ran until its deadline (whatever the error that ended it says)
}

func (r Res) Failed() bool { return r.Panicked || len(r.Errs) > 0 }

func (r Res) String() string {
	return fmt.Sprintf("out=%q echo=%q errs=%d panicked=%v cont=%v", r.Out, r.Echo, len(r.Errs), r.Panicked, r.Cont)
}

// RunWith feeds one input with its own evaluation deadline.
func (s *S) RunWith(src string, maxDuration time.Duration) Res {
	saved := s.Opts.MaxDuration
	s.Opts.MaxDuration = maxDuration
	defer func() { s.Opts.MaxDuration = saved }()
	return s.Run(src)
}

// Run feeds one input through repl.EvalOne.
func (s *S) Run(src string) Res {
	before := s.Out.Len()
	echoBuf := &bytes.Buffer{}
	echo := &limitWriter{buf: echoBuf}
	start := time.Now()
	cont, panicked, errs, formatted := repl.EvalOne(context.Background(), s.St, src, echo, s.Opts)
	// an expired deadline does not always surface under its own name (the error value can end up as the operand of
	// something that fails in its own way): the clock decides
	late := s.Opts.MaxDuration > 0 && time.Since(start) >= s.Opts.MaxDuration*9/10
	all := s.Out.Bytes()
	var delta string
	if len(all) >= before {
		delta = string(all[before:])
	}
	if lw, ok := s.St.Out.(*limitWriter); (ok && lw.truncated) || echo.truncated {
		// what was printed is incomplete: comparisons treat the input like one stopped by the allocation guard
		errs = append(errs, "verif: output truncated, would exceed memory of the harness")
	}
	return Res{Out: delta, Echo: echoBuf.String(), Errs: errs, Panicked: panicked, Cont: cont, Fmt: formatted, Late: late}
}

// Obj parses and evaluates src directly on the session state and returns the resulting object.
// Panics are recovered and returned as errors (with the state reset, as the REPL does).
func (s *S) Obj(src string) (res object.Object, err error) {
	defer func() {
		if r := recover(); r != nil {
			s.St.Reset()
			err = fmt.Errorf("panic: %v", r)
		}
	}()
	p := parser.New(lexer.New(src))
	prog := p.ParseProgram()
	if len(p.Errors()) > 0 {
		return nil, fmt.Errorf("parse errors: %s", strings.Join(p.Errors(), "; "))
	}
	cancel := s.St.SetContext(context.Background(), s.Opts.MaxDuration) // EvalOne cancels the context it installs
	defer cancel()
	s.St.DefineMacros(prog)
	var node any = prog
	if s.St.NumMacros() > 0 {
		node = s.St.ExpandMacros(prog)
	}
	res = s.St.EvalToplevel(node)
	if res.Type() == object.ERROR {
		return res, fmt.Errorf("eval error: %s", res.Inspect())
	}
	return res, nil
}

// Globals returns the saved form of all globals (sorted, one per line), the snapshot used to compare sessions.
func (s *S) Globals() (out string) {
	defer func() {
		// the printed form of a global can be refused by the allocation guard (a value referencing one container from
		// many places): nothing to compare then
		if r := recover(); r != nil {
			out = fmt.Sprintf("%s%v", globalsUnavailable, r)
		}
	}()
	var b bytes.Buffer
	_, err := s.St.SaveGlobals(&b)
	if err != nil {
		return "ERROR: " + err.Error()
	}
	return b.String()
}

// Diff describes the first observable difference between two runs of the same inputs, or "".
type DiffOptions struct {
	CompareErrorText bool
	SkipGlobals      bool
	IgnoreGlobal     func(name string) bool // globals left out of the comparison
}

func filterGlobals(g string, ignore func(string) bool) string {
	if ignore == nil {
		return g
	}
	var out []string
	for _, line := range strings.Split(g, "\n") {
		name := line
		if i := strings.IndexAny(line, "=("); i >= 0 {
			name = strings.TrimPrefix(line[:i], "func ")
		}
		if !ignore(name) {
			out = append(out, line)
		}
	}
	return strings.Join(out, "\n")
}

// RunAll feeds the inputs to a fresh session.
func RunAll(c Config, prelude, inputs []string) ([]Res, string, *S) {
	s := New(c)
	for _, p := range prelude {
		if r := s.Run(p); r.Failed() {
			panic(fmt.Sprintf("harness: prelude %q failed: %v", p, r.Errs))
		}
	}
	out := make([]Res, len(inputs))
	for i, in := range inputs {
		out[i] = s.Run(in)
	}
	return out, s.Globals(), s
}

func firstLine(s string) string {
	if i := strings.IndexByte(s, '\n'); i >= 0 {
		return s[:i]
	}
	return s
}

// CompareRuns returns a description of the first difference between two result lists.
func CompareRuns(inputs []string, a, b []Res, ga, gb string, nameA, nameB string, o DiffOptions) string {
	for i := range inputs {
		x, y := a[i], b[i]
		if TimedOut(x) || TimedOut(y) {
			return "" // a deadline fired: whatever follows depends on timing, the case is inconclusive
		}
		if MemoryRefused(x) || MemoryRefused(y) {
			return "" // the allocation guard fired: it depends on how much garbage the process holds at that moment
		}
		switch {
		case x.Out != y.Out:
			return fmt.Sprintf("input #%d %q prints\n  %q with %s but\n  %q with %s", i, inputs[i], x.Out, nameA, y.Out, nameB)
		case x.Echo != y.Echo && !(x.Failed() && y.Failed()):
			return fmt.Sprintf("input #%d %q evaluates to\n  %q with %s but\n  %q with %s", i, inputs[i], x.Echo, nameA, y.Echo, nameB)
		case x.Panicked != y.Panicked:
			return fmt.Sprintf("input #%d %q: panicked=%v (%v) with %s but panicked=%v (%v) with %s", i, inputs[i], x.Panicked, x.Errs, nameA, y.Panicked, y.Errs, nameB)
		case (len(x.Errs) > 0) != (len(y.Errs) > 0):
			return fmt.Sprintf("input #%d %q: errors %q with %s but %q with %s", i, inputs[i], x.Errs, nameA, y.Errs, nameB)
		case x.Cont != y.Cont:
			return fmt.Sprintf("input #%d %q: continuation %v with %s but %v with %s", i, inputs[i], x.Cont, nameA, y.Cont, nameB)
		}
		if o.CompareErrorText && len(x.Errs) > 0 && firstLine(x.Errs[0]) != firstLine(y.Errs[0]) {
			return fmt.Sprintf("input #%d %q: error %q with %s but %q with %s", i, inputs[i], x.Errs[0], nameA, y.Errs[0], nameB)
		}
	}
	if strings.HasPrefix(ga, globalsUnavailable) || strings.HasPrefix(gb, globalsUnavailable) {
		return ""
	}
	ga, gb = filterGlobals(ga, o.IgnoreGlobal), filterGlobals(gb, o.IgnoreGlobal)
	if !o.SkipGlobals && ga != gb {
		return fmt.Sprintf("final globals differ:\n--- %s\n%s--- %s\n%s", nameA, ga, nameB, gb)
	}
	return ""
}

// MemoryRefused reports whether the input was stopped by the allocation guard.
func MemoryRefused(r Res) bool {
	for _, e := range r.Errs {
		if strings.Contains(e, "would exceed memory") {
			return true
		}
	}
	return strings.Contains(r.Out, "would exceed memory") || strings.Contains(r.Echo, "would exceed memory")
}

// TimedOut reports whether the input was stopped by the evaluation deadline.
func TimedOut(r Res) bool {
	if r.Late {
		return true
	}
	for _, e := range r.Errs {
		if strings.Contains(e, "context deadline exceeded") || strings.Contains(e, "context canceled") {
			return true
		}
	}
	return false
}
